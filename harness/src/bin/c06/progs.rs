//! Source-level program generator for the simulator runs: programs that create / share / slice /
//! concat / store / send / drop binaries, whose final value the harness computes itself (host-side
//! shadow evaluation of the same expression tree).
use qverif::Rng;
use std::collections::HashMap;

/// Host-side value (what the program must return).
#[derive(Clone, Debug, PartialEq)]
pub enum HV {
    Bin(Vec<u8>),
    Int(i64),
    Tup(Vec<HV>),
}

impl HV {
    /// canonical rendering, same format as `qverif::canon` for anonymous tuples
    pub fn canon(&self) -> String {
        match self {
            HV::Bin(b) => format!("b{}", qverif::hex(b)),
            HV::Int(i) => format!("i{i}"),
            HV::Tup(fs) => format!("t(_;{})", fs.iter().map(|f| format!("_={}", f.canon())).collect::<Vec<_>>().join(",")),
        }
    }
}

/// Binary-valued expression.
#[derive(Clone, Debug)]
pub enum BE {
    Lit(Vec<u8>),
    Var(String),
    Concat(Box<BE>, Box<BE>),
    Slice(Box<BE>, usize, usize),
}

pub fn lit(r: &mut Rng) -> Vec<u8> {
    let n = 1 + r.usize(6);
    r.bytes(n)
}

fn hexlit(b: &[u8]) -> String {
    format!("0x{}", qverif::hex(b))
}

impl BE {
    pub fn src(&self) -> String {
        match self {
            BE::Lit(b) => hexlit(b),
            BE::Var(v) => v.clone(),
            BE::Concat(a, b) => format!("[{}, {}] __binary_concat__", a.src(), b.src()),
            BE::Slice(a, s, e) => format!("[{}, {s}, {e}] __binary_slice__", a.src()),
        }
    }
    pub fn eval(&self, env: &HashMap<String, Vec<u8>>) -> Vec<u8> {
        match self {
            BE::Lit(b) => b.clone(),
            BE::Var(v) => env[v].clone(),
            BE::Concat(a, b) => {
                let mut x = a.eval(env);
                x.extend(b.eval(env));
                x
            }
            BE::Slice(a, s, e) => a.eval(env)[*s..*e].to_vec(),
        }
    }
}

/// A random binary expression over the variables in `env` (slices stay in range by evaluation).
pub fn gen_be(r: &mut Rng, env: &HashMap<String, Vec<u8>>, depth: usize) -> BE {
    let vars: Vec<&String> = {
        let mut v: Vec<&String> = env.keys().collect();
        v.sort();
        v
    };
    match r.below(if depth >= 2 { 4 } else { 8 }) {
        0 | 1 => BE::Lit(lit(r)),
        2 | 3 if !vars.is_empty() => BE::Var((*r.pick(&vars)).clone()),
        2 | 3 => BE::Lit(lit(r)),
        4 | 5 | 6 => BE::Concat(Box::new(gen_be(r, env, depth + 1)), Box::new(gen_be(r, env, depth + 1))),
        _ => {
            let inner = gen_be(r, env, depth + 1);
            let n = inner.eval(env).len();
            let s = r.usize(n + 1);
            let e = s + r.usize(n - s + 1);
            BE::Slice(Box::new(inner), s, e)
        }
    }
}

/// canonical form of the `Ok` tuple (what a REPL line that ends in a binding returns)
pub const OK: &str = "t(Ok;)";

pub struct Program {
    pub family: &'static str,
    /// REPL lines, evaluated in order in one session
    pub lines: Vec<String>,
    /// expected canonical value of each line (`None` = not compared: a process handle, `Ok`, …)
    pub expected: Vec<Option<String>>,
    /// the result is schedule-independent (single-sender mailboxes, single awaits)
    pub confluent: bool,
    /// probe: line 0 must be REJECTED by the front end (alarm only if it compiles)
    pub must_reject: bool,
}

fn fresh(env: &HashMap<String, Vec<u8>>, r: &mut Rng) -> String {
    loop {
        let v = format!("v{}", r.usize(40));
        if !env.contains_key(&v) {
            return v;
        }
    }
}

/// statements of a local churn (bind, share through tuples, project, shadow, drop) + the names and
/// values of a few bindings to return
fn local_body(r: &mut Rng) -> (Vec<String>, Vec<String>, Vec<HV>) {
    let mut env: HashMap<String, Vec<u8>> = HashMap::new();
    let mut stmts = vec![];
    let n = 2 + r.usize(6);
    for _ in 0..n {
        let e = gen_be(r, &env, 0);
        let val = e.eval(&env);
        match r.below(5) {
            0 | 4 if !env.is_empty() => {
                // through a tuple and back: t = [e, x], v = t.0  (or the second field)
                let keys: Vec<String> = { let mut k: Vec<String> = env.keys().cloned().collect(); k.sort(); k };
                let other = r.pick(&keys).clone();
                let t = format!("t{}", stmts.len());
                let v = fresh(&env, r);
                stmts.push(format!("{t} = [{}, {other}]", e.src()));
                if r.chance(1, 2) {
                    stmts.push(format!("{v} = {t}.0"));
                    env.insert(v, val);
                } else {
                    stmts.push(format!("{v} = {t}.1"));
                    let ov = env[&other].clone();
                    env.insert(v, ov);
                }
            }
            1 if !env.is_empty() => {
                // shadow an existing binding
                let keys: Vec<String> = { let mut k: Vec<String> = env.keys().cloned().collect(); k.sort(); k };
                let v = r.pick(&keys).clone();
                stmts.push(format!("{v} = {}", e.src()));
                env.insert(v, val);
            }
            _ => {
                let v = fresh(&env, r);
                stmts.push(format!("{v} = {}", e.src()));
                env.insert(v, val);
            }
        }
    }
    let keys: Vec<String> = { let mut k: Vec<String> = env.keys().cloned().collect(); k.sort(); k };
    let k = 1 + r.usize(3);
    let mut outs = vec![];
    let mut outv = vec![];
    for _ in 0..k {
        let v = r.pick(&keys).clone();
        outv.push(HV::Bin(env[&v].clone()));
        outs.push(v);
    }
    (stmts, outs, outv)
}

/// T1: local churn in the REPL process.
fn t_local(r: &mut Rng) -> Program {
    let (mut stmts, outs, outv) = local_body(r);
    stmts.push(format!("[{}]", outs.join(", ")));
    Program { family: "local", lines: vec![stmts.join(", ")], expected: vec![Some(HV::Tup(outv).canon())], confluent: true, must_reject: false }
}

/// T1b: the same churn inside a spawned (non-persistent) process: its locals are released when it
/// completes, so a count leaked by any value movement inside becomes visible.
fn t_worker_local(r: &mut Rng) -> Program {
    let (stmts, outs, outv) = local_body(r);
    let body = format!("{}, [{}]", stmts.join(", "), outs.join(", "));
    let lines = vec![format!("p = @{{ {body} }}, !p"), "q = @{ 5 }, !q".to_string()];
    Program { family: "worker-local", lines, expected: vec![Some(HV::Tup(outv).canon()), Some("i5".into())], confluent: true, must_reject: false }
}

/// T9: tail calls that carry binaries — a named tail call out of a frame whose locals hold heap
/// binaries, and a self tail-call loop that builds a binary.
fn t_tail(r: &mut Rng) -> Program {
    let k1 = lit(r);
    let k2 = lit(r);
    let k3 = lit(r);
    let x = lit(r);
    let y = lit(r);
    let n = 1 + r.usize(5);
    let src = format!(
        "g = #'bin {{ =m, [m, {}] __binary_concat__ }}, f = #'bin {{ =m, t = [m, {}] __binary_concat__, u = [t, t], u.0 ^g }}, loop = #['int, 'bin] {{ | =[0, acc] => acc | =[n, acc] => w = [acc, {}] __binary_concat__, [[n, 1] __integer_subtract__, w] ^ }}, p = @{{ [{} f, [{n}, {}] loop] }}, !p",
        hexlit(&k2), hexlit(&k1), hexlit(&k3), hexlit(&x), hexlit(&y)
    );
    let mut a = x.clone();
    a.extend(k1);
    a.extend(k2);
    let mut b = y.clone();
    for _ in 0..n {
        b.extend(k3.clone());
    }
    Program {
        family: "tail-calls",
        lines: vec![src, "q = @{ 5 }, !q".to_string()],
        expected: vec![Some(HV::Tup(vec![HV::Bin(a), HV::Bin(b)]).canon()), Some("i5".into())],
        confluent: true,
        must_reject: false,
    }
}

/// T2: spawn with captures (each capture a different heap binary) and await the result.
fn t_spawn(r: &mut Rng) -> Program {
    let mut env: HashMap<String, Vec<u8>> = HashMap::new();
    let mut stmts = vec![];
    let n = 2 + r.usize(3);
    let mut names = vec![];
    for i in 0..n {
        let e = gen_be(r, &env, 1);
        let v = format!("c{i}");
        stmts.push(format!("{v} = {}", e.src()));
        env.insert(v.clone(), e.eval(&env));
        names.push(v);
    }
    // body: a tuple of expressions over the captures
    let k = 1 + r.usize(3);
    let mut parts = vec![];
    let mut vals = vec![];
    for _ in 0..k {
        let e = gen_be(r, &env, 1);
        vals.push(HV::Bin(e.eval(&env)));
        parts.push(e.src());
    }
    let with_arg = r.chance(1, 2);
    if with_arg {
        // argument + captures: the argument is a heap binary too
        let a = gen_be(r, &env, 1);
        let av = a.eval(&env);
        vals.push(HV::Bin(av));
        stmts.push(format!("p = {} @'bin {{ =arg, [{}, arg] }}", a.src(), parts.join(", ")));
    } else {
        stmts.push(format!("p = @{{ [{}] }}", parts.join(", ")));
    }
    let again = r.chance(1, 3);
    if again {
        // await twice (the stored result of the first await is replaced / dropped)
        stmts.push("!p =first".to_string());
        stmts.push("!p =second".to_string());
        stmts.push("[first, second]".to_string());
        let v = HV::Tup(vals);
        Program { family: "spawn-captures-reawait", lines: vec![stmts.join(", ")], expected: vec![Some(HV::Tup(vec![v.clone(), v]).canon())], confluent: true, must_reject: false }
    } else {
        stmts.push("!p".to_string());
        Program { family: "spawn-captures", lines: vec![stmts.join(", ")], expected: vec![Some(HV::Tup(vals).canon())], confluent: true, must_reject: false }
    }
}

/// T3: a chain of processes, each receives a binary, appends its own bytes and forwards.
fn t_pipeline(r: &mut Rng) -> Program {
    let n = 1 + r.usize(3);
    let mut stmts = vec![];
    let mut suffixes = vec![];
    // last stage first (it is captured by the previous one)
    for i in (0..n).rev() {
        let k = lit(r);
        if i == n - 1 {
            stmts.push(format!("s{i} = @{{ !#'bin =m, [m, {}] __binary_concat__ }}", hexlit(&k)));
        } else {
            stmts.push(format!("s{i} = @{{ !#'bin =m, [m, {}] __binary_concat__ s{}, !s{} }}", hexlit(&k), i + 1, i + 1));
        }
        suffixes.push(k);
    }
    suffixes.reverse();
    let x = lit(r);
    stmts.push(format!("{} s0", hexlit(&x)));
    stmts.push("!s0".to_string());
    let mut out = x;
    for s in suffixes {
        out.extend(s);
    }
    Program { family: "pipeline", lines: vec![stmts.join(", ")], expected: vec![Some(HV::Bin(out).canon())], confluent: true, must_reject: false }
}

/// T4: select with a filter (a function with a body, run per message) — the accepted message is
/// the first whose first byte matches; the rejected ones stay in the mailbox.
fn t_filter(r: &mut Rng) -> Program {
    let key = r.next() as u8;
    let n = 2 + r.usize(4);
    let hit = r.usize(n);
    let mut msgs = vec![];
    for i in 0..n {
        let mut m = lit(r);
        if i == hit {
            m[0] = key;
        } else if m[0] == key {
            m[0] = key.wrapping_add(1);
        }
        msgs.push(m);
    }
    let tail = lit(r);
    let mut stmts = vec![format!("k = {}", hexlit(&[key]))];
    stmts.push(format!("p = @{{ ! [#'bin {{ [~, 0, 1] __binary_slice__ =&k }}] =m, [m, {}] __binary_concat__ }}", hexlit(&tail)));
    for m in &msgs {
        stmts.push(format!("{} p", hexlit(m)));
    }
    stmts.push("!p".to_string());
    let mut out = msgs[hit].clone();
    out.extend(tail);
    Program { family: "select-filter", lines: vec![stmts.join(", ")], expected: vec![Some(HV::Bin(out).canon())], confluent: true, must_reject: false }
}

/// T5: two receive sources; the higher-priority one is type-only, the lower-priority one is a slow
/// filter (the F7 shape): a message for the first source arrives while the filter runs.
fn t_priority(r: &mut Rng) -> Program {
    let spin = 20 + r.usize(200);
    let a = lit(r);
    let tick = r.usize(4);
    let src = format!(
        "slow = #'int {{ | =0 => Ok | [~, 1] __integer_subtract__ ^ }}, p = @{{ ! [#'bin {{ Ok }}, #Str['bin] {{ {spin} slow }}] =first, !#Str['bin] =second, 7 }}, \"hello\" p, [! [{tick}]], {} p, \"world\" p, !p",
        hexlit(&a)
    );
    Program { family: "select-priority", lines: vec![src], expected: vec![Some("i7".to_string())], confluent: true, must_reject: false }
}

/// T6: a REPL session — several lines, bindings created, shadowed and dropped (local compaction
/// between lines, orphan release at result delivery), processes kept across lines.
fn t_repl(r: &mut Rng) -> Program {
    let mut env: HashMap<String, Vec<u8>> = HashMap::new();
    let mut lines = vec![];
    let mut expected = vec![];
    let n = 3 + r.usize(6);
    let mut have_proc = false;
    for _ in 0..n {
        match r.below(7) {
            0 | 1 => {
                let e = gen_be(r, &env, 0);
                let v = fresh(&env, r);
                let val = e.eval(&env);
                lines.push(format!("{v} = {}", e.src()));
                expected.push(Some(OK.to_string()));
                env.insert(v, val);
            }
            2 if !env.is_empty() => {
                // shadow
                let keys: Vec<String> = { let mut k: Vec<String> = env.keys().cloned().collect(); k.sort(); k };
                let v = r.pick(&keys).clone();
                let e = gen_be(r, &env, 0);
                let val = e.eval(&env);
                lines.push(format!("{v} = {}", e.src()));
                expected.push(Some(OK.to_string()));
                env.insert(v, val);
            }
            3 if !env.is_empty() => {
                // a line with temporaries that are orphaned at the end of the line
                let e1 = gen_be(r, &env, 0);
                let xv = e1.eval(&env);
                env.insert("tmp".into(), xv.clone());
                let e2 = gen_be(r, &env, 0);
                let y = e2.eval(&env);
                env.insert("tmq".into(), y.clone());
                lines.push(format!("tmp = {}, tmq = {}, [tmp, tmq] __binary_concat__", e1.src(), e2.src()));
                let mut x = xv;
                x.extend(y);
                expected.push(Some(HV::Bin(x).canon()));
            }
            4 if !env.is_empty() => {
                // a process capturing session bindings, awaited on a later line too
                let e = gen_be(r, &env, 1);
                let val = e.eval(&env);
                lines.push(format!("pr = @{{ {} }}", e.src()));
                expected.push(None);
                lines.push("!pr".to_string());
                expected.push(Some(HV::Bin(val.clone()).canon()));
                if r.chance(1, 2) {
                    lines.push("!pr, 1".to_string());
                    expected.push(Some("i1".to_string()));
                }
                have_proc = true;
            }
            5 if !env.is_empty() => {
                // a tuple binding, a projection, then the tuple binding is shadowed (dropped at
                // the next compaction)
                let keys: Vec<String> = { let mut k: Vec<String> = env.keys().cloned().collect(); k.sort(); k };
                let a = r.pick(&keys).clone();
                let e = gen_be(r, &env, 0);
                let val = e.eval(&env);
                lines.push(format!("tt = [{}, {a}]", e.src()));
                expected.push(Some(OK.to_string()));
                lines.push("tt.0".to_string());
                expected.push(Some(HV::Bin(val).canon()));
                lines.push("tt = 0".to_string());
                expected.push(Some(OK.to_string()));
            }
            _ => {
                if env.is_empty() {
                    continue;
                }
                let keys: Vec<String> = { let mut k: Vec<String> = env.keys().cloned().collect(); k.sort(); k };
                let a = r.pick(&keys).clone();
                let b = r.pick(&keys).clone();
                lines.push(format!("[{a}, {b}]"));
                expected.push(Some(HV::Tup(vec![HV::Bin(env[&a].clone()), HV::Bin(env[&b].clone())]).canon()));
            }
        }
    }
    let _ = have_proc;
    if lines.is_empty() {
        lines.push("0x01".into());
        expected.push(Some("b01".into()));
    }
    Program { family: "repl-session", lines, expected, confluent: true, must_reject: false }
}

/// T7: fan-in — several senders, one receiver that collects all messages (order-insensitive result:
/// the receiver returns the total length, the messages themselves stay/leave the mailbox).
fn t_fanin(r: &mut Rng) -> Program {
    let n = 2 + r.usize(3);
    let mut total = 0usize;
    let mut stmts = vec![];
    let recv: String = (0..n).map(|i| format!("!#'bin =m{i}")).collect::<Vec<_>>().join(", ");
    let sum = {
        // [[m0 len, m1 len] add, m2 len] add …
        let mut acc = "m0 __binary_length__".to_string();
        for i in 1..n {
            acc = format!("[{acc}, m{i} __binary_length__] __integer_add__");
        }
        acc
    };
    stmts.push(format!("col = @{{ {recv}, {sum} }}"));
    for i in 0..n {
        let m = lit(r);
        total += m.len();
        stmts.push(format!("w{i} = @{{ {} col, 0 }}", hexlit(&m)));
    }
    stmts.push("!col".to_string());
    Program { family: "fan-in", lines: vec![stmts.join(", ")], expected: vec![Some(HV::Int(total as i64).canon())], confluent: true, must_reject: false }
}

/// T8: a select that awaits a process with a timeout, and a later failure of the awaited process
/// (the F16 shape): `a`'s completed result must stay what it was.
fn t_late_failure(r: &mut Rng) -> Program {
    let x = lit(r);
    let y = lit(r);
    let mut xy = x.clone();
    xy.extend(y.clone());
    // `b` fails only after it got a message, which is sent after `a` has completed
    let lines = vec![
        "b = @{ [!#'int, 20000000 __binary_new__] }".to_string(),
        format!("a = @{{ [! [b, 3], [{}, {}] __binary_concat__] }}", hexlit(&x), hexlit(&y)),
        "!a".to_string(),
        "1 b".to_string(),
        "[! [20]]".to_string(),
        "!a".to_string(),
    ];
    let v = HV::Tup(vec![HV::Tup(vec![]), HV::Bin(xy)]).canon();
    Program { family: "late-failure", lines, expected: vec![None, None, Some(v.clone()), None, None, Some(v)], confluent: true, must_reject: false }
}

/// T10: a select that completes through ANOTHER source while a filter call on a heap-binary message
/// is in flight (timeout / awaited process / higher-priority type-only receive), after which the
/// message is taken out of the mailbox by a later receive and dropped when the process completes.
fn t_select_cross(r: &mut Rng) -> Program {
    let spin = 5 + r.usize(60);
    let a = lit(r);
    let b = lit(r);
    let c = lit(r);
    let slow = "slow = #'int { | =0 => Ok | [~, 1] __integer_subtract__ ^ }";
    let m1 = format!("[{}, {}] __binary_concat__", hexlit(&a), hexlit(&b));
    let m2 = format!("[{}, {}] __binary_concat__", hexlit(&c), hexlit(&a));
    let tail = "q = @{ 5 }, !q".to_string();
    match r.below(3) {
        0 => {
            // a timeout listed before the filter
            let t = 1 + r.usize(4);
            let src = format!(
                "{slow}, p = @{{ [! [{t}, #'bin {{ {spin} slow }}]], !#'bin =m, 7 }}, {m1} p, {m2} p, !p"
            );
            Program { family: "select-cross-timeout", lines: vec![src, tail], expected: vec![Some("i7".into()), Some("i5".into())], confluent: true, must_reject: false }
        }
        1 => {
            // an awaited process listed before the filter; it finishes while the filter runs
            let qspin = 1 + r.usize(40);
            let src = format!(
                "{slow}, w = @{{ [{qspin} slow], 1 }}, p = @{{ [! [w, #'bin {{ {spin} slow }}]], !#'bin =m, 7 }}, {m1} p, {m2} p, !p"
            );
            Program { family: "select-cross-await", lines: vec![src, tail], expected: vec![Some("i7".into()), Some("i5".into())], confluent: true, must_reject: false }
        }
        _ => {
            // a higher-priority type-only receive; its message arrives while the filter runs
            let d = r.usize(3);
            let src = format!(
                "{slow}, p = @{{ [! [#'int, #'bin {{ {spin} slow }}]], !#'bin =m, 7 }}, {m1} p, {m2} p, [! [{d}]], 3 p, !p"
            );
            Program { family: "select-cross-typeonly", lines: vec![src, tail], expected: vec![Some("i7".into()), Some("i5".into())], confluent: true, must_reject: false }
        }
    }
}

/// Probe: a tail call inside a tuple field used to abandon the fields built so far on the operand
/// stack (lead 3 of round 3); since /repo 9828b30 the front end rejects it ("Tail call inside a tuple
/// literal is not in tail position"). One fixed program; the check alarms only if it compiles again.
pub fn probe_tail_in_tuple() -> Program {
    let src = "g = #'int { | =0 => 0 | [[0x01, 0x02] __binary_concat__, [~, 1] __integer_subtract__ ^] }, p = @{ 7 g }, !p".to_string();
    Program { family: "probe-tail-in-tuple", lines: vec![src], expected: vec![None], confluent: true, must_reject: true }
}

/// T11: an ERROR EXIT with values on the operand stack: a tuple whose first field (a fresh heap
/// binary) is already built when the second field fails. The failed process keeps the operand
/// (and, built in a block with a binding, its locals) - the finished-process-keeps-operands part
/// of F17 that is still constructible from source.
fn t_error_exit(r: &mut Rng) -> Program {
    let a = lit(r);
    let b = lit(r);
    let c = lit(r);
    let src = if r.chance(1, 2) {
        format!("p = @{{ [[{}, {}] __binary_concat__, 20000000 __binary_new__] }}", hexlit(&a), hexlit(&b))
    } else {
        format!(
            "p = @{{ x = [{}, {}] __binary_concat__, [[x, {}] __binary_concat__, x, 20000000 __binary_new__] }}",
            hexlit(&a), hexlit(&b), hexlit(&c)
        )
    };
    Program {
        family: "error-exit-operands",
        lines: vec![src, "[! [2]]".to_string(), "q = @{ 5 }, !q".to_string()],
        expected: vec![Some(OK.to_string()), None, Some("i5".into())],
        confluent: true,
        must_reject: false,
    }
}

pub fn generate(r: &mut Rng) -> Program {
    match r.below(29) {
        28 => t_error_exit(r),
        24..=27 => t_select_cross(r),
        0..=2 => t_local(r),
        3..=6 => t_worker_local(r),
        7..=9 => t_spawn(r),
        10..=11 => t_pipeline(r),
        12..=13 => t_filter(r),
        14 => t_priority(r),
        15..=18 => t_repl(r),
        19..=20 => t_fanin(r),
        21..=22 => t_tail(r),
        _ => t_late_failure(r),
    }
}
