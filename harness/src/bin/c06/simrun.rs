//! Programs under the deterministic simulator (real `Environment` + `Worker`s), quantum 1..3 and
//! random schedules, with the C06 oracle evaluated on the stepped worker's executor after EVERY
//! worker step (the worker is then between time slices).
use crate::oracle::{self, Shadow};
use crate::progs::Program;
use qverif::sim::{Choice, Policy, Sim};
use qverif::Rng;
use quiver_environment::RequestResult;
use serde_json::json;
use std::collections::HashMap;

pub struct RunCfg {
    pub workers: usize,
    pub quantum: Option<usize>,
    pub policy: Policy,
    pub sched_seed: u64,
    pub max_steps: usize,
}

pub struct RunStats {
    /// F17 observation (first one of the run): not an abort, reported by the caller
    pub dead_roots: Option<String>,
    pub worker_steps: u64,
    pub slots_seen: u64,
    pub reuse_seen: u64,
    pub max_reachable: usize,
    pub lines_done: usize,
    pub outcomes: Vec<String>,
}

pub struct Failure {
    pub kind: String,
    pub detail: String,
    pub found: bool,
    pub replay: serde_json::Value,
}

struct Ctx {
    shadows: Vec<Shadow>,
    worker_steps: u64,
    dead_roots: Option<String>,
}

fn checked_step(sim: &mut Sim, cx: &mut Ctx, c: Choice) -> Result<(), (String, String)> {
    let wi = if let Choice::Worker { i, .. } = &c { Some(*i) } else { None };
    let nf = sim.faults.len();
    sim.step(c);
    if sim.faults.len() > nf {
        let (_, comp, msg) = sim.faults.last().unwrap().clone();
        let kind = if msg.contains("refcount invariant violated") {
            if msg.contains("reachable=false") { "leak" } else { "premature" }
        } else if msg.contains("use-after-free") {
            "use-after-free"
        } else if msg.contains("release underflow") {
            "release-underflow"
        } else {
            "fault"
        };
        return Err((kind.to_string(), format!("{comp}: {msg}")));
    }
    if let Some(i) = wi {
        cx.worker_steps += 1;
        let ex = sim.workers[i].verif_executor();
        oracle::check(ex, &mut cx.shadows[i])?;
        if cx.dead_roots.is_none() {
            cx.dead_roots = oracle::dead_roots(ex).map(|d| format!("worker {i}: {d}"));
        }
    }
    Ok(())
}

fn fair_round(sim: &mut Sim, cx: &mut Ctx) -> Result<(), (String, String)> {
    let n = sim.n_workers();
    checked_step(sim, cx, Choice::Env { visible: vec![usize::MAX; n] })?;
    for i in 0..n {
        checked_step(sim, cx, Choice::Worker { i, visible: usize::MAX })?;
    }
    Ok(())
}

fn process_types(sim: &mut Sim, cx: &mut Ctx) -> Result<HashMap<usize, (quiver_core::types::Type, usize)>, (String, String)> {
    let id = sim.env.request_process_types().map_err(|e| ("fault".to_string(), format!("request_process_types: {e:?}")))?;
    for _ in 0..1000 {
        fair_round(sim, cx)?;
        match sim.env.poll_request(id) {
            Ok(Some(RequestResult::ProcessTypes(t))) => return Ok(t),
            Ok(Some(_)) => return Err(("fault".into(), "unexpected result kind for process types".into())),
            Ok(None) => {}
            Err(e) => return Err(("fault".into(), format!("process types: {e:?}"))),
        }
    }
    Err(("fault".into(), "process types not answered".into()))
}

pub fn run(prog: &Program, cfg: &RunCfg) -> Result<RunStats, Failure> {
    let mut sim = Sim::new(cfg.workers, cfg.quantum, qverif::run::builtins(), false).with_repl(HashMap::new());
    let mut cx = Ctx { shadows: (0..cfg.workers).map(|_| Shadow::default()).collect(), worker_steps: 0, dead_roots: None };
    let mut r = Rng::for_case(cfg.sched_seed, 0);
    let mut outcomes = vec![];
    let mut lines_done = 0;
    let mk = |kind: &str, detail: String, found: bool, sim: &Sim, line: usize| {
        let sched = sim.render_schedule();
        let tail = sched[sched.len().saturating_sub(600)..].to_string();
        Failure {
        kind: kind.to_string(),
        detail: detail.clone(),
        found,
        replay: json!({
            "kind": "sim", "family": prog.family, "lines": prog.lines, "expected": prog.expected,
            "workers": cfg.workers, "quantum": cfg.quantum, "sched_seed": cfg.sched_seed,
            "policy": format!("{:?}", cfg.policy), "failed_at_line": line, "detail": detail,
            "schedule_len": sim.schedule.len(),
            "schedule_tail": tail,
        }),
        }
    };
    for (li, line) in prog.lines.iter().enumerate() {
        let types = match process_types(&mut sim, &mut cx) {
            Ok(t) => t,
            Err((k, d)) => return Err(mk(&k, d, true, &sim, li)),
        };
        let mut repl = sim.repl.take().expect("repl");
        let sub = repl.evaluate(&mut sim.env, line, types);
        sim.repl = Some(repl);
        if prog.must_reject && li == 0 && sub.is_ok() {
            return Err(mk("probe-compiles", format!("`{line}` was expected to be rejected by the front end but compiles"), false, &sim, li));
        }
        let req = match sub {
            Ok(Some(id)) => id,
            Ok(None) => {
                outcomes.push("nocode".into());
                continue;
            }
            Err(e) if prog.must_reject => {
                outcomes.push(format!("rejected-as-expected:{e:?}"));
                break;
            }
            Err(e) => {
                // the generator only emits accepted programs; a rejection is a generator bug
                outcomes.push(format!("rejected:{e:?}"));
                return Err(mk("generator-rejected", format!("line {li} rejected: {e:?}"), false, &sim, li));
            }
        };
        let mut result = None;
        let mut idle_streak = 0;
        let mut steps = 0;
        loop {
            if result.is_none() {
                result = sim.poll_result(req);
            }
            if result.is_some() {
                break;
            }
            if steps >= cfg.max_steps {
                break;
            }
            steps += 1;
            if sim.quiescent() {
                idle_streak += 1;
                if idle_streak > 2 * (cfg.workers + 1) {
                    break;
                }
                if let Err((k, d)) = fair_round(&mut sim, &mut cx) {
                    return Err(mk(&k, d, true, &sim, li));
                }
                continue;
            }
            idle_streak = 0;
            let c = sim.random_choice(&mut r, &cfg.policy);
            if let Err((k, d)) = checked_step(&mut sim, &mut cx, c) {
                return Err(mk(&k, d, true, &sim, li));
            }
        }
        let got = match result {
            Some(Ok((v, heap))) => format!("value:{}", sim.canon(&v, &heap)),
            Some(Err(e)) => format!("error:{}", qverif::canon::error_class(&e)),
            None => format!("hang:quiescent={}", sim.quiescent()),
        };
        if got == "hang:quiescent=false" {
            // step budget exhausted under a starving schedule: not a verdict about C06
            outcomes.push("budget-exhausted".into());
            break;
        }
        if let Some(exp) = &prog.expected[li] {
            let want = format!("value:{exp}");
            if got != want && prog.confluent {
                let kind = if got.starts_with("value:") { "wrong-bytes" } else if got.starts_with("hang") { "hang" } else { "unexpected-error" };
                return Err(mk(kind, format!("line {li} `{line}`: expected {want}, got {got}"), true, &sim, li));
            }
        }
        outcomes.push(got);
        lines_done += 1;
    }
    // drain: a few idle rounds, then reclamation must have caught up
    for _ in 0..4 {
        if let Err((k, d)) = fair_round(&mut sim, &mut cx) {
            return Err(mk(&k, d, true, &sim, prog.lines.len()));
        }
    }
    for i in 0..cfg.workers {
        let ex = sim.workers[i].verif_executor();
        let v = ex.verif_heap_view();
        if !v.pending_free.is_empty() && sim.idle() {
            return Err(mk("pending-not-drained", format!("worker {i}: pending_free {:?} after idle steps", v.pending_free), true, &sim, prog.lines.len()));
        }
        let st = oracle::stranded(ex);
        if !st.is_empty() {
            return Err(mk(
                "stranded",
                format!("worker {i}: slots {:?} are unreachable, not freed and not queued (bytes {:?})", st, st.iter().map(|j| qverif::hex(&v.bytes[*j])).collect::<Vec<_>>()),
                true,
                &sim,
                prog.lines.len(),
            ));
        }
    }
    Ok(RunStats {
        dead_roots: cx.dead_roots.clone(),
        worker_steps: cx.worker_steps,
        slots_seen: cx.shadows.iter().map(|s| s.slots_seen).sum(),
        reuse_seen: cx.shadows.iter().map(|s| s.reuse_seen).sum(),
        max_reachable: cx.shadows.iter().map(|s| s.max_reachable).max().unwrap_or(0),
        lines_done,
        outcomes,
    })
}
