//! Lock-step correspondence M-Heap <-> real `Executor`: hand-made bytecode driven one instruction
//! per `step` (quantum override 1) through the public API, interleaved with notifications and REPL
//! compaction calls; after every step the canonical heap view of the implementation
//! (`verif_heap_view` + `reachable_heap_indices`) must equal the model's.
use crate::oracle;
#[allow(unused_imports)]
use crate::oracle::NotifyPendingFallback;
use num_bigint::BigInt;
use qverif::run::{Builtins, Exec};
use qverif::{Ev, Model, Rng};
use quiver_core::bytecode::{ConcreteType, Constant, Function, Instruction};
use quiver_core::executor::ProgramUpdate;
use quiver_core::types::{BuiltinInfo, TupleTypeInfo};
use quiver_core::value::{Binary, Value};
use serde_json::json;
use std::collections::HashSet;

const BUILTIN_NAMES: [&str; 4] = ["binary_concat", "binary_slice", "binary_length", "binary_new"];

#[derive(Clone, Debug, PartialEq)]
enum K {
    Int,
    Bin,
    Tup(Vec<K>),
    Fn(usize),
    Proc,
    Any,
}

pub struct Prog {
    pub constants: Vec<Constant>,
    pub functions: Vec<Function>,
    /// arity of tuple ids (0 = NIL, 1 = OK)
    pub arities: Vec<usize>,
    pub type_compat: Vec<HashSet<ConcreteType>>,
}

fn gen_constants(r: &mut Rng) -> Vec<Constant> {
    let mut v = vec![];
    for _ in 0..3 {
        v.push(Constant::Integer(BigInt::from(r.range(-3, 40))));
    }
    for _ in 0..5 {
        let n = *r.pick(&[0usize, 1, 2, 3, 5, 8]);
        v.push(Constant::Binary(r.bytes(n)));
    }
    v
}

/// Generate one function body with kind tracking. `params`: kind of the parameter on the stack,
/// `ncaps`: captures already in locals.
fn gen_body(r: &mut Rng, p: &Prog, fidx: usize, param: K, ncaps: usize, len: usize, nfuncs: usize) -> Vec<Instruction> {
    let mut st: Vec<K> = vec![param];
    let mut locals = ncaps;
    let mut out = vec![];
    let ints: Vec<usize> = (0..p.constants.len()).filter(|i| matches!(p.constants[*i], Constant::Integer(_))).collect();
    let bins: Vec<usize> = (0..p.constants.len()).filter(|i| matches!(p.constants[*i], Constant::Binary(_))).collect();
    while out.len() < len {
        // occasionally an arbitrary instruction (error paths, partial effects)
        if r.chance(1, 40) {
            let i = match r.below(10) {
                0 => Instruction::Pop,
                1 => Instruction::Get(r.usize(3)),
                2 => Instruction::Tuple(r.usize(p.arities.len() + 1)),
                3 => Instruction::Load(r.usize(6)),
                4 => Instruction::Call,
                5 => Instruction::Equal(1 + r.usize(3)),
                6 => Instruction::Constant(r.usize(p.constants.len() + 2)),
                7 => Instruction::Function(r.usize(nfuncs + 1)),
                8 => Instruction::Reset(r.usize(4)),
                _ => Instruction::TailCall(false),
            };
            out.push(i);
            // after an arbitrary instruction the abstract stack is unreliable
            st = st.iter().map(|_| K::Any).collect();
            if st.is_empty() {
                st.push(K::Any);
            }
            continue;
        }
        let top = st.last().cloned();
        let choice = r.below(33);
        match choice {
            0..=2 => {
                out.push(Instruction::Constant(*r.pick(&ints)));
                st.push(K::Int);
            }
            3..=8 => {
                out.push(Instruction::Constant(*r.pick(&bins)));
                st.push(K::Bin);
            }
            9 if st.len() > 1 => {
                out.push(Instruction::Pop);
                st.pop();
            }
            10 if !st.is_empty() => {
                out.push(Instruction::Duplicate);
                st.push(top.unwrap());
            }
            11 if !st.is_empty() => {
                out.push(Instruction::Store);
                st.pop();
                locals += 1;
            }
            12 | 13 if locals > 0 => {
                out.push(Instruction::Load(r.usize(locals)));
                st.push(K::Any);
            }
            14 if !st.is_empty() => {
                let n = r.usize(st.len());
                out.push(Instruction::Pick(n));
                st.push(st[st.len() - 1 - n].clone());
            }
            15 if st.len() >= 2 => {
                let n = 1 + r.usize(st.len());
                out.push(Instruction::Rotate(n));
                let l = st.len();
                let it = st.remove(l - n);
                st.push(it);
            }
            16 | 17 => {
                // tuple of arity <= stack
                let cands: Vec<usize> = (2..p.arities.len()).filter(|t| p.arities[*t] <= st.len() && p.arities[*t] > 0).collect();
                if let Some(t) = cands.get(r.usize(cands.len().max(1))) {
                    let a = p.arities[*t];
                    let fs: Vec<K> = st.split_off(st.len() - a);
                    out.push(Instruction::Tuple(*t));
                    st.push(K::Tup(fs));
                }
            }
            18 | 19 => {
                if let Some(K::Tup(fs)) = &top
                    && !fs.is_empty()
                {
                    let i = r.usize(fs.len());
                    let k = fs[i].clone();
                    out.push(Instruction::Get(i));
                    st.pop();
                    st.push(k);
                }
            }
            20 if !st.is_empty() => {
                match r.below(3) {
                    0 => {
                        out.push(Instruction::Not);
                        st.pop();
                        st.push(K::Tup(vec![]));
                    }
                    1 => {
                        out.push(Instruction::IsType(r.usize(p.type_compat.len())));
                        st.pop();
                        st.push(K::Tup(vec![]));
                    }
                    _ => {
                        if st.len() > 1 {
                            out.push(Instruction::JumpIf(0));
                            st.pop();
                        }
                    }
                }
            }
            21 if !st.is_empty() => {
                let n = 1 + r.usize(st.len().min(3));
                out.push(Instruction::Equal(n));
                let l = st.len();
                st.truncate(l - n);
                st.push(K::Any);
            }
            22 => {
                // closure creation
                let fi = r.usize(nfuncs);
                let caps = p.functions.get(fi).map(|f| f.captures).unwrap_or(0);
                if fi != fidx && caps <= st.len().saturating_sub(1) {
                    let l = st.len();
                    st.truncate(l - caps);
                    out.push(Instruction::Function(fi));
                    st.push(K::Fn(fi));
                }
            }
            23 => {
                // call a closure on the stack: need [param, fn]
                if let Some(K::Fn(fi)) = &top
                    && st.len() >= 2
                    && *fi > fidx
                {
                    out.push(Instruction::Call);
                    st.pop();
                    st.pop();
                    st.push(K::Any);
                }
            }
            24 | 25 => {
                // builtin macro: build the argument, push the builtin, call
                match r.below(4) {
                    0 => {
                        // concat of two binaries (constants or the top binary)
                        if top == Some(K::Bin) && r.chance(1, 2) {
                            out.push(Instruction::Duplicate);
                        } else {
                            out.push(Instruction::Constant(*r.pick(&bins)));
                        }
                        out.push(Instruction::Constant(*r.pick(&bins)));
                        out.push(Instruction::Tuple(2));
                        out.push(Instruction::Builtin(0));
                        out.push(Instruction::Call);
                        st.push(K::Bin);
                    }
                    1 => {
                        out.push(Instruction::Constant(*r.pick(&bins)));
                        out.push(Instruction::Constant(ints[0]));
                        out.push(Instruction::Constant(*r.pick(&ints)));
                        out.push(Instruction::Tuple(3));
                        out.push(Instruction::Builtin(1));
                        out.push(Instruction::Call);
                        st.push(K::Bin);
                    }
                    2 => {
                        if top == Some(K::Bin) {
                            out.push(Instruction::Builtin(2));
                            out.push(Instruction::Call);
                            st.pop();
                            st.push(K::Int);
                        }
                    }
                    _ => {
                        out.push(Instruction::Constant(*r.pick(&ints)));
                        out.push(Instruction::Builtin(3));
                        out.push(Instruction::Call);
                        st.push(K::Bin);
                    }
                }
            }
            26 => {
                if locals > ncaps && r.chance(1, 2) {
                    let keep = ncaps + r.usize(locals - ncaps + 1);
                    out.push(Instruction::Reset(keep));
                    locals = keep;
                }
            }
            27 => match r.below(3) {
                0 => {
                    out.push(Instruction::Self_);
                    st.push(K::Proc);
                }
                1 => {
                    out.push(Instruction::Process(90 + r.usize(3), 0));
                    st.push(K::Proc);
                }
                _ => {
                    if top == Some(K::Proc) && st.len() >= 2 {
                        out.push(Instruction::Send);
                        let l = st.len();
                        st.remove(l - 2);
                    }
                }
            },
            28 => {
                if let Some(K::Fn(_)) = &top
                    && st.len() >= 2
                    && r.chance(1, 2)
                {
                    out.push(Instruction::Spawn);
                    st.pop();
                    st.pop();
                    st.push(K::Proc);
                }
            }
            29 => {
                // tail call into a later function (no loops); make sure the frame's locals hold
                // heap binaries at that moment
                if fidx + 1 < nfuncs && r.chance(1, 2) {
                    let fi = fidx + 1 + r.usize(nfuncs - fidx - 1);
                    let caps = p.functions[fi].captures;
                    out.push(Instruction::Constant(*r.pick(&bins)));
                    out.push(Instruction::Store);
                    out.push(Instruction::Constant(*r.pick(&bins)));
                    out.push(Instruction::Constant(*r.pick(&bins)));
                    out.push(Instruction::Tuple(2));
                    out.push(Instruction::Store);
                    out.push(Instruction::Constant(*r.pick(&bins)));
                    for _ in 0..caps {
                        out.push(Instruction::Constant(*r.pick(&bins)));
                    }
                    out.push(Instruction::Function(fi));
                    out.push(Instruction::TailCall(false));
                    return out;
                }
            }
            30..=32 => {
                // select macro: sources, optional tuple, Select
                let k = 1 + r.usize(3);
                for _ in 0..k {
                    match r.below(6) {
                        0 | 1 | 2 => {
                            let f = RECV_BASE + r.usize(6);
                            if f == 8 {
                                out.push(Instruction::Constant(*r.pick(&bins)));
                            }
                            out.push(Instruction::Function(f));
                        }
                        3 => out.push(Instruction::Constant(*r.pick(&ints))),
                        _ => out.push(Instruction::Process(*r.pick(&[1usize, 2, 2, 60]), 1)),
                    }
                }
                if k > 1 || r.chance(1, 2) {
                    out.push(Instruction::Tuple(match k { 1 => 4, 2 => 2, _ => 3 }));
                }
                out.push(Instruction::Select);
                st.push(K::Any);
            }
            _ => {}
        }
    }
    out
}

/// ids of the receive functions appended after the ordinary ones
const RECV_BASE: usize = 4;

fn gen_prog(r: &mut Rng) -> Prog {
    let nfuncs = 4;
    let mut p = Prog {
        constants: gen_constants(r),
        functions: vec![],
        arities: vec![0, 0, 2, 3, 1, 4],
        type_compat: vec![
            [ConcreteType::Integer].into_iter().collect(),
            [ConcreteType::Binary].into_iter().collect(),
            (0..6).map(ConcreteType::Tuple).collect(),
            HashSet::new(),
        ],
    };
    // captures of the helpers are fixed first so that bodies can refer to later functions
    let caps = [0usize, r.usize(3), r.usize(2), 0];
    for (i, c) in caps.iter().enumerate().take(nfuncs) {
        p.functions.push(Function { instructions: vec![], captures: *c, type_id: i });
    }
    for i in (0..nfuncs).rev() {
        let len = if i == 0 { 30 + r.usize(50) } else { r.usize(9) };
        let body = gen_body(r, &p, i, if i == 0 { K::Tup(vec![]) } else { K::Any }, caps[i], len, nfuncs);
        p.functions[i].instructions = body;
    }
    // receive functions: 4 = type-only (no body, binaries), 5 = always accepts (binaries, tuples),
    // 6 = `Not` (rejects every non-nil message), 7 = accepts binaries (`IsType(1)`), 8 = closure
    // over a binary whose verdict is the captured binary, 9 = always accepts, binaries only
    let int0 = (0..p.constants.len()).find(|i| matches!(p.constants[*i], Constant::Integer(_))).unwrap();
    p.functions.push(Function { instructions: vec![], captures: 0, type_id: 4 });
    p.functions.push(Function { instructions: vec![Instruction::Pop, Instruction::Constant(int0)], captures: 0, type_id: 5 });
    p.functions.push(Function { instructions: vec![Instruction::Not], captures: 0, type_id: 6 });
    p.functions.push(Function { instructions: vec![Instruction::IsType(1)], captures: 0, type_id: 7 });
    p.functions.push(Function { instructions: vec![Instruction::Pop, Instruction::Load(0)], captures: 1, type_id: 8 });
    p.functions.push(Function { instructions: vec![Instruction::Pop, Instruction::Constant(int0)], captures: 0, type_id: 9 });
    p
}

/// `function_param_compatibility` and its rendering for the model
fn param_compat(p: &Prog) -> (Vec<HashSet<ConcreteType>>, String) {
    let mut all: HashSet<ConcreteType> = HashSet::new();
    all.insert(ConcreteType::Integer);
    all.insert(ConcreteType::Binary);
    all.insert(ConcreteType::Reference);
    for t in 0..p.arities.len() {
        all.insert(ConcreteType::Tuple(t));
    }
    for f in 0..p.functions.len() {
        all.insert(ConcreteType::Function(f));
        all.insert(ConcreteType::Process(f));
    }
    for b in 0..BUILTIN_NAMES.len() {
        all.insert(ConcreteType::Builtin(b));
    }
    let mut v = vec![];
    let mut s = vec![];
    let mut bt: HashSet<ConcreteType> = (0..p.arities.len()).map(ConcreteType::Tuple).collect();
    bt.insert(ConcreteType::Binary);
    let mut bti = bt.clone();
    bti.insert(ConcreteType::Integer);
    for f in 0..p.functions.len() {
        let (set, txt) = match f {
            4 | 9 => ([ConcreteType::Binary].into_iter().collect(), "bin"),
            5 => (bt.clone(), "bin tuple"),
            8 => (bti.clone(), "bin tuple int"),
            _ => (all.clone(), "int bin tuple func builtin proc ref"),
        };
        v.push(set);
        s.push(format!("({f} {txt})"));
    }
    let empty: Vec<String> = (0..p.functions.len()).filter(|f| p.functions[*f].instructions.is_empty()).map(|f| f.to_string()).collect();
    (v, format!("(receivers (fcompat {}) (empty {}))", s.join(" "), empty.join(" ")))
}

fn mk_update(p: &Prog) -> ProgramUpdate {
    ProgramUpdate {
        constants: p.constants.clone(),
        functions: p.functions.clone(),
        tuples: p.arities[2..].iter().map(|a| TupleTypeInfo { name: None, fields: (0..*a).map(|_| (None, 0)).collect() }).collect(),
        types: vec![],
        builtins: BUILTIN_NAMES.iter().map(|n| BuiltinInfo { name: n.to_string(), param_type: 0, result_type: 0 }).collect(),
        resources: vec![],
        type_compatibility: p.type_compat.clone(),
        function_param_compatibility: param_compat(p).0,
        builtin_param_compatibility: vec![],
        canonical_tuples: (0..p.arities.len()).collect(),
    }
}

fn concrete(v: &Value) -> ConcreteType {
    match v {
        Value::Integer(_) => ConcreteType::Integer,
        Value::Binary(_) => ConcreteType::Binary,
        Value::Reference(_) => ConcreteType::Reference,
        Value::Tuple(t, _) => ConcreteType::Tuple(*t),
        Value::Function(f, _) => ConcreteType::Function(*f),
        Value::Builtin(b) => ConcreteType::Builtin(*b),
        Value::Process(_, f) => ConcreteType::Process(*f),
        Value::Resource(_, t) => ConcreteType::Resource(*t),
    }
}

fn hexa(b: &[u8]) -> String {
    if b.is_empty() { "-".to_string() } else { qverif::hex(b) }
}

fn render_instr(i: &Instruction, p: &Prog, frame_counter: usize, stack_top: Option<&Value>, started_with: Option<usize>, now: u64) -> String {
    match i {
        Instruction::Constant(k) => match p.constants.get(*k) {
            Some(Constant::Integer(z)) => format!("(const-int {k} {z})"),
            Some(Constant::Binary(b)) => format!("(const-bin {k} {})", hexa(b)),
            None => format!("(const-undef {k})"),
        },
        Instruction::Pop => "pop".into(),
        Instruction::Duplicate => "dup".into(),
        Instruction::Pick(n) => format!("(pick {n})"),
        Instruction::Rotate(n) => format!("(rotate {n})"),
        Instruction::Reset(n) => format!("(reset {n})"),
        Instruction::Load(n) => format!("(load {n})"),
        Instruction::Store => "store".into(),
        Instruction::Tuple(t) => match p.arities.get(*t) {
            Some(a) => format!("(tuple {t} {a})"),
            None => format!("(tuple {t} none)"),
        },
        Instruction::Get(n) => format!("(get {n})"),
        Instruction::IsType(t) => {
            let flag = match stack_top {
                Some(v) => p.type_compat.get(*t).map(|s| s.contains(&concrete(v))).unwrap_or(false),
                None => false,
            };
            format!("(istype {t} {})", if flag { 1 } else { 0 })
        }
        Instruction::Jump(o) => format!("(jump {})", (frame_counter as isize + o + 1) as usize),
        Instruction::JumpIf(o) => format!("(jumpif {})", (frame_counter as isize + o + 1) as usize),
        Instruction::Call => "call".into(),
        Instruction::TailCall(b) => format!("(tailcall {})", if *b { 1 } else { 0 }),
        Instruction::Function(f) => match p.functions.get(*f) {
            Some(func) => format!("(function {f} {})", func.captures),
            None => format!("(function {f} none)"),
        },
        Instruction::Builtin(b) => format!("(builtin {b} {})", if *b < BUILTIN_NAMES.len() { 1 } else { 0 }),
        Instruction::Equal(n) => format!("(equal {n})"),
        Instruction::Not => "not".into(),
        Instruction::Spawn => "spawn".into(),
        Instruction::Send => "send".into(),
        Instruction::Self_ => match started_with {
            Some(f) => format!("(self {f})"),
            None => "(self none)".into(),
        },
        Instruction::Select => format!("(select {now})"),
        Instruction::Process(a, b) => format!("(procref {a} {b})"),
    }
}

/// a value whose heap binaries index the accompanying heap list, in the model's syntax
fn render_transfer(v: &Value) -> String {
    match v {
        Value::Integer(z) => format!("(i {z})"),
        Value::Binary(Binary::Heap(j)) => format!("(h {j})"),
        Value::Binary(Binary::Constant(k)) => format!("(c {k})"),
        Value::Reference(r) => format!("(r {r})"),
        Value::Tuple(id, fs) => format!("(t {id}{})", fs.iter().map(|f| format!(" {}", render_transfer(f))).collect::<String>()),
        Value::Function(id, fs) => format!("(f {id}{})", fs.iter().map(|f| format!(" {}", render_transfer(f))).collect::<String>()),
        Value::Builtin(k) => format!("(bi {k})"),
        Value::Process(a, b) => format!("(p {a} {b})"),
        Value::Resource(a, b) => format!("(res {a} {b})"),
    }
}

fn instr_name(i: &Instruction) -> &'static str {
    match i {
        Instruction::Constant(_) => "Constant",
        Instruction::Pop => "Pop",
        Instruction::Duplicate => "Duplicate",
        Instruction::Pick(_) => "Pick",
        Instruction::Rotate(_) => "Rotate",
        Instruction::Reset(_) => "Reset",
        Instruction::Load(_) => "Load",
        Instruction::Store => "Store",
        Instruction::Tuple(_) => "Tuple",
        Instruction::Get(_) => "Get",
        Instruction::IsType(_) => "IsType",
        Instruction::Jump(_) => "Jump",
        Instruction::JumpIf(_) => "JumpIf",
        Instruction::Call => "Call",
        Instruction::TailCall(_) => "TailCall",
        Instruction::Function(_) => "Function",
        Instruction::Builtin(_) => "Builtin",
        Instruction::Equal(_) => "Equal",
        Instruction::Not => "Not",
        Instruction::Spawn => "Spawn",
        Instruction::Send => "Send",
        Instruction::Self_ => "Self",
        Instruction::Select => "Select",
        Instruction::Process(_, _) => "Process",
    }
}

/// A random value whose heap binaries are indices into the accompanying heap list.
fn gen_transfer(r: &mut Rng) -> (Value, String, Vec<Vec<u8>>) {
    let nheap = r.usize(3);
    let heap: Vec<Vec<u8>> = (0..nheap).map(|_| { let n = r.usize(5); r.bytes(n) }).collect();
    fn go(r: &mut Rng, nheap: usize, depth: usize) -> (Value, String) {
        match r.below(if depth > 1 { 3 } else { 5 }) {
            0 => {
                let z = r.range(-5, 50);
                (Value::Integer(BigInt::from(z)), format!("(i {z})"))
            }
            1 | 2 if nheap > 0 => {
                let k = r.usize(nheap);
                (Value::Binary(Binary::Heap(k)), format!("(h {k})"))
            }
            1 | 2 => (Value::nil(), "(t 0)".to_string()),
            _ => {
                let n = 1 + r.usize(3);
                let tid = match n { 1 => 4, 2 => 2, _ => 3 };
                let mut vs = vec![];
                let mut ss = vec![];
                for _ in 0..n {
                    let (v, s) = go(r, nheap, depth + 1);
                    vs.push(v);
                    ss.push(s);
                }
                (Value::tuple(tid, vs), format!("(t {tid} {})", ss.join(" ")))
            }
        }
    }
    let (v, s) = go(r, nheap, 0);
    // only ship heap entries the value mentions? `extract_heap_data` does; a hand-made message may
    // carry unreferenced entries too (they become stranded allocations) — keep both kinds.
    (v, s, heap)
}

fn heap_sx(h: &[Vec<u8>]) -> String {
    format!("({})", h.iter().map(|b| hexa(b)).collect::<Vec<_>>().join(" "))
}

fn model_view(ans: &str) -> (&str, &str) {
    // "<outcome> | view=(..) free= pending= size= check= transit= fresh= [frames=..]"
    let (out, rest) = ans.split_once(" | ").unwrap_or((ans, ""));
    let core_end = rest.find(" check=").unwrap_or(rest.len());
    (out, &rest[..core_end])
}

fn field(ans: &str, key: &str) -> Option<usize> {
    let k = format!(" {key}=");
    let i = ans.find(&k)?;
    let tail = &ans[i + k.len()..];
    let end = tail.find(' ').unwrap_or(tail.len());
    tail[..end].parse().ok()
}

/// Run one generated program in lock step. Returns Err(description) on the first disagreement or
/// oracle failure, with the request trace for replay.
pub fn run_case(r: &mut Rng, b: &Builtins, model: &mut Model, ev: &mut Ev, case: u64) -> Result<u64, (String, String, serde_json::Value, bool)> {
    let p = gen_prog(r);
    let mut ex = Exec::new(b.clone(), false, 0);
    ex.update_program(mk_update(&p));
    quiver_core::executor::verif::set_quantum_override(Some(1));
    let mut trace: Vec<String> = vec![];
    let ask = |m: &mut Model, t: &mut Vec<String>, line: String| -> String {
        let a = m.ask(&line);
        t.push(line);
        a
    };
    ask(model, &mut trace, format!("(config dead-roots {})", if oracle::dead_roots_repaired() { 1 } else { 0 }));
    let select_waits = oracle::select_waits();
    ask(model, &mut trace, format!("(config select-waits {})", if select_waits { 1 } else { 0 }));
    ask(model, &mut trace, "(init)".into());
    ask(model, &mut trace, format!("(program (canon {}) (builtins {}))", (0..p.arities.len()).map(|x| x.to_string()).collect::<Vec<_>>().join(" "), BUILTIN_NAMES.join(" ")));
    ask(model, &mut trace, param_compat(&p).1);
    let persistent = r.chance(1, 4);
    let mut now: u64 = 0;
    let _ = ex.spawn_process(0, Some(0), vec![], Value::nil(), vec![], persistent);
    ask(model, &mut trace, format!("(spawn-process 0 0 () (t 0) () {})", if persistent { 1 } else { 0 }));
    let mut shadow = oracle::Shadow::default();
    let mut steps = 0u64;
    let mut next_pid = 1usize;
    let mut nontrivial = false;
    let mut deferred: Vec<(usize, usize)> = vec![];
    let fail = |what: &str, detail: String, trace: &Vec<String>, found: bool| {
        (
            what.to_string(),
            detail.clone(),
            json!({"kind": "lockstep", "case": case, "broken": "correspondence model<->impl (M-Heap instruction layer)", "detail": detail, "model_requests": trace}),
            found,
        )
    };
    for _ in 0..400 {
        // a deferred "not finished yet" answer arrives
        if !deferred.is_empty() && r.chance(1, 4) {
            let (caller, t) = deferred.remove(0);
            ex.notify_pending(caller, t);
            if select_waits {
                ask(model, &mut trace, format!("(notify-pending {caller} {t})"));
            }
            ex.wake_selecting(caller);
            ev.hit("event:late-pending-answer");
        }
        // a binary message for a process whose filter call is in flight (the F7 window)
        {
            let mid: Vec<usize> = (0..next_pid)
                .filter(|q| ex.get_process(*q).and_then(|p| p.select_state.as_ref().map(|s| s.receiving.is_some())).unwrap_or(false))
                .collect();
            if !mid.is_empty() && r.chance(1, 3) {
                let target = *r.pick(&mid);
                let n = 1 + r.usize(3);
                let bytes = r.bytes(n);
                let _ = ex.notify_message(target, Value::Binary(Binary::Heap(0)), vec![bytes.clone()]);
                let a = ask(model, &mut trace, format!("(notify-message {target} (h 0) ({}))", hexa(&bytes)));
                ev.hit("event:message-during-filter");
                let (_, mv) = model_view(&a);
                let iv = oracle::canon_view(&ex);
                if mv != iv {
                    return Err(fail("lockstep op=notify_message kind=view", format!("model {mv} impl {iv}"), &trace, false));
                }
            }
        }
        // the REPL cycle: a finished persistent process is resumed with another function
        if persistent
            && r.chance(1, 3)
            && ex.get_process(0).map(|p| matches!(p.result, Some(Ok(_))) && p.frames.is_empty()).unwrap_or(false)
            && !ex.verif_queue().contains(&0)
        {
            let fi = 1 + r.usize(3);
            if p.functions[fi].captures == 0 {
                // what `Worker::resume_process` does
                let pr = ex.get_process_mut(0).unwrap();
                let v = pr.result.take().unwrap().unwrap();
                pr.stack.push(v);
                pr.frames.push(quiver_core::process::Frame::new(fi, 0, 0));
                ex.set_process_function_index(0, fi);
                ex.add_to_queue(0);
                let a = ask(model, &mut trace, format!("(resume 0 {fi})"));
                ev.hit("event:resume_process");
                let (_, mv) = model_view(&a);
                let iv = oracle::canon_view(&ex);
                if mv != iv {
                    return Err(fail("lockstep op=resume_process kind=view", format!("model {mv} impl {iv}"), &trace, false));
                }
            }
        }
        // external events between slices
        if r.chance(1, 12) {
            match r.below(6) {
                4 => {
                    // a result for (awaiter, awaited) — stored only if the awaiter's select still
                    // awaits the target
                    let (v, s, heap) = gen_transfer(r);
                    let awaiter = r.usize(next_pid);
                    let awaited = *r.pick(&[1usize, 2, 60]);
                    let _ = ex.notify_result(awaiter, awaited, v, heap.clone());
                    let a = ask(model, &mut trace, format!("(notify-result {awaiter} {awaited} {s} {})", heap_sx(&heap)));
                    ev.hit("event:notify_result");
                    let (_, mv) = model_view(&a);
                    let iv = oracle::canon_view(&ex);
                    if mv != iv {
                        return Err(fail("lockstep op=notify_result kind=view", format!("model {mv} impl {iv}"), &trace, false));
                    }
                    if let Err((kind, detail)) = oracle::check(&ex, &mut shadow) {
                        return Err(fail(&format!("oracle kind={kind} path=lockstep"), detail, &trace, true));
                    }
                }
                5 => {
                    let awaiter = r.usize(next_pid);
                    let awaited = *r.pick(&[1usize, 2, 60]);
                    ex.notify_failure(awaiter, awaited, quiver_core::Error::TupleEmpty);
                    ask(model, &mut trace, format!("(notify-failure {awaiter} {awaited})"));
                    ev.hit("event:notify_failure");
                }
                0 => {
                    let (v, s, heap) = gen_transfer(r);
                    let target = r.usize(next_pid);
                    let _ = ex.notify_message(target, v, heap.clone());
                    let a = ask(model, &mut trace, format!("(notify-message {target} {s} {})", heap_sx(&heap)));
                    ev.hit("event:notify_message");
                    let (_, mv) = model_view(&a);
                    let iv = oracle::canon_view(&ex);
                    if mv != iv {
                        return Err(fail("lockstep op=notify_message kind=view", format!("model {mv} impl {iv}"), &trace, false));
                    }
                    if let Err((kind, detail)) = oracle::check(&ex, &mut shadow) {
                        return Err(fail(&format!("oracle kind={kind} path=lockstep"), detail, &trace, true));
                    }
                }
                1 => {
                    // compaction of the locals of process 0 (keep a random subset, in order)
                    let n = ex.get_process(0).map(|p| p.locals.len()).unwrap_or(0);
                    let keep: Vec<usize> = (0..n).filter(|_| r.chance(2, 3)).collect();
                    let new_locals: Vec<Value> = keep.iter().map(|i| ex.get_process(0).unwrap().locals[*i].clone()).collect();
                    ex.replace_locals(0, new_locals);
                    let a = ask(model, &mut trace, format!("(compact 0 ({}))", keep.iter().map(|x| x.to_string()).collect::<Vec<_>>().join(" ")));
                    ev.hit("event:replace_locals");
                    let (_, mv) = model_view(&a);
                    let iv = oracle::canon_view(&ex);
                    if mv != iv {
                        return Err(fail("lockstep op=replace_locals kind=view", format!("model {mv} impl {iv}"), &trace, false));
                    }
                    if let Err((kind, detail)) = oracle::check(&ex, &mut shadow) {
                        return Err(fail(&format!("oracle kind={kind} path=lockstep"), detail, &trace, true));
                    }
                }
                2 => {
                    let n = ex.get_process(0).map(|p| p.locals.len()).unwrap_or(0);
                    let keep: Vec<usize> = (0..n + 1).filter(|_| r.chance(1, 2)).collect();
                    ex.release_orphan_locals(0, &keep);
                    let a = ask(model, &mut trace, format!("(orphans 0 ({}))", keep.iter().map(|x| x.to_string()).collect::<Vec<_>>().join(" ")));
                    ev.hit("event:release_orphan_locals");
                    let (_, mv) = model_view(&a);
                    let iv = oracle::canon_view(&ex);
                    if mv != iv {
                        return Err(fail("lockstep op=release_orphan_locals kind=view", format!("model {mv} impl {iv}"), &trace, false));
                    }
                    if let Err((kind, detail)) = oracle::check(&ex, &mut shadow) {
                        return Err(fail(&format!("oracle kind={kind} path=lockstep"), detail, &trace, true));
                    }
                }
                _ => {
                    // a second process created with captures + argument + heap data
                    if next_pid < 3 {
                        let fi = 1 + r.usize(3);
                        let ncap = p.functions[fi].captures;
                        let heap: Vec<Vec<u8>> = (0..3).map(|_| { let n = 1 + r.usize(3); r.bytes(n) }).collect();
                        let mut caps = vec![];
                        let mut caps_s = vec![];
                        for _ in 0..ncap {
                            let k = r.usize(3);
                            caps.push(Value::Binary(Binary::Heap(k)));
                            caps_s.push(format!("(h {k})"));
                        }
                        let k = r.usize(3);
                        let arg = Value::tuple(4, vec![Value::Binary(Binary::Heap(k))]);
                        let pid = next_pid;
                        next_pid += 1;
                        let _ = ex.spawn_process(pid, Some(fi), caps, arg, heap.clone(), false);
                        let a = ask(model, &mut trace, format!("(spawn-process {pid} {fi} ({}) (t 4 (h {k})) {} 0)", caps_s.join(" "), heap_sx(&heap)));
                        ev.hit("event:spawn_process");
                        let (_, mv) = model_view(&a);
                        let iv = oracle::canon_view(&ex);
                        if mv != iv {
                            return Err(fail("lockstep op=spawn_process kind=view", format!("model {mv} impl {iv}"), &trace, false));
                        }
                        if let Err((kind, detail)) = oracle::check(&ex, &mut shadow) {
                            return Err(fail(&format!("oracle kind={kind} path=lockstep"), detail, &trace, true));
                        }
                    }
                }
            }
        }
        let q = ex.verif_queue();
        let Some(&pid) = q.first() else { break };
        let (instr, counter, top) = {
            let pr = ex.get_process(pid).unwrap();
            match pr.frames.last() {
                Some(f) => (p.functions[f.function_index].instructions.get(f.counter).copied(), f.counter, pr.stack.last().cloned()),
                None => (None, 0, None),
            }
        };
        let frames_before = ex.get_process(pid).unwrap().frames.len();
        if r.chance(1, 6) {
            now += r.below(4);
        }
        let step = qverif::catch(|| ex.step(1000, now));
        steps += 1;
        let action = match step {
            Ok((_, a)) => a,
            Err(pmsg) => {
                return Err(fail("lockstep kind=panic-in-step", format!("panic: {pmsg}"), &trace, true));
            }
        };
        ask(model, &mut trace, "(ppf)".into());
        let mut last;
        let mut model_frames;
        match instr {
            Some(i) => {
                ev.hit(&format!("instr:{}", instr_name(&i)));
                last = ask(model, &mut trace, format!("(i {pid} {})", render_instr(&i, &p, counter, top.as_ref(), ex.get_process_function_indices().get(&pid).copied(), now)));
                if last.starts_with("bad-request") {
                    return Err(fail("lockstep kind=bad-request", last.clone(), &trace, false));
                }
                model_frames = field(&last, "frames").unwrap_or(0);
            }
            None => {
                last = ask(model, &mut trace, "(view)".into());
                model_frames = frames_before;
            }
        }
        let mout: String = model_view(&last).0.to_string();
        let mut model_failed = mout == "fail";
        let pr = ex.get_process(pid).unwrap();
        let impl_failed = matches!(pr.result, Some(Err(_)));
        let real_frames = pr.frames.len();
        // frame auto-pop + completion
        while model_frames > real_frames && !model_failed {
            last = ask(model, &mut trace, format!("(popframe {pid})"));
            model_frames = field(&last, "frames").unwrap_or(0);
            ev.hit("step:popframe");
        }
        if real_frames == 0 && pr.result.is_some() {
            last = ask(model, &mut trace, format!("(finish {pid})"));
            ev.hit("step:finish");
            if model_view(&last).0 == "fail" {
                model_failed = true;
                ev.hit("step:finish-stack-underflow");
            }
        }
        if model_failed != impl_failed {
            return Err(fail(
                "lockstep kind=outcome",
                format!("instruction {:?}: model failed {model_failed}, impl result {:?}", instr, pr.result.as_ref().map(|r| r.is_ok())),
                &trace,
                false,
            ));
        }
        if impl_failed {
            ev.hit("outcome:error");
        }
        if matches!(instr, Some(Instruction::Select)) {
            let sel = pr.select_state.as_ref();
            let k = if impl_failed {
                "fail"
            } else if mout.starts_with("act await") {
                "await"
            } else if mout == "wait" {
                if select_waits && deferred.iter().any(|(c, _)| *c == pid) {
                    ev.hit("select:gate-closed");
                }
                "wait"
            } else if sel.map(|s| s.receiving.is_some()).unwrap_or(false) && pr.frames.len() > frames_before {
                "filter-called"
            } else if sel.is_none() {
                "completed"
            } else {
                "other"
            };
            ev.hit(&format!("select:{k}"));
        }
        let (_, mv) = model_view(&last);
        let iv = oracle::canon_view(&ex);
        if mv != iv {
            // is the implementation itself wrong?
            let orc = oracle::check(&ex, &mut shadow);
            let found = orc.is_err();
            return Err(fail(
                &format!("lockstep instr={} kind=view", instr.map(|i| instr_name(&i)).unwrap_or("none")),
                format!("after {:?} (pid {pid}): model {mv} impl {iv} oracle {:?}", instr, orc.err()),
                &trace,
                found,
            ));
        }
        // stack/locals sizes too (cheap and catches a mis-modelled movement early)
        if let (Some(ms), Some(ml)) = (field(&last, "stack"), field(&last, "locals"))
            && (ms != pr.stack.len() || ml != pr.locals.len())
        {
            return Err(fail(
                "lockstep kind=shape",
                format!("after {:?}: model stack {ms} locals {ml}, impl stack {} locals {}", instr, pr.stack.len(), pr.locals.len()),
                &trace,
                false,
            ));
        }
        // the value on top of the stack, by content
        if let Some(i) = last.find(" top=") {
            let mtop = &last[i + 5..];
            let itop = pr.stack.last().map(|v| render_value(&ex, v)).unwrap_or_else(|| "-".to_string());
            if mtop != itop {
                return Err(fail(
                    "lockstep kind=top-value",
                    format!("after {:?} (pid {pid}): model top {mtop}, impl top {itop}", instr),
                    &trace,
                    false,
                ));
            }
        }
        if let Err((kind, detail)) = oracle::check(&ex, &mut shadow) {
            return Err(fail(&format!("oracle kind={kind} path=lockstep"), detail, &trace, true));
        }
        if iv.contains(":") {
            nontrivial = true;
        }
        // follow-ups of actions
        match action {
            Some(quiver_core::Action::Spawn { caller, function_index, captures, argument }) => {
                ev.hit("action:spawn");
                // exercise extraction on the values the action carries (they were released)
                for c in captures.iter().chain(std::iter::once(&argument)) {
                    let _ = ex.extract_heap_data(c);
                }
                ex.notify_spawn(caller, Value::Process(70, function_index));
                ask(model, &mut trace, format!("(notify-spawn {caller} 70 {function_index})"));
            }
            Some(quiver_core::Action::Deliver { value, .. }) => {
                ev.hit("action:deliver");
                let _ = ex.extract_heap_data(&value);
            }
            Some(quiver_core::Action::Await { targets, caller }) => {
                ev.hit("action:await");
                // what `Worker::query_and_await` + `update_await_results` do on one worker
                for t in targets {
                    let res = ex.get_process(t).and_then(|p| p.result.clone());
                    match res {
                        Some(Ok(v)) => {
                            if let Ok((v2, heap)) = ex.extract_heap_data(&v) {
                                let _ = ex.notify_result(caller, t, v2.clone(), heap.clone());
                                let a = ask(model, &mut trace, format!("(notify-result {caller} {t} {} {})", render_transfer(&v2), heap_sx(&heap)));
                                ev.hit("await:result");
                                let (_, mv) = model_view(&a);
                                let iv = oracle::canon_view(&ex);
                                if mv != iv {
                                    return Err(fail("lockstep op=await-result kind=view", format!("model {mv} impl {iv}"), &trace, false));
                                }
                            }
                        }
                        Some(Err(e)) => {
                            ex.notify_failure(caller, t, e);
                            ask(model, &mut trace, format!("(notify-failure {caller} {t})"));
                            ev.hit("await:failure");
                        }
                        None => {
                            ev.hit("await:pending");
                            // the answer "not finished yet" (real only with notes/C05-fixes/01);
                            // sometimes late, so that the select is re-entered with its gate closed
                            if r.chance(1, 3) {
                                deferred.push((caller, t));
                                ev.hit("await:pending-deferred");
                            } else {
                                ex.notify_pending(caller, t);
                                if select_waits {
                                    ask(model, &mut trace, format!("(notify-pending {caller} {t})"));
                                }
                            }
                        }
                    }
                }
                ex.wake_selecting(caller);
            }
            _ => {}
        }
    }
    // final result value of process 0, by content
    let a = model.ask("(value 0)");
    let (mval, _) = model_view(&a);
    let ival = match ex.get_process(0).and_then(|p| p.result.clone()) {
        Some(Ok(v)) => format!("value {}", render_value(&ex, &v)),
        Some(Err(_)) => "error".to_string(),
        None => "running".to_string(),
    };
    if mval != ival {
        return Err(fail("lockstep kind=final-value", format!("model {mval} impl {ival}"), &trace, false));
    }
    ev.case(&trace, nontrivial);
    ev.add("lockstep:steps", steps);
    Ok(steps)
}

fn render_value(ex: &Exec, v: &Value) -> String {
    match v {
        Value::Integer(z) => format!("(i {z})"),
        Value::Binary(Binary::Heap(j)) => format!("(b {})", qverif::hex(&ex.get_heap_binary(*j).map(|d| d.to_vec()).unwrap_or_default())),
        Value::Binary(Binary::Constant(k)) => format!("(c {k})"),
        Value::Reference(r) => format!("(r {r})"),
        Value::Tuple(id, fs) => format!("(t {id}{})", fs.iter().map(|f| format!(" {}", render_value(ex, f))).collect::<String>()),
        Value::Function(id, fs) => format!("(f {id}{})", fs.iter().map(|f| format!(" {}", render_value(ex, f))).collect::<String>()),
        Value::Builtin(k) => format!("(bi {k})"),
        Value::Process(a, b) => format!("(p {a} {b})"),
        Value::Resource(a, b) => format!("(res {a} {b})"),
    }
}


/// A tail-recursive RECEIVE loop in lock step: `loop: Pop; Function(recv); Select; Pop|Store;
/// Constant; TailCall(true)` — one message (a binary or a pair of binaries, injected by
/// `notify_message`) is received and dropped per iteration. Besides the per-step view comparison the
/// heap must not grow with the number of iterations (slots of injected binaries are reused).
/// Returns the final heap size of the implementation.
pub fn run_recv_loop(r: &mut Rng, b: &Builtins, model: &mut Model, ev: &mut Ev, iterations: usize, store_variant: bool) -> Result<usize, (String, String, serde_json::Value, bool)> {
    let drop_instr = if store_variant { Instruction::Store } else { Instruction::Pop };
    let p = Prog {
        constants: vec![Constant::Integer(BigInt::from(0))],
        functions: vec![
            Function {
                instructions: vec![Instruction::Pop, Instruction::Function(1), Instruction::Select, drop_instr, Instruction::Constant(0), Instruction::TailCall(true)],
                captures: 0,
                type_id: 0,
            },
            Function { instructions: vec![], captures: 0, type_id: 1 },
        ],
        arities: vec![0, 0, 2],
        type_compat: vec![],
    };
    let mut all: HashSet<ConcreteType> = [ConcreteType::Integer, ConcreteType::Binary].into_iter().collect();
    for t in 0..3 {
        all.insert(ConcreteType::Tuple(t));
    }
    let mut bt: HashSet<ConcreteType> = (0..3).map(ConcreteType::Tuple).collect();
    bt.insert(ConcreteType::Binary);
    let update = ProgramUpdate {
        constants: p.constants.clone(),
        functions: p.functions.clone(),
        tuples: vec![TupleTypeInfo { name: None, fields: vec![(None, 0), (None, 0)] }],
        types: vec![],
        builtins: vec![],
        resources: vec![],
        type_compatibility: vec![],
        function_param_compatibility: vec![all, bt],
        builtin_param_compatibility: vec![],
        canonical_tuples: vec![0, 1, 2],
    };
    let mut ex = Exec::new(b.clone(), false, 0);
    ex.update_program(update);
    quiver_core::executor::verif::set_quantum_override(Some(1));
    let mut trace: Vec<String> = vec![];
    let ask = |m: &mut Model, t: &mut Vec<String>, line: String| -> String {
        let a = m.ask(&line);
        if t.len() < 4000 {
            t.push(line);
        }
        a
    };
    let fail = |what: &str, detail: String, trace: &Vec<String>, found: bool| {
        (
            what.to_string(),
            detail.clone(),
            json!({"kind": "lockstep-recv-loop", "iterations": iterations, "store_variant": store_variant, "broken": "correspondence model<->impl / heap bound of the receive loop", "detail": detail, "model_requests_head": trace}),
            found,
        )
    };
    ask(model, &mut trace, format!("(config dead-roots {})", if oracle::dead_roots_repaired() { 1 } else { 0 }));
    ask(model, &mut trace, format!("(config select-waits {})", if oracle::select_waits() { 1 } else { 0 }));
    ask(model, &mut trace, "(init)".into());
    ask(model, &mut trace, "(program (canon 0 1 2) (builtins))".into());
    ask(model, &mut trace, "(receivers (fcompat (0 int bin tuple func builtin proc ref) (1 bin tuple)) (empty 1))".into());
    let _ = ex.spawn_process(0, Some(0), vec![], Value::nil(), vec![], false);
    ask(model, &mut trace, "(spawn-process 0 0 () (t 0) () 0)".into());
    let mut shadow = oracle::Shadow::default();
    let mut received = 0usize;
    let mut max_size = 0usize;
    let mut sent = 0usize;
    let mut steps = 0u64;
    while received < iterations && steps < (iterations as u64) * 40 + 200 {
        // feed: whenever the loop is parked, and sometimes ahead of it (bursts of up to 3)
        let parked = ex.verif_queue().is_empty();
        let in_mailbox = ex.get_process(0).map(|p| p.mailbox.len()).unwrap_or(0);
        if parked || (in_mailbox < 3 && r.chance(1, 5)) {
            let burst = if parked { 1 + r.usize(3) } else { 1 };
            for _ in 0..burst {
                let n1 = 1 + r.usize(4);
                let b1 = r.bytes(n1);
                let (v, sx, heap) = if r.chance(1, 3) {
                    let n2 = 1 + r.usize(4);
                    let b2 = r.bytes(n2);
                    (
                        Value::tuple(2, vec![Value::Binary(Binary::Heap(1)), Value::Binary(Binary::Heap(0))]),
                        "(t 2 (h 1) (h 0))".to_string(),
                        vec![b1, b2],
                    )
                } else {
                    (Value::Binary(Binary::Heap(0)), "(h 0)".to_string(), vec![b1])
                };
                let _ = ex.notify_message(0, v, heap.clone());
                let a = ask(model, &mut trace, format!("(notify-message 0 {sx} {})", heap_sx(&heap)));
                sent += 1;
                let (_, mv) = model_view(&a);
                let iv = oracle::canon_view(&ex);
                if mv != iv {
                    return Err(fail("lockstep op=notify_message kind=view path=recv-loop", format!("model {mv} impl {iv}"), &trace, false));
                }
            }
        }
        let Some(&pid) = ex.verif_queue().first() else { continue };
        let (instr, counter, top) = {
            let pr = ex.get_process(pid).unwrap();
            match pr.frames.last() {
                Some(f) => (p.functions[f.function_index].instructions.get(f.counter).copied(), f.counter, pr.stack.last().cloned()),
                None => (None, 0, None),
            }
        };
        let Some(i) = instr else { break };
        let had_select = ex.get_process(pid).map(|p| p.select_state.is_some()).unwrap_or(false);
        if let Err(pmsg) = qverif::catch(|| ex.step(1000, 0)) {
            return Err(fail("lockstep kind=panic-in-step path=recv-loop", format!("panic: {pmsg}"), &trace, true));
        }
        steps += 1;
        ask(model, &mut trace, "(ppf)".into());
        let a = ask(model, &mut trace, format!("(i {pid} {})", render_instr(&i, &p, counter, top.as_ref(), Some(0), 0)));
        let (_, mv) = model_view(&a);
        let iv = oracle::canon_view(&ex);
        if mv != iv {
            let orc = oracle::check(&ex, &mut shadow);
            return Err(fail(
                &format!("lockstep instr={} kind=view path=recv-loop", instr_name(&i)),
                format!("iteration {received}, after {:?}: model {mv} impl {iv} oracle {:?}", i, orc.as_ref().err()),
                &trace,
                orc.is_err(),
            ));
        }
        if let Err((kind, detail)) = oracle::check(&ex, &mut shadow) {
            return Err(fail(&format!("oracle kind={kind} path=recv-loop"), detail, &trace, true));
        }
        let pr = ex.get_process(pid).unwrap();
        if matches!(i, Instruction::Select) && (had_select || true) && pr.select_state.is_none() && pr.result.is_none() {
            received += 1;
        }
        if pr.result.is_some() {
            return Err(fail("lockstep kind=recv-loop-ended", format!("the loop ended after {received} iterations: {:?}", pr.result.as_ref().map(|r| r.is_ok())), &trace, false));
        }
        max_size = max_size.max(ex.verif_heap_view().refcounts.len());
    }
    ev.add("recvloop:iterations", received as u64);
    ev.add("recvloop:messages", sent as u64);
    ev.add("recvloop:steps", steps);
    ev.case(&("recv-loop", iterations, store_variant, sent), true);
    // bound: at most 3 queued messages + the one in hand, two binaries each
    if max_size > 12 {
        return Err(fail(
            "oracle kind=heap-growth path=recv-loop",
            format!("heap grew to {max_size} slots over {received} iterations of a loop that holds at most 4 messages at a time"),
            &trace,
            true,
        ));
    }
    Ok(max_size)
}
