//! C19 — the dict module (`std/dict.qv`, a 32-way HAMT written in Quiver) behaves as a finite map.
//!
//! A *history* is a sequence of operations over a numbered store of dict versions (version 0 is
//! `%dict.new`): put / remove / from / merge create a new version from any OLD version(s);
//! get / has? / count / entries / keys / values observe any version. Each history becomes ONE
//! Quiver program (sync path) that performs the operations line by line with the real module
//! (`std/*.qv` is read from the checkout at run time and shadows the embedded copy) and returns a
//! tuple of every observation followed by the structural value of EVERY version (so an old
//! version printed after all later operations shows persistence) and its entry list.
//!
//!  * correspondence: every field is compared with the answer of the Lean model driver `qm_c19`
//!    (M-Dict, `QuiverModel/Core/Dict.lean`; theorems `C19.*`), including trees and entry order;
//!  * oracle on the implementation, independent of the model: a host-side `BTreeMap` per version
//!    (get/has/count/entries/keys/values as sets; final entries of every version = persistence)
//!    and a host-side check of the trie invariant `WF` on every printed tree.
//!
//! Key sets: random short keys, `Str[b]`/`b` twins (equal hash, different key), keys found by
//! search to share the low 5/10/…/30 bits of FNV-1a (collide in the first 1…6 fragments), and full
//! 32-bit collisions (birthday pairs, widened to 4-/8-way multicollisions by the iterated
//! construction and doubled again by the `Str` twins).
use qverif::run::{self, Builtins};
use qverif::{Ev, Model, Opts, Rng, hex};
use serde_json::json;
use std::collections::{BTreeMap, BTreeSet, HashMap};

// ---------------------------------------------------------------------------------------------
// keys
// ---------------------------------------------------------------------------------------------
#[derive(Clone, Debug, PartialEq, Eq, Hash, PartialOrd, Ord)]
enum Key {
    Bin(Vec<u8>),
    Str(Vec<u8>),
}

impl Key {
    fn bytes(&self) -> &[u8] {
        match self {
            Key::Bin(b) | Key::Str(b) => b,
        }
    }
    /// Quiver source literal. Printable strings use the `"…"` form now and then.
    fn src(&self, pretty: bool) -> String {
        match self {
            Key::Bin(b) => format!("0x{}", hex(b)),
            Key::Str(b) => {
                let printable = !b.is_empty()
                    && b.iter().all(|c| c.is_ascii_alphanumeric() || *c == b' ' || *c == b'_' || *c == b'-');
                if pretty && printable {
                    format!("\"{}\"", String::from_utf8_lossy(b))
                } else {
                    format!("Str[0x{}]", hex(b))
                }
            }
        }
    }
    /// token of the model protocol
    fn tok(&self) -> String {
        match self {
            Key::Bin(b) => format!("b{}", hex(b)),
            Key::Str(b) => format!("s{}", hex(b)),
        }
    }
    fn twin(&self) -> Key {
        match self {
            Key::Bin(b) => Key::Str(b.clone()),
            Key::Str(b) => Key::Bin(b.clone()),
        }
    }
}

fn fnv1a32_from(state: u32, bytes: &[u8]) -> u32 {
    bytes.iter().fold(state, |h, b| (h ^ (*b as u32)).wrapping_mul(16777619))
}
fn fnv1a32(bytes: &[u8]) -> u32 {
    fnv1a32_from(2166136261, bytes)
}

// ---------------------------------------------------------------------------------------------
// spellings: the SAME key content produced through different construction paths (rope shapes)
// ---------------------------------------------------------------------------------------------
/// How the bytes of a key occurrence are written in the generated program. The dict must treat two
/// binaries with equal content as the same key whatever their internal representation (literal /
/// lazily zero-filled `n %bin.new` / concat rope / slice of a longer binary / tiled repeat); the
/// model and the host oracle identify keys by content only.
#[derive(Clone, Debug, PartialEq, Eq, Hash)]
enum Sp {
    /// `0x…` hex literal
    Lit,
    /// `"…"` string literal (printable `Str` keys only)
    Pretty,
    /// `n %bin.new` (all-zero content)
    Zeroed,
    /// `[left, right] %bin.concat`, split at k; `true`: all-zero pieces are written `n %bin.new`
    Concat(usize, bool),
    /// `[0x<a junk bytes><key><b junk bytes>, a, a+len] %bin.slice`
    Slice(usize, usize),
    /// `[unit, count] __binary_repeat__` with a unit of u bytes (periodic content)
    Repeat(usize),
}

impl Sp {
    fn tok(&self) -> String {
        match self {
            Sp::Lit => "l".into(),
            Sp::Pretty => "p".into(),
            Sp::Zeroed => "z".into(),
            Sp::Concat(k, false) => format!("c{k}"),
            Sp::Concat(k, true) => format!("C{k}"),
            Sp::Slice(a, b) => format!("s{a}.{b}"),
            Sp::Repeat(u) => format!("r{u}"),
        }
    }
    fn parse(t: &str) -> Option<Sp> {
        let (c, rest) = t.split_at(1);
        Some(match c {
            "l" => Sp::Lit,
            "p" => Sp::Pretty,
            "z" => Sp::Zeroed,
            "c" => Sp::Concat(rest.parse().ok()?, false),
            "C" => Sp::Concat(rest.parse().ok()?, true),
            "s" => {
                let (a, b) = rest.split_once('.')?;
                Sp::Slice(a.parse().ok()?, b.parse().ok()?)
            }
            "r" => Sp::Repeat(rest.parse().ok()?),
            _ => return None,
        })
    }
    fn class(&self) -> &'static str {
        match self {
            Sp::Lit => "literal",
            Sp::Pretty => "string-literal",
            Sp::Zeroed => "zeroed(bin.new)",
            Sp::Concat(_, false) => "concat",
            Sp::Concat(_, true) => "concat-of-zeroed",
            Sp::Slice(..) => "slice",
            Sp::Repeat(_) => "repeat",
        }
    }
}

fn all_zero(b: &[u8]) -> bool {
    b.iter().all(|x| *x == 0)
}

/// Spellings that denote exactly `b`.
fn applicable(b: &[u8], is_str: bool) -> Vec<Sp> {
    let mut v = vec![Sp::Lit];
    let printable = !b.is_empty() && b.iter().all(|c| c.is_ascii_alphanumeric() || *c == b' ' || *c == b'_' || *c == b'-');
    if is_str && printable {
        v.push(Sp::Pretty);
    }
    if all_zero(b) {
        v.push(Sp::Zeroed);
    }
    for k in 0..=b.len() {
        v.push(Sp::Concat(k, false));
        if (k > 0 && all_zero(&b[..k])) || (k < b.len() && all_zero(&b[k..])) {
            v.push(Sp::Concat(k, true));
        }
    }
    for (a, c) in [(0usize, 1usize), (1, 0), (2, 3), (1, 1)] {
        v.push(Sp::Slice(a, c));
    }
    for u in 1..=b.len() / 2 {
        if b.len() % u == 0 && b.chunks(u).all(|c| c == &b[..u]) {
            v.push(Sp::Repeat(u));
        }
    }
    v
}

/// Source expression of the binary `b` in spelling `sp` (falls back to the literal when the
/// spelling does not apply to this content).
fn spell_bin(b: &[u8], sp: &Sp) -> String {
    let piece = |x: &[u8], zero: bool| if zero && !x.is_empty() && all_zero(x) { format!("{} %bin.new", x.len()) } else { format!("0x{}", hex(x)) };
    match sp {
        Sp::Zeroed if all_zero(b) => format!("{} %bin.new", b.len()),
        Sp::Concat(k, z) if *k <= b.len() => format!("[{}, {}] %bin.concat", piece(&b[..*k], *z), piece(&b[*k..], *z)),
        Sp::Slice(a, c) => {
            let mut x: Vec<u8> = (0..*a).map(|i| 0xa0 + i as u8).collect();
            x.extend_from_slice(b);
            x.extend((0..*c).map(|i| 0x5f - i as u8));
            format!("[0x{}, {}, {}] %bin.slice", hex(&x), a, a + b.len())
        }
        Sp::Repeat(u) if *u >= 1 && b.len() >= 2 * u && b.len() % u == 0 && b.chunks(*u).all(|c| c == &b[..*u]) => {
            format!("[0x{}, {}] __binary_repeat__", hex(&b[..*u]), b.len() / u)
        }
        _ => format!("0x{}", hex(b)),
    }
}

/// Source expression of a key occurrence.
fn spell_key(k: &Key, sp: &Sp) -> String {
    match k {
        Key::Bin(b) => spell_bin(b, sp),
        Key::Str(b) => match sp {
            Sp::Pretty => k.src(true),
            _ => format!("Str[{}]", spell_bin(b, sp)),
        },
    }
}

fn pick_spelling(r: &mut Rng, k: &Key) -> Sp {
    let is_str = matches!(k, Key::Str(_));
    let app = applicable(k.bytes(), is_str);
    if r.chance(2, 5) {
        return if app.contains(&Sp::Pretty) && r.chance(1, 2) { Sp::Pretty } else { Sp::Lit };
    }
    // lazily zero-filled and tiled forms are rare among the applicable ones: favour them
    let special: Vec<&Sp> = app.iter().filter(|s| matches!(s, Sp::Zeroed | Sp::Repeat(_) | Sp::Concat(_, true))).collect();
    if !special.is_empty() && r.chance(1, 2) {
        return special[r.usize(special.len())].clone();
    }
    app[r.usize(app.len())].clone()
}

// ---------------------------------------------------------------------------------------------
// colliding key sets, found by search (deterministic in the seed)
// ---------------------------------------------------------------------------------------------
struct KeySets {
    /// groups[j] : groups of ≥ 3 keys (distinct full hashes) sharing the low 5·(j+1) bits, j = 0..5
    frag: Vec<Vec<Vec<Vec<u8>>>>,
    /// groups of byte strings with one full 32-bit hash (size 2, 4 or 8)
    full: Vec<Vec<Vec<u8>>>,
    search_ms: u128,
}

/// Birthday search for two different `len`-byte strings with equal FNV-1a state when hashed from
/// `state`. Deterministic; ~80k candidates expected.
fn birthday_pair(r: &mut Rng, state: u32, len: usize) -> (Vec<u8>, Vec<u8>) {
    let mut seen: HashMap<u32, Vec<u8>> = HashMap::new();
    loop {
        let k = r.bytes(len);
        let h = fnv1a32_from(state, &k);
        if let Some(prev) = seen.get(&h) {
            if *prev != k {
                return (prev.clone(), k);
            }
        } else {
            seen.insert(h, k);
        }
    }
}

fn find_key_sets(seed: u64, n_full: usize) -> KeySets {
    let t0 = std::time::Instant::now();
    let mut r = Rng::for_case(seed ^ 0xC19C_0111, 0);
    // fragment collisions: many candidates, grouped by low bits
    let n = 400_000usize;
    let mut cands: Vec<(u32, Vec<u8>)> = Vec::with_capacity(n);
    let mut seen = BTreeSet::new();
    while cands.len() < n {
        let len = 1 + r.usize(6);
        let k = r.bytes(len);
        if seen.insert(k.clone()) {
            cands.push((fnv1a32(&k), k));
        }
    }
    drop(seen);
    let mut frag = vec![];
    for j in 0..6u32 {
        let bits = 5 * (j + 1);
        let mask: u32 = if bits >= 32 { u32::MAX } else { (1u32 << bits) - 1 };
        let mut by: HashMap<u32, Vec<usize>> = HashMap::new();
        for (i, (h, _)) in cands.iter().enumerate() {
            by.entry(h & mask).or_default().push(i);
        }
        let mut keys: Vec<u32> = by.iter().filter(|(_, v)| v.len() >= 3).map(|(k, _)| *k).collect();
        keys.sort();
        let mut groups = vec![];
        for k in keys.into_iter().take(40) {
            let mut g: Vec<Vec<u8>> = vec![];
            let mut hs = BTreeSet::new();
            for &i in &by[&k] {
                if hs.insert(cands[i].0) && g.len() < 12 {
                    g.push(cands[i].1.clone());
                }
            }
            if g.len() >= 3 {
                groups.push(g);
            }
        }
        if groups.is_empty() {
            // 30 shared bits: pairs are what a 400k sample yields
            let mut keys: Vec<u32> = by.iter().filter(|(_, v)| v.len() >= 2).map(|(k, _)| *k).collect();
            keys.sort();
            for k in keys.into_iter().take(40) {
                let g: Vec<Vec<u8>> = by[&k].iter().map(|&i| cands[i].1.clone()).collect();
                groups.push(g);
            }
        }
        frag.push(groups);
    }
    // full collisions: birthday pair, then iterate from the common state (4-way, 8-way)
    let mut full = vec![];
    for i in 0..n_full {
        let init = 2166136261u32;
        let (a, b) = birthday_pair(&mut r, init, 5);
        let mut group = vec![a.clone(), b.clone()];
        let levels = i % 3; // 2-, 4-, 8-way
        let mut state = fnv1a32(&a);
        for _ in 0..levels {
            let (c, d) = birthday_pair(&mut r, state, 5);
            let mut next = vec![];
            for g in &group {
                for s in [&c, &d] {
                    let mut x = g.clone();
                    x.extend_from_slice(s);
                    next.push(x);
                }
            }
            state = fnv1a32_from(state, &c);
            group = next;
        }
        let h = fnv1a32(&group[0]);
        assert!(group.iter().all(|g| fnv1a32(g) == h));
        full.push(group);
    }
    // the pair quoted in /repo/quiver-tests/tests/dict.rs
    full.push(vec![vec![0x0a, 0x59, 0x53, 0x80, 0x16], vec![0xfd, 0x3e, 0xb8, 0x27, 0xca]]);
    KeySets { frag, full, search_ms: t0.elapsed().as_millis() }
}

// ---------------------------------------------------------------------------------------------
// histories
// ---------------------------------------------------------------------------------------------
#[derive(Clone, Debug, PartialEq, Eq, Hash)]
enum Op {
    Put(usize, Key, i64),
    Remove(usize, Key),
    From(Vec<(Key, i64)>),
    Merge(usize, usize),
    Get(usize, Key),
    Has(usize, Key),
    Count(usize),
    Entries(usize),
    Keys(usize),
    Values(usize),
    /// `d %dict.iter %iter.count` — the iterator export, consumed by counting
    IterCount(usize),
}

impl Op {
    fn creates(&self) -> bool {
        matches!(self, Op::Put(..) | Op::Remove(..) | Op::From(..) | Op::Merge(..))
    }
    fn name(&self) -> &'static str {
        match self {
            Op::Put(..) => "put",
            Op::Remove(..) => "remove",
            Op::From(..) => "from",
            Op::Merge(..) => "merge",
            Op::Get(..) => "get",
            Op::Has(..) => "has?",
            Op::Count(..) => "count",
            Op::Entries(..) => "entries",
            Op::Keys(..) => "keys",
            Op::Values(..) => "values",
            Op::IterCount(..) => "iter-count",
        }
    }
    fn model_req(&self) -> String {
        match self {
            Op::Put(v, k, x) => format!("put {v} {} {x}", k.tok()),
            Op::Remove(v, k) => format!("remove {v} {}", k.tok()),
            Op::From(ps) => {
                let mut s = "from".to_string();
                for (k, x) in ps {
                    s.push_str(&format!(" ({} {x})", k.tok()));
                }
                s
            }
            Op::Merge(a, b) => format!("merge {a} {b}"),
            Op::Get(v, k) => format!("get {v} {}", k.tok()),
            Op::Has(v, k) => format!("has {v} {}", k.tok()),
            Op::Count(v) => format!("count {v}"),
            Op::Entries(v) => format!("entries {v}"),
            Op::Keys(v) => format!("keys {v}"),
            Op::Values(v) => format!("values {v}"),
            // `iter` is `entries` handed out one by one: the model has no separate definition, its
            // count is `count`
            Op::IterCount(v) => format!("count {v}"),
        }
    }
    /// line format of corpus / replay files
    fn line(&self) -> String {
        match self {
            Op::IterCount(v) => format!("itercount {v}"),
            o => o.model_req(),
        }
    }
    fn to_json(&self) -> serde_json::Value {
        json!(self.line())
    }
}

#[derive(Clone, Debug, PartialEq, Eq, Hash)]
struct History {
    kind: String,
    ops: Vec<Op>,
    /// spell[i][j]: how the j-th key occurrence of operation i is written in the program
    spell: Vec<Vec<Sp>>,
}

fn op_keys(o: &Op) -> Vec<&Key> {
    match o {
        Op::Put(_, k, _) | Op::Remove(_, k) | Op::Get(_, k) | Op::Has(_, k) => vec![k],
        Op::From(ps) => ps.iter().map(|(k, _)| k).collect(),
        _ => vec![],
    }
}

impl History {
    /// Spellings drawn at random (generator) …
    fn spelled(kind: String, ops: Vec<Op>, r: &mut Rng) -> History {
        let spell = ops.iter().map(|o| op_keys(o).into_iter().map(|k| pick_spelling(r, k)).collect()).collect();
        History { kind, ops, spell }
    }
    /// … or cycling deterministically through every applicable spelling (corpus files without a
    /// spelling table, neighbourhood search).
    fn cycled(kind: String, ops: Vec<Op>, keep: &[Vec<Sp>]) -> History {
        let mut n = 0usize;
        let spell = ops
            .iter()
            .enumerate()
            .map(|(i, o)| {
                op_keys(o)
                    .into_iter()
                    .enumerate()
                    .map(|(j, k)| {
                        if let Some(sp) = keep.get(i).and_then(|v| v.get(j)) {
                            return sp.clone();
                        }
                        let app = applicable(k.bytes(), matches!(k, Key::Str(_)));
                        n += 1;
                        app[(n * 7 + i) % app.len()].clone()
                    })
                    .collect()
            })
            .collect();
        History { kind, ops, spell }
    }
    fn sp(&self, i: usize, j: usize) -> Sp {
        self.spell.get(i).and_then(|v| v.get(j)).cloned().unwrap_or(Sp::Lit)
    }
}

fn parse_key_tok(t: &str) -> Option<Key> {
    let (c, rest) = t.split_at(1);
    if rest.len() % 2 != 0 || !rest.chars().all(|c| c.is_ascii_hexdigit()) {
        return None;
    }
    match c {
        "b" => Some(Key::Bin(qverif::unhex(rest))),
        "s" => Some(Key::Str(qverif::unhex(rest))),
        _ => None,
    }
}

/// Inverse of `model_req` (corpus / replay files store histories as request lines).
fn parse_op(line: &str) -> Option<Op> {
    let line = line.trim();
    if let Some(rest) = line.strip_prefix("from") {
        let mut ps = vec![];
        for part in rest.split('(').skip(1) {
            let inner = part.trim().trim_end_matches(')').trim();
            let mut it = inner.split_whitespace();
            let k = parse_key_tok(it.next()?)?;
            let x: i64 = it.next()?.parse().ok()?;
            ps.push((k, x));
        }
        return Some(Op::From(ps));
    }
    let t: Vec<&str> = line.split_whitespace().collect();
    let n = |i: usize| t.get(i).and_then(|s| s.parse::<usize>().ok());
    let k = |i: usize| t.get(i).and_then(|s| parse_key_tok(s));
    Some(match *t.first()? {
        "put" => Op::Put(n(1)?, k(2)?, t.get(3)?.parse().ok()?),
        "remove" => Op::Remove(n(1)?, k(2)?),
        "merge" => Op::Merge(n(1)?, n(2)?),
        "get" => Op::Get(n(1)?, k(2)?),
        "has" => Op::Has(n(1)?, k(2)?),
        "count" => Op::Count(n(1)?),
        "entries" => Op::Entries(n(1)?),
        "keys" => Op::Keys(n(1)?),
        "values" => Op::Values(n(1)?),
        "itercount" => Op::IterCount(n(1)?),
        _ => return None,
    })
}

fn random_key(r: &mut Rng) -> Key {
    // contents that have a lazily zero-filled / tiled representation
    match r.below(12) {
        0 | 1 => {
            let zl = r.usize(10);
            let b = vec![0u8; zl];
            return if r.chance(2, 3) { Key::Bin(b) } else { Key::Str(b) };
        }
        2 => {
            let ul = 1 + r.usize(2);
            let unit = r.bytes(ul);
            let reps = 2 + r.usize(3);
            let b: Vec<u8> = unit.iter().cycle().take(unit.len() * reps).cloned().collect();
            return if r.chance(2, 3) { Key::Bin(b) } else { Key::Str(b) };
        }
        _ => {}
    }
    let len = match r.below(8) {
        0 => 0,
        1 | 2 => 1,
        3 => 2,
        _ => 1 + r.usize(7),
    };
    let b = if r.chance(1, 3) {
        (0..len).map(|_| b"abcdefgh_ xyz019-"[r.usize(17)]).collect()
    } else {
        r.bytes(len)
    };
    if r.chance(1, 2) { Key::Bin(b) } else { Key::Str(b) }
}

/// The key pool of a history (small, so keys are re-put, removed, re-inserted).
fn key_pool(r: &mut Rng, ks: &KeySets, kind: &mut String) -> Vec<Key> {
    let mut pool: Vec<Key> = vec![];
    let wrap = |r: &mut Rng, b: &Vec<u8>| if r.chance(1, 2) { Key::Bin(b.clone()) } else { Key::Str(b.clone()) };
    match r.below(10) {
        0 | 1 => {
            *kind = "random".into();
            let n = 2 + r.usize(14);
            for _ in 0..n {
                pool.push(random_key(r));
            }
        }
        2 => {
            *kind = "random-large".into();
            let n = 30 + r.usize(50);
            for _ in 0..n {
                pool.push(random_key(r));
            }
        }
        3 => {
            *kind = "twins".into();
            let n = 2 + r.usize(6);
            for _ in 0..n {
                let k = random_key(r);
                pool.push(k.twin());
                pool.push(k);
            }
        }
        4 | 5 | 6 => {
            // fragment collisions: one or two groups at a chosen depth + a few random keys
            let j = r.usize(ks.frag.len());
            *kind = format!("frag{}", 5 * (j + 1));
            let gs = &ks.frag[j];
            for _ in 0..(1 + r.usize(2)) {
                if gs.is_empty() {
                    break;
                }
                let g = &gs[r.usize(gs.len())];
                for b in g {
                    pool.push(wrap(r, b));
                    if r.chance(1, 5) {
                        pool.push(pool.last().unwrap().twin());
                    }
                }
            }
            for _ in 0..r.usize(4) {
                pool.push(random_key(r));
            }
        }
        7 | 8 => {
            // full collisions (+ twins: the bucket doubles) + keys sharing fragments with nothing
            let g = &ks.full[r.usize(ks.full.len())];
            *kind = format!("full{}", g.len());
            for b in g {
                pool.push(wrap(r, b));
                if r.chance(1, 2) {
                    pool.push(pool.last().unwrap().twin());
                }
            }
            for _ in 0..r.usize(4) {
                pool.push(random_key(r));
            }
        }
        _ => {
            // everything at once: a full-collision group, a deep fragment group, twins
            *kind = "mixed".into();
            let g = &ks.full[r.usize(ks.full.len())];
            for b in g.iter().take(4) {
                pool.push(wrap(r, b));
            }
            let j = 2 + r.usize(4);
            if !ks.frag[j].is_empty() {
                let g = &ks.frag[j][r.usize(ks.frag[j].len())];
                for b in g.iter().take(5) {
                    pool.push(wrap(r, b));
                }
            }
            for _ in 0..3 {
                let k = random_key(r);
                pool.push(k.twin());
                pool.push(k);
            }
        }
    }
    pool.sort();
    pool.dedup();
    r.shuffle(&mut pool);
    pool
}

/// A big dict built in one `from`, then taken apart key by key in random order (every collapse path
/// of `remove` on multi-level tries), with counts / reads in between and a re-insertion at the end.
fn gen_bulk(r: &mut Rng, ks: &KeySets, n_keys: usize) -> History {
    let mut keys: Vec<Key> = vec![];
    let n = n_keys / 2 + r.usize(n_keys / 2);
    while keys.len() < n {
        keys.push(random_key(r));
    }
    // a deep fragment group and a full-collision group inside the big trie
    let j = 1 + r.usize(5);
    if !ks.frag[j].is_empty() {
        for b in &ks.frag[j][r.usize(ks.frag[j].len())] {
            keys.push(Key::Bin(b.clone()));
        }
    }
    for b in &ks.full[r.usize(ks.full.len())] {
        keys.push(Key::Str(b.clone()));
    }
    keys.sort();
    keys.dedup();
    r.shuffle(&mut keys);
    let mut ops = vec![Op::From(keys.iter().enumerate().map(|(i, k)| (k.clone(), i as i64 + 1)).collect())];
    ops.push(Op::Count(1));
    let mut order = keys.clone();
    r.shuffle(&mut order);
    let mut v = 1usize;
    let keep = r.usize(3);
    for (i, k) in order.iter().enumerate() {
        if order.len() - i <= keep {
            break;
        }
        ops.push(Op::Remove(v, k.clone()));
        v += 1;
        if i % 16 == 5 {
            ops.push(Op::Count(v));
            ops.push(Op::Get(v, order[r.usize(order.len())].clone()));
        }
    }
    ops.push(Op::Entries(v));
    ops.push(Op::Put(v, order[0].clone(), 77));
    ops.push(Op::Get(v + 1, order[0].clone()));
    ops.push(Op::Merge(v + 1, 1));
    ops.push(Op::Count(v + 2));
    History::spelled("bulk".into(), ops, r)
}

fn gen_history(r: &mut Rng, ks: &KeySets, max_ops: usize) -> History {
    let mut kind = String::new();
    let pool = key_pool(r, ks, &mut kind);
    let n_ops = 4 + r.usize(max_ops - 3);
    let mut ops = vec![];
    let mut versions = 1usize; // version 0 = new
    let mut next_val = 1i64;
    // bias: mostly work on the newest version, sometimes on an old one (persistence)
    let pick_ver = |r: &mut Rng, versions: usize| -> usize {
        if versions == 1 || r.chance(7, 10) { versions - 1 } else { r.usize(versions) }
    };
    let build_phase = n_ops / 3;
    // host maps of the versions built so far: keys are drawn from the target version's key set
    // about half of the time, so that replacements, removals and hits are as common as misses
    let mut host: Vec<HostMap> = vec![BTreeMap::new()];
    for i in 0..n_ops {
        let v = pick_ver(r, versions);
        let k = if !host[v].is_empty() && r.chance(1, 2) {
            let n = r.usize(host[v].len());
            host[v].keys().nth(n).unwrap().clone()
        } else {
            pool[r.usize(pool.len())].clone()
        };
        let roll = r.below(100);
        let put_w = if i < build_phase { 60 } else { 30 };
        let op = if roll < put_w {
            let val = match r.below(12) {
                0 => -next_val,
                1 => next_val + 4_000_000_000_000,
                _ => next_val,
            };
            next_val += 1;
            Op::Put(v, k, val)
        } else if roll < put_w + 18 {
            Op::Remove(v, k)
        } else if roll < put_w + 21 {
            let n = r.usize(pool.len().min(10) + 1);
            let mut ps = vec![];
            for _ in 0..n {
                ps.push((pool[r.usize(pool.len())].clone(), next_val));
                next_val += 1;
            }
            Op::From(ps)
        } else if roll < put_w + 24 {
            Op::Merge(v, r.usize(versions))
        } else {
            match r.below(10) {
                0..=4 => Op::Get(v, k),
                5 => Op::Has(v, k),
                6 => {
                    if r.chance(1, 4) {
                        Op::IterCount(v)
                    } else {
                        Op::Count(v)
                    }
                }
                7 => Op::Entries(v),
                8 => Op::Keys(v),
                _ => Op::Values(v),
            }
        };
        match &op {
            Op::Put(v, k, x) => {
                let mut m = host[*v].clone();
                m.insert(k.clone(), *x);
                host.push(m);
            }
            Op::Remove(v, k) => {
                let mut m = host[*v].clone();
                m.remove(k);
                host.push(m);
            }
            Op::From(ps) => host.push(ps.iter().cloned().collect()),
            Op::Merge(a, b) => {
                let mut m = host[*a].clone();
                for (k, x) in &host[*b] {
                    m.insert(k.clone(), *x);
                }
                host.push(m);
            }
            _ => {}
        }
        if op.creates() {
            versions += 1;
        }
        ops.push(op);
    }
    History::spelled(kind, ops, r)
}

// ---------------------------------------------------------------------------------------------
// the Quiver program of a history
// ---------------------------------------------------------------------------------------------
fn qv_pairs(ps: &[(Key, i64)], h: &History, i: usize) -> String {
    let mut s = String::new();
    for (j, (k, x)) in ps.iter().enumerate() {
        s.push_str(&format!("Cons[[{}, {x}], ", spell_key(k, &h.sp(i, j))));
    }
    s.push_str("Nil");
    for _ in ps {
        s.push(']');
    }
    s
}

/// Returns (source, number of observation fields, number of versions).
fn program(h: &History) -> (String, usize, usize) {
    let mut s = String::from("d0 = %dict.new,\n");
    let mut versions = 1usize;
    let mut obs = 0usize;
    for (i, op) in h.ops.iter().enumerate() {
        let sp0 = h.sp(i, 0);
        match op {
            Op::Put(v, k, x) => {
                s.push_str(&format!("d{versions} = [d{v}, {}, {x}] %dict.put,\n", spell_key(k, &sp0)));
                versions += 1;
            }
            Op::Remove(v, k) => {
                s.push_str(&format!("d{versions} = [d{v}, {}] %dict.remove,\n", spell_key(k, &sp0)));
                versions += 1;
            }
            Op::From(ps) => {
                s.push_str(&format!("d{versions} = {} %dict.from,\n", qv_pairs(ps, h, i)));
                versions += 1;
            }
            Op::Merge(a, b) => {
                s.push_str(&format!("d{versions} = [d{a}, d{b}] %dict.merge,\n"));
                versions += 1;
            }
            Op::Get(v, k) => {
                s.push_str(&format!("o{obs} = [d{v}, {}] %dict.get,\n", spell_key(k, &sp0)));
                obs += 1;
            }
            Op::Has(v, k) => {
                s.push_str(&format!("o{obs} = [d{v}, {}] %dict.has?,\n", spell_key(k, &sp0)));
                obs += 1;
            }
            Op::Count(v) => {
                s.push_str(&format!("o{obs} = d{v} %dict.count,\n"));
                obs += 1;
            }
            Op::Entries(v) => {
                s.push_str(&format!("o{obs} = d{v} %dict.entries,\n"));
                obs += 1;
            }
            Op::Keys(v) => {
                s.push_str(&format!("o{obs} = d{v} %dict.keys,\n"));
                obs += 1;
            }
            Op::Values(v) => {
                s.push_str(&format!("o{obs} = d{v} %dict.values,\n"));
                obs += 1;
            }
            Op::IterCount(v) => {
                s.push_str(&format!("o{obs} = d{v} %dict.iter %iter.count,\n"));
                obs += 1;
            }
        }
    }
    // final entries of every version, computed after everything else
    for v in 0..versions {
        s.push_str(&format!("e{v} = d{v} %dict.entries,\n"));
    }
    s.push('[');
    let mut first = true;
    let mut item = |s: &mut String, x: String| {
        if !first {
            s.push_str(", ");
        }
        first = false;
        s.push_str(&x);
    };
    for o in 0..obs {
        item(&mut s, format!("o{o}"));
    }
    for v in 0..versions {
        item(&mut s, format!("d{v}"));
    }
    for v in 0..versions {
        item(&mut s, format!("e{v}"));
    }
    s.push(']');
    (s, obs, versions)
}

// ---------------------------------------------------------------------------------------------
// canonical values (syntax of qverif::canon) — a tiny parser
// ---------------------------------------------------------------------------------------------
#[derive(Clone, Debug, PartialEq, Eq)]
enum CV {
    Int(i128),
    Bin(Vec<u8>),
    Tup(String, Vec<CV>),
    Other(String),
}

fn parse_cv(s: &[u8], i: &mut usize) -> Option<CV> {
    match *s.get(*i)? {
        b'i' => {
            *i += 1;
            let st = *i;
            while *i < s.len() && (s[*i] == b'-' || s[*i].is_ascii_digit()) {
                *i += 1;
            }
            std::str::from_utf8(&s[st..*i]).ok()?.parse().ok().map(CV::Int)
        }
        b'b' => {
            *i += 1;
            let st = *i;
            while *i < s.len() && s[*i].is_ascii_hexdigit() {
                *i += 1;
            }
            Some(CV::Bin(qverif::unhex(std::str::from_utf8(&s[st..*i]).ok()?)))
        }
        b't' => {
            if s.get(*i + 1) != Some(&b'(') {
                return None;
            }
            *i += 2;
            let st = *i;
            while *i < s.len() && s[*i] != b';' {
                *i += 1;
            }
            let name = std::str::from_utf8(&s[st..*i]).ok()?.to_string();
            *i += 1;
            let mut fields = vec![];
            loop {
                if s.get(*i) == Some(&b')') {
                    *i += 1;
                    break;
                }
                if s.get(*i) == Some(&b',') {
                    *i += 1;
                }
                // label=
                while *i < s.len() && s[*i] != b'=' {
                    *i += 1;
                }
                *i += 1;
                fields.push(parse_cv(s, i)?);
            }
            Some(CV::Tup(name, fields))
        }
        _ => {
            let st = *i;
            while *i < s.len() && s[*i] != b',' && s[*i] != b')' {
                *i += 1;
            }
            Some(CV::Other(String::from_utf8_lossy(&s[st..*i]).to_string()))
        }
    }
}

fn parse_canon(s: &str) -> Option<CV> {
    let mut i = 0;
    let v = parse_cv(s.as_bytes(), &mut i)?;
    if i == s.len() { Some(v) } else { None }
}

fn render_cv(v: &CV) -> String {
    match v {
        CV::Int(i) => format!("i{i}"),
        CV::Bin(b) => format!("b{}", hex(b)),
        CV::Tup(n, fs) => {
            let mut s = format!("t({n};");
            for (i, f) in fs.iter().enumerate() {
                if i > 0 {
                    s.push(',');
                }
                s.push_str("_=");
                s.push_str(&render_cv(f));
            }
            s.push(')');
            s
        }
        CV::Other(o) => o.clone(),
    }
}

fn cv_list(v: &CV) -> Option<Vec<CV>> {
    let mut out = vec![];
    let mut cur = v;
    loop {
        match cur {
            CV::Tup(n, fs) if n == "Nil" && fs.is_empty() => return Some(out),
            CV::Tup(n, fs) if n == "Cons" && fs.len() == 2 => {
                out.push(fs[0].clone());
                cur = &fs[1];
            }
            _ => return None,
        }
    }
}

fn cv_key(v: &CV) -> Option<Key> {
    match v {
        CV::Bin(b) => Some(Key::Bin(b.clone())),
        CV::Tup(n, fs) if n == "Str" && fs.len() == 1 => match &fs[0] {
            CV::Bin(b) => Some(Key::Str(b.clone())),
            _ => None,
        },
        _ => None,
    }
}

fn cv_entry(v: &CV) -> Option<(Key, i64)> {
    match v {
        CV::Tup(_, fs) if fs.len() == 2 => match &fs[1] {
            CV::Int(i) => Some((cv_key(&fs[0])?, *i as i64)),
            _ => None,
        },
        _ => None,
    }
}

/// Host-side check of the trie invariant (`C19.WF` in the Lean development) on a printed tree.
/// Returns the entries found, or what is wrong.
fn check_wf(t: &CV, shift: u32, pfx: u64, top: bool, out: &mut Vec<(Key, i64)>) -> Result<(), String> {
    let low = |h: u64| if shift >= 64 { h } else { h & ((1u64 << shift) - 1) };
    match t {
        CV::Tup(n, fs) if n == "Empty" && fs.is_empty() => {
            if top { Ok(()) } else { Err("Empty below a node".into()) }
        }
        CV::Tup(n, fs) if n == "Leaf" && fs.len() == 3 => {
            let (CV::Int(h), Some(k), CV::Int(v)) = (&fs[0], cv_key(&fs[1]), &fs[2]) else {
                return Err("malformed Leaf".into());
            };
            if *h as u64 != fnv1a32(k.bytes()) as u64 {
                return Err(format!("Leaf stores hash {h} for key {}", k.tok()));
            }
            if low(*h as u64) != pfx {
                return Err(format!("Leaf {} misplaced: hash {h} at shift {shift} prefix {pfx}", k.tok()));
            }
            out.push((k, *v as i64));
            Ok(())
        }
        CV::Tup(n, fs) if n == "Collision" && fs.len() == 2 => {
            let (CV::Int(h), Some(es)) = (&fs[0], cv_list(&fs[1])) else {
                return Err("malformed Collision".into());
            };
            if es.len() < 2 {
                return Err(format!("Collision bucket with {} entries", es.len()));
            }
            if low(*h as u64) != pfx {
                return Err(format!("Collision {h} misplaced at shift {shift} prefix {pfx}"));
            }
            let mut seen = BTreeSet::new();
            for e in &es {
                let (k, v) = cv_entry(e).ok_or("malformed bucket entry")?;
                if fnv1a32(k.bytes()) as u64 != *h as u64 {
                    return Err(format!("bucket {h} holds key {} of another hash", k.tok()));
                }
                if !seen.insert(k.clone()) {
                    return Err(format!("bucket {h} holds key {} twice", k.tok()));
                }
                out.push((k, v));
            }
            Ok(())
        }
        CV::Tup(n, fs) if n == "Node" && fs.len() == 2 => {
            let (CV::Int(b), Some(cs)) = (&fs[0], cv_list(&fs[1])) else {
                return Err("malformed Node".into());
            };
            if *b < 0 || *b >= (1i128 << 32) {
                return Err(format!("bitmap {b} out of range"));
            }
            let b = *b as u32;
            if b.count_ones() as usize != cs.len() {
                return Err(format!("bitmap {b} has {} bits, {} children", b.count_ones(), cs.len()));
            }
            if shift > 30 {
                return Err(format!("Node at shift {shift}"));
            }
            if cs.len() == 1 && !matches!(&cs[0], CV::Tup(n, _) if n == "Node") {
                return Err("Node with a single non-Node child (not canonical)".into());
            }
            if cs.is_empty() {
                return Err("Node without children".into());
            }
            let mut idx = 0;
            for f in 0..32u64 {
                if b & (1 << f) != 0 {
                    check_wf(&cs[idx], shift + 5, pfx + (f << shift), false, out)?;
                    idx += 1;
                }
            }
            Ok(())
        }
        other => Err(format!("not a dict node: {}", render_cv(other).chars().take(60).collect::<String>())),
    }
}

fn tree_depth(t: &CV) -> usize {
    match t {
        CV::Tup(n, fs) if n == "Node" && fs.len() == 2 => {
            1 + cv_list(&fs[1]).map(|cs| cs.iter().map(tree_depth).max().unwrap_or(0)).unwrap_or(0)
        }
        _ => 0,
    }
}

fn count_nodes(t: &CV, name: &str) -> usize {
    match t {
        CV::Tup(n, fs) => {
            (if n == name { 1 } else { 0 })
                + if n == "Node" && fs.len() == 2 {
                    cv_list(&fs[1]).map(|cs| cs.iter().map(|c| count_nodes(c, name)).sum()).unwrap_or(0)
                } else {
                    0
                }
        }
        _ => 0,
    }
}

// ---------------------------------------------------------------------------------------------
// running a history on the implementation / the model / the host map
// ---------------------------------------------------------------------------------------------
struct ImplRun {
    /// canonical fields of the result tuple, or the failure
    fields: Result<Vec<CV>, String>,
}

/// `execute_bytecode_sync` with a budget: a history of ≤ 300 operations on tries of depth ≤ 7 needs
/// well under a million scheduler quanta; a changed `std/dict.qv` that recurses forever (the split
/// functions have no structural bound) must come back as an outcome, not hang the check.
static MAX_QUANTA_SEEN: std::sync::atomic::AtomicU64 = std::sync::atomic::AtomicU64::new(0);

fn run_sync_limited(bc: quiver_core::bytecode::Bytecode, b: &Builtins, max_quanta: u64) -> Result<(run::RunOutcome, Option<run::Exec>), String> {
    use quiver_core::compatibility::{CompatibilityInput, compute_canonical_tuples, compute_param_compatibility, compute_type_compatibility};
    use quiver_core::executor::ProgramUpdate;
    let entry = bc.entry.ok_or("no entry")?;
    let mut ex = run::Exec::new(b.clone(), false, 0);
    let input = CompatibilityInput { types: &bc.types, tuples: &bc.tuples, functions: &bc.functions, builtins: &bc.builtins, resource_names: &bc.resources };
    let type_compatibility = compute_type_compatibility(&input);
    let canonical_tuples = compute_canonical_tuples(&bc.tuples);
    let (function_param_compatibility, builtin_param_compatibility) = compute_param_compatibility(&input);
    ex.update_program(ProgramUpdate {
        constants: bc.constants,
        functions: bc.functions,
        tuples: bc.tuples[2..].to_vec(),
        types: bc.types,
        builtins: bc.builtins,
        resources: bc.resources,
        type_compatibility,
        function_param_compatibility,
        builtin_param_compatibility,
        canonical_tuples,
    });
    ex.spawn_process(0, Some(entry), vec![], quiver_core::value::Value::nil(), vec![], false).map_err(|e| format!("spawn: {e:?}"))?;
    for q in 0..max_quanta {
        MAX_QUANTA_SEEN.fetch_max(q, std::sync::atomic::Ordering::Relaxed);
        let _ = ex.step(1000, 0);
        let Some(p) = ex.get_process(0) else { return Err("process disappeared".into()) };
        if let Some(r) = &p.result {
            return Ok(match r {
                Ok(v) => {
                    let v = v.clone();
                    (run::RunOutcome::Value(v), Some(ex))
                }
                Err(e) => (run::RunOutcome::Error(e.clone()), None),
            });
        }
    }
    Err(format!("no result after {max_quanta} scheduler quanta of 1000 units (divergence?)"))
}

fn run_impl(src: &str, n_ops: usize, modules: &HashMap<Vec<String>, String>, b: &Builtins) -> ImplRun {
    let unit = match run::compile_source(src, modules, b) {
        Ok(u) => u,
        Err(e) => return ImplRun { fields: Err(format!("front-end: {e:?}")) },
    };
    let bc = unit.program.to_bytecode(Some(unit.entry));
    let (out, ex) = match qverif::catch(|| run_sync_limited(bc.clone(), b, 5000 + 300 * n_ops as u64 + 2 * (n_ops * n_ops) as u64)) {
        Ok(Ok(x)) => x,
        Ok(Err(e)) => return ImplRun { fields: Err(format!("run: {e}")) },
        Err(p) => (run::RunOutcome::Panic(p), None),
    };
    let c = run::canon_outcome(&out, ex.as_ref(), &bc);
    match parse_canon(&c) {
        Some(CV::Tup(_, fs)) => ImplRun { fields: Ok(fs) },
        _ => ImplRun { fields: Err(format!("result is not a tuple: {}", c.chars().take(200).collect::<String>())) },
    }
}

/// Which way a history is driven through the real system.
/// * sync: ONE program on the sync executor returning a tuple of everything;
/// * session: the same history typed line by line into a `Repl` (persistent process 0 of a real
///   `Environment` + `Worker`, driven by the deterministic simulator `qverif::sim`): every version
///   and many keys are REPL variables carried across lines, every observation is the result of its
///   own line (extracted to the environment and canonicalised there), each line is compiled against
///   the bindings of the earlier ones.
static SESSION: std::sync::atomic::AtomicBool = std::sync::atomic::AtomicBool::new(false);

fn session_mode() -> bool {
    SESSION.load(std::sync::atomic::Ordering::Relaxed)
}

/// The lines of the session of a history: (line, is an observation whose value is a field).
fn session_lines(h: &History) -> Vec<(String, bool)> {
    let mut lines: Vec<(String, bool)> = vec![("d0 = %dict.new".into(), false)];
    let mut versions = 1usize;
    let mut nk = 0usize;
    // a key occurrence: written in place, or (every other occurrence with a non-literal spelling, and
    // every third literal) bound to a variable on a line of its own first
    let mut key = |lines: &mut Vec<(String, bool)>, k: &Key, sp: &Sp, i: usize, j: usize| -> String {
        let e = spell_key(k, sp);
        let bind = match sp {
            Sp::Lit | Sp::Pretty => (i + j) % 3 == 0,
            _ => (i + j) % 2 == 0,
        };
        if bind {
            nk += 1;
            lines.push((format!("k{nk} = {e}"), false));
            format!("k{nk}")
        } else {
            e
        }
    };
    for (i, op) in h.ops.iter().enumerate() {
        match op {
            Op::Put(v, k, x) => {
                let ke = key(&mut lines, k, &h.sp(i, 0), i, 0);
                lines.push((format!("d{versions} = [d{v}, {ke}, {x}] %dict.put"), false));
                versions += 1;
            }
            Op::Remove(v, k) => {
                let ke = key(&mut lines, k, &h.sp(i, 0), i, 0);
                lines.push((format!("d{versions} = [d{v}, {ke}] %dict.remove"), false));
                versions += 1;
            }
            Op::From(ps) => {
                let mut s = String::new();
                for (j, (k, x)) in ps.iter().enumerate() {
                    let ke = key(&mut lines, k, &h.sp(i, j), i, j);
                    s.push_str(&format!("Cons[[{ke}, {x}], "));
                }
                s.push_str("Nil");
                for _ in ps {
                    s.push(']');
                }
                lines.push((format!("d{versions} = {s} %dict.from"), false));
                versions += 1;
            }
            Op::Merge(a, b) => {
                lines.push((format!("d{versions} = [d{a}, d{b}] %dict.merge"), false));
                versions += 1;
            }
            Op::Get(v, k) => {
                let ke = key(&mut lines, k, &h.sp(i, 0), i, 0);
                lines.push((format!("[d{v}, {ke}] %dict.get"), true));
            }
            Op::Has(v, k) => {
                let ke = key(&mut lines, k, &h.sp(i, 0), i, 0);
                lines.push((format!("[d{v}, {ke}] %dict.has?"), true));
            }
            Op::Count(v) => lines.push((format!("d{v} %dict.count"), true)),
            Op::Entries(v) => lines.push((format!("d{v} %dict.entries"), true)),
            Op::Keys(v) => lines.push((format!("d{v} %dict.keys"), true)),
            Op::Values(v) => lines.push((format!("d{v} %dict.values"), true)),
            Op::IterCount(v) => lines.push((format!("d{v} %dict.iter %iter.count"), true)),
        }
    }
    for v in 0..versions {
        lines.push((format!("d{v}"), true));
    }
    for v in 0..versions {
        lines.push((format!("d{v} %dict.entries"), true));
    }
    lines
}

fn run_session(h: &History, modules: &HashMap<Vec<String>, String>, b: &Builtins) -> ImplRun {
    use qverif::sim::{EvalOutcome, Sim, eval_in};
    let lines = session_lines(h);
    let r = qverif::catch(|| {
        let mut sim = Sim::new(1, None, b.clone(), false).with_repl(modules.clone());
        let mut fields = vec![];
        for (n, (line, is_obs)) in lines.iter().enumerate() {
            let out = eval_in(&mut sim, line, None, 200_000);
            match out {
                EvalOutcome::Value(c) => {
                    if *is_obs {
                        match parse_canon(&c) {
                            Some(v) => fields.push(v),
                            None => return Err(format!("run: line {n} `{line}`: unparsable value {c}")),
                        }
                    } else if c != "t(Ok;)" {
                        return Err(format!("run: line {n} `{line}` (a binding) evaluated to {c}, not Ok"));
                    }
                }
                EvalOutcome::Rejected(e) => return Err(format!("front-end: line {n} `{line}`: {e}")),
                other => return Err(format!("run: line {n} `{line}`: {}", other.render())),
            }
        }
        Ok(fields)
    });
    match r {
        Ok(f) => ImplRun { fields: f },
        Err(p) => ImplRun { fields: Err(format!("run: panic in the session: {}", p.lines().next().unwrap_or(""))) },
    }
}

type HostMap = BTreeMap<Key, i64>;

/// What the finite-map specification says each observation must be (as sets where the module
/// leaves the order unspecified).
#[derive(Debug, PartialEq, Eq)]
enum Expect {
    Val(Option<i64>),
    Has(bool),
    Count(usize),
    Entries(BTreeSet<(Key, i64)>),
    Keys(BTreeSet<Key>),
    Values(Vec<i64>),
}

fn host_run(h: &History) -> (Vec<Expect>, Vec<HostMap>) {
    let mut vers: Vec<HostMap> = vec![BTreeMap::new()];
    let mut obs = vec![];
    for op in &h.ops {
        match op {
            Op::Put(v, k, x) => {
                let mut m = vers[*v].clone();
                m.insert(k.clone(), *x);
                vers.push(m);
            }
            Op::Remove(v, k) => {
                let mut m = vers[*v].clone();
                m.remove(k);
                vers.push(m);
            }
            Op::From(ps) => {
                let mut m = BTreeMap::new();
                for (k, x) in ps {
                    m.insert(k.clone(), *x);
                }
                vers.push(m);
            }
            Op::Merge(a, b) => {
                let mut m = vers[*a].clone();
                for (k, x) in &vers[*b] {
                    m.insert(k.clone(), *x);
                }
                vers.push(m);
            }
            Op::Get(v, k) => obs.push(Expect::Val(vers[*v].get(k).copied())),
            Op::Has(v, k) => obs.push(Expect::Has(vers[*v].contains_key(k))),
            Op::Count(v) | Op::IterCount(v) => obs.push(Expect::Count(vers[*v].len())),
            Op::Entries(v) => obs.push(Expect::Entries(vers[*v].iter().map(|(k, x)| (k.clone(), *x)).collect())),
            Op::Keys(v) => obs.push(Expect::Keys(vers[*v].keys().cloned().collect())),
            Op::Values(v) => {
                let mut xs: Vec<i64> = vers[*v].values().copied().collect();
                xs.sort();
                obs.push(Expect::Values(xs));
            }
        }
    }
    (obs, vers)
}

fn oracle_field(e: &Expect, got: &CV) -> Result<(), String> {
    let bad = |what: &str| Err(format!("{what}; the implementation returned {}", render_cv(got).chars().take(300).collect::<String>()));
    match e {
        Expect::Val(None) => {
            if *got == CV::Tup("_".into(), vec![]) { Ok(()) } else { bad("the key is absent, get must be nil") }
        }
        Expect::Val(Some(x)) => {
            if *got == CV::Int(*x as i128) { Ok(()) } else { bad(&format!("the value most recently stored is {x}")) }
        }
        Expect::Has(true) => {
            if *got == CV::Tup("Ok".into(), vec![]) { Ok(()) } else { bad("the key is present, has? must be Ok") }
        }
        Expect::Has(false) => {
            if *got == CV::Tup("_".into(), vec![]) { Ok(()) } else { bad("the key is absent, has? must be nil") }
        }
        Expect::Count(n) => {
            if *got == CV::Int(*n as i128) { Ok(()) } else { bad(&format!("the dict holds {n} entries")) }
        }
        Expect::Entries(want) => {
            let Some(es) = cv_list(got) else { return bad("entries is not a list") };
            let mut have = BTreeSet::new();
            for e in &es {
                let Some(p) = cv_entry(e) else { return bad("malformed entry") };
                if !have.insert(p) {
                    return bad("entries lists an entry twice");
                }
            }
            if es.len() != want.len() || have != *want { bad(&format!("the entry set must be {} pairs of the host map", want.len())) } else { Ok(()) }
        }
        Expect::Keys(want) => {
            let Some(es) = cv_list(got) else { return bad("keys is not a list") };
            let mut have = BTreeSet::new();
            for e in &es {
                let Some(k) = cv_key(e) else { return bad("malformed key") };
                if !have.insert(k) {
                    return bad("keys lists a key twice");
                }
            }
            if have != *want { bad("the key set differs from the host map") } else { Ok(()) }
        }
        Expect::Values(want) => {
            let Some(es) = cv_list(got) else { return bad("values is not a list") };
            let mut have = vec![];
            for e in &es {
                let CV::Int(i) = e else { return bad("malformed value") };
                have.push(*i as i64);
            }
            have.sort();
            if have != *want { bad("the value multiset differs from the host map") } else { Ok(()) }
        }
    }
}

/// Model answers → canonical field strings, in the order of the program's result tuple.
fn model_fields(h: &History, model: &mut Model) -> Result<Vec<String>, String> {
    let mut reqs = vec!["reset".to_string()];
    for op in &h.ops {
        reqs.push(op.model_req());
    }
    let versions = 1 + h.ops.iter().filter(|o| o.creates()).count();
    for v in 0..versions {
        reqs.push(format!("tree {v}"));
    }
    for v in 0..versions {
        reqs.push(format!("entries {v}"));
    }
    let ans = model.ask_all(&reqs);
    let mut fields = vec![];
    let mut ver = 1usize;
    for (op, a) in h.ops.iter().zip(ans.iter().skip(1)) {
        if op.creates() {
            if *a != format!("ok {ver}") {
                return Err(format!("model answered `{a}` to `{}`", op.model_req()));
            }
            ver += 1;
        } else {
            fields.push(match a.as_str() {
                "nil" => "t(_;)".to_string(),
                "ok" => "t(Ok;)".to_string(),
                "bad-request" | "fuel-out" => return Err(format!("model answered `{a}` to `{}`", op.model_req())),
                other => other.to_string(),
            });
        }
    }
    for a in ans.iter().skip(1 + h.ops.len()) {
        if a == "bad-request" {
            return Err("model answered bad-request to tree/entries".into());
        }
        fields.push(a.clone());
    }
    Ok(fields)
}

struct Verdict {
    /// (signature, message, failing_input_found)
    failure: Option<(String, String, bool)>,
    trees: Vec<CV>,
}

fn field_label(h: &History, idx: usize, n_obs: usize, versions: usize) -> String {
    if idx < n_obs {
        let op = h.ops.iter().filter(|o| !o.creates()).nth(idx).unwrap();
        format!("observation #{idx} `{}`", op.model_req())
    } else if idx < n_obs + versions {
        format!("final structural value of version {}", idx - n_obs)
    } else {
        format!("final entries of version {}", idx - n_obs - versions)
    }
}

fn judge(h: &History, modules: &HashMap<Vec<String>, String>, b: &Builtins, model: &mut Model) -> Verdict {
    let mut v = judge_path(h, modules, b, model);
    if session_mode() {
        if let Some((sig, msg, found)) = v.failure.take() {
            v.failure = Some((format!("path=session {sig}"), format!("[REPL session, line by line] {msg}"), found));
        }
    }
    v
}

fn judge_path(h: &History, modules: &HashMap<Vec<String>, String>, b: &Builtins, model: &mut Model) -> Verdict {
    let (src, n_obs, versions) = program(h);
    let imp = if session_mode() { run_session(h, modules, b) } else { run_impl(&src, h.ops.len(), modules, b) };
    let (expect, host_vers) = host_run(h);
    let fields = match imp.fields {
        Ok(f) => f,
        Err(e) => {
            let class = if e.starts_with("front-end") { "front-end" } else { "run" };
            return Verdict {
                failure: Some((
                    format!("kind=impl-failure class={class}"),
                    format!("a well-typed history over %dict does not evaluate to its observation tuple: {e}"),
                    true,
                )),
                trees: vec![],
            };
        }
    };
    if fields.len() != n_obs + 2 * versions {
        return Verdict {
            failure: Some(("kind=impl-failure class=arity".into(), format!("result tuple has {} fields, expected {}", fields.len(), n_obs + 2 * versions), true)),
            trees: vec![],
        };
    }
    let trees: Vec<CV> = fields[n_obs..n_obs + versions].to_vec();
    // --- oracle on the implementation (independent of the model) ---
    for (i, e) in expect.iter().enumerate() {
        if let Err(m) = oracle_field(e, &fields[i]) {
            let op = h.ops.iter().filter(|o| !o.creates()).nth(i).unwrap();
            return Verdict {
                failure: Some((format!("kind=oracle op={}", op.name()), format!("{}: {m}", field_label(h, i, n_obs, versions)), true)),
                trees,
            };
        }
    }
    for v in 0..versions {
        let want: BTreeSet<(Key, i64)> = host_vers[v].iter().map(|(k, x)| (k.clone(), *x)).collect();
        if let Err(m) = oracle_field(&Expect::Entries(want.clone()), &fields[n_obs + versions + v]) {
            return Verdict {
                failure: Some(("kind=oracle op=persistence".into(), format!("version {v} observed after all later operations: {m}"), true)),
                trees,
            };
        }
        let mut found = vec![];
        match check_wf(&fields[n_obs + v], 0, 0, true, &mut found) {
            Err(m) => {
                // a malformed trie is not yet a wrong answer; look for one among all keys of the history
                return Verdict {
                    failure: Some(("kind=wf".into(), format!("structural value of version {v} violates the trie invariant: {m}"), false)),
                    trees,
                };
            }
            Ok(()) => {
                let have: BTreeSet<(Key, i64)> = found.into_iter().collect();
                if have != want {
                    return Verdict {
                        failure: Some(("kind=oracle op=tree-contents".into(), format!("the trie of version {v} holds {} entries, the host map {}", have.len(), want.len()), true)),
                        trees,
                    };
                }
            }
        }
    }
    // --- correspondence with the model ---
    match model_fields(h, model) {
        Err(e) => Verdict { failure: Some(("kind=model-failure".into(), e, false)), trees },
        Ok(mf) => {
            for (i, m) in mf.iter().enumerate() {
                let got = render_cv(&fields[i]);
                if *m != got {
                    let what = if i < n_obs {
                        let op = h.ops.iter().filter(|o| !o.creates()).nth(i).unwrap();
                        format!("op={}", op.name())
                    } else if i < n_obs + versions {
                        "op=tree".to_string()
                    } else {
                        "op=final-entries".to_string()
                    };
                    return Verdict {
                        failure: Some((
                            format!("kind=correspondence {what}"),
                            format!(
                                "{}: implementation `{}` but model M-Dict `{}`",
                                field_label(h, i, n_obs, versions),
                                got.chars().take(400).collect::<String>(),
                                m.chars().take(400).collect::<String>()
                            ),
                            false,
                        )),
                        trees,
                    };
                }
            }
            Verdict { failure: None, trees }
        }
    }
}

/// Shrink a failing history: drop operations (renumbering versions) while the same signature fails.
fn shrink(h: &History, sig: &str, modules: &HashMap<Vec<String>, String>, b: &Builtins, model: &mut Model) -> History {
    let mut cur = h.clone();
    let mut budget = 150;
    let t0 = std::time::Instant::now();
    loop {
        let mut progressed = false;
        let mut i = cur.ops.len();
        while i > 0 && budget > 0 && t0.elapsed().as_secs() < 25 {
            i -= 1;
            if let Some(c) = drop_op(&cur, i) {
                budget -= 1;
                let v = judge(&c, modules, b, model);
                if v.failure.as_ref().map(|f| f.0.as_str()) == Some(sig) {
                    cur = c;
                    progressed = true;
                }
            }
        }
        if !progressed || budget == 0 || t0.elapsed().as_secs() >= 25 {
            return cur;
        }
    }
}

/// Remove operation `i`; if it created version `n`, later references to `n` go to its source
/// version and higher numbers shift down.
fn drop_op(h: &History, i: usize) -> Option<History> {
    let mut ops = h.ops.clone();
    let op = ops.remove(i);
    let mut spell = h.spell.clone();
    if i < spell.len() {
        spell.remove(i);
    }
    if op.creates() {
        let n = 1 + h.ops[..i].iter().filter(|o| o.creates()).count();
        let src = match &op {
            Op::Put(v, ..) | Op::Remove(v, ..) | Op::Merge(v, _) => *v,
            _ => 0,
        };
        let f = |v: &mut usize| {
            if *v == n {
                *v = src
            } else if *v > n {
                *v -= 1
            }
        };
        for o in ops.iter_mut().skip(i) {
            match o {
                Op::Put(v, ..) | Op::Remove(v, ..) | Op::Get(v, ..) | Op::Has(v, ..) | Op::Count(v) | Op::Entries(v) | Op::Keys(v) | Op::Values(v) | Op::IterCount(v) => f(v),
                Op::Merge(a, b2) => {
                    f(a);
                    f(b2);
                }
                Op::From(_) => {}
            }
        }
    }
    Some(History { kind: h.kind.clone(), ops, spell })
}

/// All keys mentioned by a history.
fn history_keys(h: &History) -> Vec<Key> {
    let mut ks = BTreeSet::new();
    for o in &h.ops {
        match o {
            Op::Put(_, k, _) | Op::Remove(_, k) | Op::Get(_, k) | Op::Has(_, k) => {
                ks.insert(k.clone());
            }
            Op::From(ps) => {
                for (k, _) in ps {
                    ks.insert(k.clone());
                }
            }
            _ => {}
        }
    }
    ks.into_iter().collect()
}

/// The model and the implementation disagree (or the trie is malformed) but every observation of the
/// history is still right: search the neighbourhood for a wrong ANSWER — on every version, read every
/// key of the history, count, list; then put / remove every key and read again.
fn neighbourhood(h: &History) -> Vec<History> {
    let keys = history_keys(h);
    let versions = 1 + h.ops.iter().filter(|o| o.creates()).count();
    let mut out = vec![];
    // (a) read everything everywhere
    let mut a = h.clone();
    for v in 0..versions {
        for k in &keys {
            a.ops.push(Op::Get(v, k.clone()));
        }
        a.ops.push(Op::Count(v));
    }
    out.push(History::cycled(a.kind.clone(), a.ops, &h.spell));
    // (b) per version: update every key, then read everything
    for v in (0..versions).rev().take(6) {
        let mut b = h.clone();
        let mut next = versions;
        let mut val = 900_000;
        for k in &keys {
            for remove in [false, true] {
                b.ops.push(if remove { Op::Remove(v, k.clone()) } else { Op::Put(v, k.clone(), val) });
                val += 1;
                for k2 in &keys {
                    b.ops.push(Op::Get(next, k2.clone()));
                }
                b.ops.push(Op::Count(next));
                next += 1;
            }
        }
        if b.ops.len() <= 400 {
            out.push(History::cycled(b.kind.clone(), b.ops, &h.spell));
        }
    }
    out
}

// ---------------------------------------------------------------------------------------------
// shape of std/dict.qv: regenerated table vs the table the model was written against
// ---------------------------------------------------------------------------------------------
/// Rows of a `DictShape.lean` file: (section.name#occurrence, normalised row text), in file order,
/// plus the two hash constants.
fn shape_rows(text: &str) -> Vec<(String, String)> {
    let mut rows = vec![];
    let mut section = "types";
    let mut seen: HashMap<String, usize> = HashMap::new();
    for line in text.lines() {
        let t = line.trim();
        if t.starts_with("defs :=") {
            section = "defs";
        } else if t.starts_with("exports :=") {
            section = "exports";
        }
        let body = t.split("  -- ").next().unwrap_or(t).trim().trim_end_matches(',').trim();
        let name = if let Some(rest) = body.strip_prefix("{ name := \"") {
            rest.split('"').next().map(|s| s.to_string())
        } else if section == "types" && body.starts_with("(\"") {
            body[2..].split('"').next().map(|s| format!("'{s}"))
        } else if let Some(rest) = body.strip_prefix("def ") {
            // def hashOffset32 / modelHashOffset32 : Nat := N
            let n = rest.split_whitespace().next().unwrap_or("");
            let low = n.trim_start_matches("model").to_lowercase();
            if low.starts_with("hash") {
                rows.push((format!("const.{low}"), body.rsplit(":=").next().unwrap_or("").trim().to_string()));
            }
            None
        } else {
            None
        };
        if let Some(n) = name {
            let k = format!("{section}.{n}");
            let c = seen.entry(k.clone()).or_insert(0);
            *c += 1;
            let key = if *c > 1 { format!("{k}#{c}") } else { k };
            rows.push((key, body.to_string()));
        }
    }
    rows
}

/// Compare the regenerated shape of std/dict.qv with the hand-maintained one and NAME what
/// changed (the kernel-checked statement is `C19.dict_shape_matches`; this is its explanation).
fn check_shape(ev: &mut Ev) {
    let dir = qverif::lean_dir();
    let (Ok(generated), Ok(model)) = (
        std::fs::read_to_string(format!("{dir}/QuiverModel/Generated/DictShape.lean")),
        std::fs::read_to_string(format!("{dir}/QuiverModel/Core/DictShape.lean")),
    ) else {
        ev.hit("shape:files-missing");
        return;
    };
    let g = shape_rows(&generated);
    let m = shape_rows(&model);
    ev.set_extra("dict_shape_rows", json!({"generated": g.len(), "model": m.len()}));
    let gm: BTreeMap<&String, &String> = g.iter().map(|(k, v)| (k, v)).collect();
    let mm: BTreeMap<&String, &String> = m.iter().map(|(k, v)| (k, v)).collect();
    let report = |ev: &mut Ev, name: &str, what: String, grow: Option<&String>, mrow: Option<&String>| {
        ev.violation(
            &format!("kind=shape def={name}"),
            &format!("std/dict.qv no longer has the shape M-Dict was written against — {name}: {what}"),
            json!({
                "broken": "theorem C19.dict_shape_matches (Generated/DictShape.lean, regenerated from std/dict.qv by gen_dictshape, = QM.Dict.modelShape): the model is a hand translation of the OLD source; every C19.* theorem is about that model",
                "definition": name,
                "what": what,
                "source_row": grow,
                "model_row": mrow,
            }),
            false,
        );
    };
    let mut differs = false;
    for (k, v) in &gm {
        match mm.get(k) {
            None => {
                differs = true;
                report(ev, k, "is in the source but not in the model's table (new definition / export / type)".into(), Some(v), None);
            }
            Some(w) if w != v => {
                differs = true;
                // say which column moved
                let col = ["typeParams", "param", "branches", "callees", "ints", "skeleton"]
                    .iter()
                    .find(|c| {
                        let f = |r: &str| r.split(&format!("{c} := ")).nth(1).map(|x| x.split(", ").next().unwrap_or("").to_string());
                        let whole = |r: &str| r.split(&format!("{c} := ")).nth(1).map(|x| x.to_string());
                        if **c == "skeleton" { whole(v) != whole(w) } else { f(v) != f(w) && whole(v) != whole(w) }
                    })
                    .copied()
                    .unwrap_or("row");
                report(ev, k, format!("differs from the model's table (first differing column: {col})"), Some(v), Some(w));
            }
            _ => {}
        }
    }
    for (k, w) in &mm {
        if !gm.contains_key(k) {
            differs = true;
            report(ev, k, "is in the model's table but no longer in the source".into(), None, Some(w));
        }
    }
    if !differs && g.iter().map(|x| &x.0).ne(m.iter().map(|x| &x.0)) {
        report(ev, "order", "the definitions appear in a different order".into(), None, None);
    }
    ev.hit(if differs { "shape:differs" } else { "shape:matches" });
}

fn history_json(h: &History) -> serde_json::Value {
    json!({
        "kind": h.kind,
        "ops": h.ops.iter().map(|o| o.to_json()).collect::<Vec<_>>(),
        "spell": h.spell.iter().map(|v| v.iter().map(|s| s.tok()).collect::<Vec<_>>().join(" ")).collect::<Vec<_>>(),
    })
}

/// `spell` is optional in corpus files: missing entries cycle through every applicable spelling.
fn history_from_json(j: &serde_json::Value) -> Option<History> {
    let ops = j["ops"].as_array()?.iter().map(|l| parse_op(l.as_str()?)).collect::<Option<Vec<_>>>()?;
    let keep: Vec<Vec<Sp>> = match j["spell"].as_array() {
        Some(a) => a
            .iter()
            .map(|l| l.as_str().unwrap_or("").split_whitespace().map(|t| Sp::parse(t)).collect::<Option<Vec<_>>>())
            .collect::<Option<Vec<_>>>()?,
        None => vec![],
    };
    Some(History::cycled(j["kind"].as_str().unwrap_or("corpus").to_string(), ops, &keep))
}

fn main() {
    qverif::quiet_panics();
    let opts = Opts::parse();
    let mut ev = Ev::new("C19", &opts);
    ev.rule = "one case = one operation history (4..=N operations over a numbered store of dict versions, \
               key pool drawn from random / Str-twin / fragment-colliding / fully colliding sets) run as one \
               Quiver program on the real %dict and on the model; non-trivial when the history builds at \
               least one version with ≥ 2 entries and makes ≥ 1 observation; distinct by the operation list"
        .into();
    let b = run::builtins();
    let mut modules: HashMap<Vec<String>, String> = HashMap::new();
    for (name, text) in qverif::corpus::std_modules() {
        modules.insert(vec![name], text);
    }
    let mut model = Model::spawn(opts.model.as_ref().expect("--model"));

    // the host FNV must be the model's and the implementation's (checked on trees below as well)
    for k in [Key::Bin(vec![]), Key::Bin(vec![0x0a, 0x59, 0x53, 0x80, 0x16]), Key::Str(b"alpha".to_vec())] {
        let m = model.ask(&format!("hash {}", k.tok()));
        assert_eq!(m, fnv1a32(k.bytes()).to_string(), "model FNV differs from host FNV");
    }

    let mut reported: BTreeSet<String> = BTreeSet::new();
    let mut report = |ev: &mut Ev, h: &History, sig: &str, msg: &str, found: bool, modules: &HashMap<Vec<String>, String>, b: &Builtins, model: &mut Model| {
        // shrink only the first history of each signature (Ev keeps one replay per signature)
        if !reported.insert(sig.to_string()) || reported.len() > 8 {
            ev.violation(sig, msg, json!({"history": history_json(h)}), found);
            return;
        }
        let mut h = h.clone();
        let mut sig = sig.to_string();
        if !found {
            // look for a concrete wrong answer near the disagreement
            'search: for cand in neighbourhood(&shrink(&h, &sig, modules, b, model)) {
                if let Some((s2, _, true)) = judge(&cand, modules, b, model).failure {
                    h = cand;
                    sig = s2;
                    break 'search;
                }
            }
        }
        let (h, sig) = (&h, sig.as_str());
        let small = shrink(h, sig, modules, b, model);
        let v = judge(&small, modules, b, model);
        let (msg2, found2) = match v.failure {
            Some((s, m, f)) if s == sig => (m, f),
            _ => (msg.to_string(), found),
        };
        let src = if session_mode() { session_lines(&small).into_iter().map(|l| l.0).collect::<Vec<_>>().join("\n") } else { program(&small).0 };
        let broken = if found2 {
            json!(null)
        } else if sig.ends_with("kind=wf") {
            json!("theorems C19.put_wf / C19.remove_wf (trie invariant incl. canonical shape) do not hold of the tree built by std/dict.qv; correspondence model<->impl on the structural value")
        } else {
            json!(format!("correspondence model<->impl on std/dict.qv ({sig}); theorems C19.* are about the model"))
        };
        ev.violation(
            sig,
            &format!("{msg2}  [history: {}]", small.ops.iter().map(|o| o.model_req()).collect::<Vec<_>>().join("; ")),
            json!({"history": history_json(&small), "path": if session_mode() { "session" } else { "sync" }, "program": src, "broken": broken, "original_len": h.ops.len()}),
            found2,
        );
    };

    // replay mode
    if let Some(p) = &opts.replay {
        let j: serde_json::Value = serde_json::from_str(&std::fs::read_to_string(p).unwrap()).unwrap();
        let h = history_from_json(&j["replay"]["history"]).or_else(|| history_from_json(&j)).expect("history in replay file");
        if j["replay"]["path"].as_str() == Some("session") || opts.has_flag("--session") {
            SESSION.store(true, std::sync::atomic::Ordering::Relaxed);
            println!("{}", session_lines(&h).into_iter().map(|l| l.0).collect::<Vec<_>>().join("\n"));
        } else {
            println!("{}", program(&h).0);
        }
        let v = judge(&h, &modules, &b, &mut model);
        match v.failure {
            Some((s, m, f)) => {
                println!("FAILS signature={s} failing_input_found={f}: {m}");
                std::process::exit(1);
            }
            None => {
                println!("passes");
                std::process::exit(0);
            }
        }
    }

    // 0. the shape of the live std/dict.qv against the table the model was written against
    check_shape(&mut ev);

    // 1. regression corpus first
    let corpus_dir = "/verif/corpus/C19";
    let mut files: Vec<_> = std::fs::read_dir(corpus_dir).map(|d| d.filter_map(|e| e.ok()).map(|e| e.path()).collect()).unwrap_or_default();
    files.sort();
    for f in files {
        if f.extension().and_then(|e| e.to_str()) != Some("json") {
            continue;
        }
        let Ok(text) = std::fs::read_to_string(&f) else { continue };
        let Ok(j) = serde_json::from_str::<serde_json::Value>(&text) else { continue };
        let Some(h) = history_from_json(&j) else {
            eprintln!("corpus file {} unreadable", f.display());
            continue;
        };
        for session in [false, true] {
            SESSION.store(session, std::sync::atomic::Ordering::Relaxed);
            let v = judge(&h, &modules, &b, &mut model);
            ev.case(&(&h, session), true);
            ev.hit(if session { "corpus:session" } else { "corpus" });
            if let Some((sig, msg, found)) = v.failure {
                report(&mut ev, &h, &sig, &format!("corpus {}: {msg}", f.file_name().unwrap().to_string_lossy()), found, &modules, &b, &mut model);
            }
        }
        SESSION.store(false, std::sync::atomic::Ordering::Relaxed);
    }

    // 2. generated histories
    let ks = find_key_sets(opts.seed, opts.tier.pick(9, 30));
    ev.set_extra("key_search", json!({
        "ms": ks.search_ms as u64,
        "fragment_groups_by_shared_low_bits": ks.frag.iter().enumerate().map(|(j, g)| json!({"bits": 5 * (j + 1), "groups": g.len(), "max_group": g.iter().map(|x| x.len()).max().unwrap_or(0)})).collect::<Vec<_>>(),
        "full_collision_groups": ks.full.iter().map(|g| g.len()).collect::<Vec<_>>(),
    }));
    let n_hist = opts.tier.pick(340u64, 10_000u64);
    let session_every = opts.tier.pick(12u64, 6u64);
    let max_ops = opts.tier.pick(60usize, 300usize);
    let t0 = std::time::Instant::now();
    let budget_s = opts.tier.pick(45u64, 1500u64);
    let mut max_depth = 0usize;
    let mut max_bucket = 0usize;
    for i in 0..n_hist {
        if t0.elapsed().as_secs() > budget_s {
            ev.hit("stopped:time-budget");
            break;
        }
        if ev.oracle_failures + ev.model_disagreements >= 40 {
            ev.hit("stopped:40-failures");
            break;
        }
        let mut r = Rng::for_case(opts.seed ^ 0xC19, i);
        let m = if i % 3 == 0 { max_ops } else { 4 + (max_ops - 4) / 2 };
        let h = if i % 25 == 24 { gen_bulk(&mut r, &ks, opts.tier.pick(120, 400)) } else { gen_history(&mut r, &ks, m) };
        let v = judge(&h, &modules, &b, &mut model);
        let (_, host_vers) = host_run(&h);
        let nontrivial = host_vers.iter().any(|m| m.len() >= 2) && h.ops.iter().any(|o| !o.creates());
        ev.case(&h, nontrivial);
        ev.hit(&format!("pool:{}", h.kind));
        ev.add("ops", h.ops.len() as u64);
        {
            // how often is the SAME key content presented through DIFFERENT construction paths?
            let mut seen: BTreeMap<Key, BTreeSet<&'static str>> = BTreeMap::new();
            for (oi, o) in h.ops.iter().enumerate() {
                for (j, k) in op_keys(o).into_iter().enumerate() {
                    let sp = h.sp(oi, j);
                    ev.hit(&format!("spelling:{}", sp.class()));
                    seen.entry(k.clone()).or_default().insert(sp.class());
                }
            }
            if seen.values().any(|c| c.len() >= 2) {
                ev.hit("history:some-key-in-2+-representations");
            }
            if seen.iter().any(|(k, c)| c.contains("zeroed(bin.new)") && c.len() >= 2 && k.bytes().len() != 1) {
                ev.hit("history:zero-filled-key-also-in-another-representation");
            }
        }
        for o in &h.ops {
            ev.hit(&format!("op:{}", o.name()));
            match o {
                Op::Put(v, k, _) => {
                    if host_vers[*v].contains_key(k) {
                        ev.hit("put:replace")
                    } else {
                        ev.hit("put:insert")
                    }
                }
                Op::Remove(v, k) => {
                    if host_vers[*v].contains_key(k) {
                        ev.hit("remove:present")
                    } else {
                        ev.hit("remove:absent")
                    }
                }
                Op::Get(v, k) => {
                    if host_vers[*v].contains_key(k) {
                        ev.hit("get:present")
                    } else {
                        ev.hit("get:absent")
                    }
                }
                _ => {}
            }
        }
        // uses of a version that is not the newest one (persistence)
        let mut ver = 1usize;
        for o in &h.ops {
            let used = match o {
                Op::Put(v, ..) | Op::Remove(v, ..) | Op::Get(v, ..) | Op::Has(v, ..) | Op::Count(v) | Op::Entries(v) | Op::Keys(v) | Op::Values(v) | Op::IterCount(v) | Op::Merge(v, _) => Some(*v),
                Op::From(_) => None,
            };
            if let Some(u) = used {
                if u + 1 < ver {
                    ev.hit("uses-old-version");
                }
            }
            if o.creates() {
                ver += 1;
            }
        }
        for t in &v.trees {
            let d = tree_depth(t);
            max_depth = max_depth.max(d);
            ev.hit(&format!("tree-depth:{d}"));
            let c = count_nodes(t, "Collision");
            if c > 0 {
                ev.hit("tree:has-collision-bucket");
            }
            fn buckets(t: &CV, m: &mut usize) {
                if let CV::Tup(n, fs) = t {
                    if n == "Collision" && fs.len() == 2 {
                        *m = (*m).max(cv_list(&fs[1]).map(|l| l.len()).unwrap_or(0));
                    } else if n == "Node" && fs.len() == 2 {
                        for c in cv_list(&fs[1]).unwrap_or_default() {
                            buckets(&c, m);
                        }
                    }
                }
            }
            buckets(t, &mut max_bucket);
        }
        ev.sample_sparse(i, 97, || json!({"history": history_json(&h), "final_tree": v.trees.last().map(render_cv)}));
        if let Some((sig, msg, found)) = v.failure {
            report(&mut ev, &h, &sig, &msg, found, &modules, &b, &mut model);
        }
        // the same history once more, typed line by line into a REPL session
        if i % session_every == 1 && h.ops.len() <= 40 {
            SESSION.store(true, std::sync::atomic::Ordering::Relaxed);
            let ts = std::time::Instant::now();
            let v = judge(&h, &modules, &b, &mut model);
            ev.case(&(&h, true), nontrivial);
            ev.hit("path:session");
            ev.add("session:lines", session_lines(&h).len() as u64);
            ev.add("session:ms", ts.elapsed().as_millis() as u64);
            if let Some((sig, msg, found)) = v.failure {
                report(&mut ev, &h, &sig, &msg, found, &modules, &b, &mut model);
            }
            SESSION.store(false, std::sync::atomic::Ordering::Relaxed);
        }
    }
    ev.set_extra("max_scheduler_quanta_per_history", json!(MAX_QUANTA_SEEN.load(std::sync::atomic::Ordering::Relaxed) + 1));
    ev.set_extra("max_tree_depth", json!(max_depth));
    ev.set_extra("max_collision_bucket", json!(max_bucket));
    ev.set_extra("model_requests", json!(model.requests));
    std::process::exit(ev.finish());
}
