//! C20 — the num module computes exactly and propagates absence.
//!
//! Operand tuples (small, huge ≫ 64 bits, negative, zero, nil; integer, rational and
//! single-radical surd form; near-cancelling pairs, equal and different radicals) are evaluated
//! through the REAL compiled `%num` module: a Quiver program `n = %num, [ e1, e2, … ]` is compiled
//! with the real front end and run on the sync path; the result tuple is canonicalised with
//! `qverif::canon` and every component is compared
//!   (1) with the Lean model M-Num (`qm_c20`, the definitions the C20 theorems are about), and
//!   (2) with an independent exact reference on the host (big-integer fractions implemented here:
//!       cross-multiplication + gcd; Q(sqrt n) as pairs) — the oracle on the implementation —
//!   (3) plus algebraic laws on triples evaluated on the implementation's own results
//!       (commutativity, associativity, distributivity, inverses, order compatibility),
//!   and never a runtime error on canonical operands.
//! Many expressions are batched per program because every compile re-compiles the module.
use num_bigint::BigInt;
use num_integer::Integer;
use num_traits::{One, Signed, Zero};
use qverif::run::{self, Builtins, RunOutcome};
use qverif::{Ev, Model, Opts, Rng};
use serde_json::json;
use std::collections::HashMap;

// ---------------------------------------------------------------------------------------------
// values

#[derive(Clone, Debug, PartialEq, Eq, Hash)]
enum Co {
    Int(BigInt),
    Rat(BigInt, BigInt),
}

#[derive(Clone, Debug, PartialEq, Eq, Hash)]
enum Nm {
    Nil,
    Int(BigInt),
    Rat(BigInt, BigInt),
    Surd(Co, Co, BigInt),
}

fn qv_int(i: &BigInt) -> String {
    i.to_string()
}

impl Co {
    fn sx(&self) -> String {
        match self {
            Co::Int(z) => format!("(int {z})"),
            Co::Rat(n, d) => format!("(rat {n} {d})"),
        }
    }
    fn qv(&self) -> String {
        match self {
            Co::Int(z) => qv_int(z),
            Co::Rat(n, d) => format!("Rational[{}, {}]", qv_int(n), qv_int(d)),
        }
    }
    fn q(&self) -> Option<Q> {
        match self {
            Co::Int(z) => Some(Q::int(z.clone())),
            Co::Rat(n, d) => Q::new(n.clone(), d.clone()),
        }
    }
}

impl Nm {
    /// model request / answer syntax
    fn sx(&self) -> String {
        match self {
            Nm::Nil => "nil".into(),
            Nm::Int(z) => format!("(int {z})"),
            Nm::Rat(n, d) => format!("(rat {n} {d})"),
            Nm::Surd(a, b, n) => format!("(surd {} {} {n})", a.sx(), b.sx()),
        }
    }
    /// Quiver source literal
    fn qv(&self) -> String {
        match self {
            Nm::Nil => "[]".into(),
            Nm::Int(z) => qv_int(z),
            Nm::Rat(n, d) => format!("Rational[{}, {}]", qv_int(n), qv_int(d)),
            Nm::Surd(a, b, n) => format!("Surd[{}, {}, {}]", a.qv(), b.qv(), qv_int(n)),
        }
    }
    fn class(&self) -> &'static str {
        match self {
            Nm::Nil => "nil",
            Nm::Int(_) => "int",
            Nm::Rat(..) => "rat",
            Nm::Surd(..) => "surd",
        }
    }
    fn max_bits(&self) -> u64 {
        fn cb(c: &Co) -> u64 {
            match c {
                Co::Int(z) => z.bits(),
                Co::Rat(n, d) => n.bits().max(d.bits()),
            }
        }
        match self {
            Nm::Nil => 0,
            Nm::Int(z) => z.bits(),
            Nm::Rat(n, d) => n.bits().max(d.bits()),
            Nm::Surd(a, b, n) => cb(a).max(cb(b)).max(n.bits()),
        }
    }
}

// ---------------------------------------------------------------------------------------------
// exact rationals on the host (the reference the implementation is judged against)

#[derive(Clone, Debug, PartialEq, Eq, Hash)]
struct Q {
    n: BigInt,
    d: BigInt, // > 0, gcd(n, d) = 1
}

impl Q {
    fn new(n: BigInt, d: BigInt) -> Option<Q> {
        if d.is_zero() {
            return None;
        }
        let g = n.gcd(&d);
        let (mut n, mut d) = (n / &g, d / &g);
        if d.is_negative() {
            n = -n;
            d = -d;
        }
        Some(Q { n, d })
    }
    fn int(z: BigInt) -> Q {
        Q { n: z, d: BigInt::one() }
    }
    fn zero() -> Q {
        Q::int(BigInt::zero())
    }
    fn is_zero(&self) -> bool {
        self.n.is_zero()
    }
    fn add(&self, o: &Q) -> Q {
        Q::new(&self.n * &o.d + &o.n * &self.d, &self.d * &o.d).unwrap()
    }
    fn neg(&self) -> Q {
        Q { n: -&self.n, d: self.d.clone() }
    }
    fn sub(&self, o: &Q) -> Q {
        self.add(&o.neg())
    }
    fn mul(&self, o: &Q) -> Q {
        Q::new(&self.n * &o.n, &self.d * &o.d).unwrap()
    }
    fn div(&self, o: &Q) -> Option<Q> {
        if o.is_zero() { None } else { Q::new(&self.n * &o.d, &self.d * &o.n) }
    }
    fn sign(&self) -> i32 {
        if self.n.is_zero() { 0 } else if self.n.is_negative() { -1 } else { 1 }
    }
    fn cmp(&self, o: &Q) -> i32 {
        self.sub(o).sign()
    }
    fn is_integer(&self) -> bool {
        self.d.is_one()
    }
    fn floor(&self) -> BigInt {
        self.n.div_floor(&self.d)
    }
}

/// a + b·√n with n square-free > 1 when b ≠ 0 (n = 1 when b = 0)
#[derive(Clone, Debug, PartialEq, Eq)]
struct S {
    a: Q,
    b: Q,
    n: BigInt,
}

#[derive(Clone, Copy, Debug, PartialEq, Eq)]
enum Kind {
    Int,
    Rat,
    Surd,
}

impl S {
    fn pure(a: Q) -> S {
        S { a, b: Q::zero(), n: BigInt::one() }
    }
    fn norm(a: Q, b: Q, n: BigInt) -> S {
        if b.is_zero() { S::pure(a) } else { S { a, b, n } }
    }
    /// sign of a + b√n (n square-free > 1 when b ≠ 0)
    fn sign(&self) -> i32 {
        let (sa, sb) = (self.a.sign(), self.b.sign());
        if sb == 0 {
            return sa;
        }
        if sa == 0 || sa == sb {
            return sb;
        }
        let a2 = self.a.mul(&self.a);
        let b2n = self.b.mul(&self.b).mul(&Q::int(self.n.clone()));
        match a2.cmp(&b2n) {
            1 => sa,
            -1 => sb,
            _ => 0,
        }
    }
    fn floor(&self) -> BigInt {
        if self.b.is_zero() {
            return self.a.floor();
        }
        let dd = self.a.d.lcm(&self.b.d);
        let p = &self.a.n * (&dd / &self.a.d);
        let qc = &self.b.n * (&dd / &self.b.d);
        let r = (&qc * &qc * &self.n).sqrt();
        let exact = &r * &r == &qc * &qc * &self.n;
        let fl_q = if qc.is_negative() { if exact { -r } else { -r - 1 } } else { r };
        (p + fl_q).div_floor(&dd)
    }
    fn sub(&self, o: &S) -> Option<S> {
        let n = shared_radical(self, o)?;
        Some(S::norm(self.a.sub(&o.a), self.b.sub(&o.b), n))
    }
}

/// the radical two operands share; None when both are genuine surds of different radicals
fn shared_radical(x: &S, y: &S) -> Option<BigInt> {
    if x.b.is_zero() {
        Some(y.n.clone())
    } else if y.b.is_zero() {
        Some(x.n.clone())
    } else if x.n == y.n {
        Some(x.n.clone())
    } else {
        None
    }
}

fn is_squarefree_small(n: &BigInt) -> bool {
    // exact for the radicals the generator uses (small or known primes); trial division by squares
    if n <= &BigInt::one() {
        return false;
    }
    if n.bits() > 40 {
        return true; // only generated from known square-free constants
    }
    let mut d = BigInt::from(2);
    while &d * &d <= *n {
        if (n % (&d * &d)).is_zero() {
            return false;
        }
        d += 1;
    }
    true
}

/// host view of a *canonical* operand; None = not in the documented domain
fn host_of(x: &Nm) -> Option<(S, Kind)> {
    match x {
        Nm::Nil => None,
        Nm::Int(z) => Some((S::pure(Q::int(z.clone())), Kind::Int)),
        Nm::Rat(n, d) => {
            if !d.is_positive() || !n.gcd(d).is_one() {
                return None;
            }
            Some((S::pure(Q { n: n.clone(), d: d.clone() }), Kind::Rat))
        }
        Nm::Surd(a, b, n) => {
            let canon_co = |c: &Co| match c {
                Co::Int(_) => true,
                Co::Rat(n, d) => d > &BigInt::one() && n.gcd(d).is_one(),
            };
            if !canon_co(a) || !canon_co(b) || !is_squarefree_small(n) {
                return None;
            }
            let (a, b) = (a.q()?, b.q()?);
            if b.is_zero() {
                return None;
            }
            Some((S { a, b, n: n.clone() }, Kind::Surd))
        }
    }
}

fn co_simplest(q: &Q) -> Co {
    if q.is_integer() { Co::Int(q.n.clone()) } else { Co::Rat(q.n.clone(), q.d.clone()) }
}

/// simplest exact form (what every surd-involving operation collapses to)
fn simplest(s: &S) -> Nm {
    if s.b.is_zero() {
        match co_simplest(&s.a) {
            Co::Int(z) => Nm::Int(z),
            Co::Rat(n, d) => Nm::Rat(n, d),
        }
    } else {
        Nm::Surd(co_simplest(&s.a), co_simplest(&s.b), s.n.clone())
    }
}

fn as_kind(q: &Q, k: Kind) -> Nm {
    match k {
        Kind::Int if q.is_integer() => Nm::Int(q.n.clone()),
        _ => Nm::Rat(q.n.clone(), q.d.clone()),
    }
}

/// Expected answer of the host reference, in the model's answer syntax; None = no expectation
/// (operand outside the documented domain).
fn host_expect(op: &str, args: &[Nm]) -> Option<String> {
    // nil propagation first
    let nil_ops = [
        "add", "sub", "mul", "div", "compare", "min", "max", "clamp", "neg", "abs", "sqrt", "numer", "denom",
        "to_int", "floor", "ceil", "round", "sign", "eq?", "lt?", "le?", "gt?", "ge?",
    ];
    if !nil_ops.contains(&op) {
        return None;
    }
    let mut hs = vec![];
    let mut any_nil = false;
    for a in args {
        if *a == Nm::Nil {
            any_nil = true;
        } else {
            hs.push(host_of(a)?);
        }
    }
    if any_nil {
        return Some("nil".into());
    }
    let int = |z: BigInt| Nm::Int(z).sx();
    let cmp2 = |x: &S, y: &S| -> Option<i32> { x.sub(y).map(|d| d.sign()) };
    Some(match op {
        "add" | "sub" | "mul" | "div" => {
            let ((x, kx), (y, ky)) = (&hs[0], &hs[1]);
            if *kx != Kind::Surd && *ky != Kind::Surd {
                let q = match op {
                    "add" => Some(x.a.add(&y.a)),
                    "sub" => Some(x.a.sub(&y.a)),
                    "mul" => Some(x.a.mul(&y.a)),
                    _ => x.a.div(&y.a),
                };
                match q {
                    None => "nil".into(),
                    Some(q) => {
                        let k = if op != "div" && *kx == Kind::Int && *ky == Kind::Int { Kind::Int } else { Kind::Rat };
                        as_kind(&q, k).sx()
                    }
                }
            } else {
                let Some(n) = shared_radical(x, y) else { return Some("nil".into()) };
                let nq = Q::int(n.clone());
                let r = match op {
                    "add" => Some((x.a.add(&y.a), x.b.add(&y.b))),
                    "sub" => Some((x.a.sub(&y.a), x.b.sub(&y.b))),
                    "mul" => Some((
                        x.a.mul(&y.a).add(&x.b.mul(&y.b).mul(&nq)),
                        x.a.mul(&y.b).add(&y.a.mul(&x.b)),
                    )),
                    _ => {
                        let dd = y.a.mul(&y.a).sub(&y.b.mul(&y.b).mul(&nq));
                        if dd.is_zero() {
                            None
                        } else {
                            let a = x.a.mul(&y.a).sub(&x.b.mul(&y.b).mul(&nq)).div(&dd).unwrap();
                            let b = x.b.mul(&y.a).sub(&x.a.mul(&y.b)).div(&dd).unwrap();
                            Some((a, b))
                        }
                    }
                };
                match r {
                    None => "nil".into(),
                    Some((a, b)) => simplest(&S::norm(a, b, n)).sx(),
                }
            }
        }
        "compare" => match cmp2(&hs[0].0, &hs[1].0) {
            Some(c) => int(BigInt::from(c)),
            None => "nil".into(),
        },
        "sign" => int(BigInt::from(hs[0].0.sign())),
        "eq?" | "lt?" | "le?" | "gt?" | "ge?" => match cmp2(&hs[0].0, &hs[1].0) {
            None => "nil".into(),
            Some(c) => {
                let t = match op {
                    "eq?" => c == 0,
                    "lt?" => c < 0,
                    "le?" => c <= 0,
                    "gt?" => c > 0,
                    _ => c >= 0,
                };
                if t { "Ok".into() } else { "nil".into() }
            }
        },
        "min" | "max" => match cmp2(&hs[0].0, &hs[1].0) {
            // incomparable (different radicals): the property asks for nil
            None => "nil".into(),
            Some(c) => {
                let first = if op == "min" { c <= 0 } else { c >= 0 };
                if first { args[0].sx() } else { args[1].sx() }
            }
        },
        "clamp" => {
            let (x, lo, hi) = (&hs[0].0, &hs[1].0, &hs[2].0);
            // `hi` is only consulted when x >= lo (the documented range has lo <= hi)
            match cmp2(x, lo) {
                None => "nil".into(),
                Some(c1) if c1 < 0 => args[1].sx(),
                Some(_) => match cmp2(x, hi) {
                    None => "nil".into(),
                    Some(c2) if c2 > 0 => args[2].sx(),
                    Some(_) => args[0].sx(),
                },
            }
        }
        "neg" | "abs" => {
            let (x, k) = &hs[0];
            let flip = op == "neg" || x.sign() < 0;
            let y = if flip { S::norm(x.a.neg(), x.b.neg(), x.n.clone()) } else { x.clone() };
            match k {
                Kind::Surd => simplest(&y).sx(),
                k => as_kind(&y.a, *k).sx(),
            }
        }
        "numer" | "denom" => match &hs[0] {
            (_, Kind::Surd) => "nil".into(),
            (x, _) => int(if op == "numer" { x.a.n.clone() } else { x.a.d.clone() }),
        },
        "to_int" | "floor" | "ceil" | "round" => {
            let x = &hs[0].0;
            let fl = x.floor();
            let is_int = x.b.is_zero() && x.a.is_integer();
            let ce = if is_int { fl.clone() } else { &fl + 1 };
            int(match op {
                "floor" => fl,
                "ceil" => ce,
                "to_int" => {
                    if x.sign() < 0 {
                        ce
                    } else {
                        fl
                    }
                }
                _ => {
                    // nearest, halves away from zero
                    let half = Q::new(BigInt::one(), BigInt::from(2)).unwrap();
                    if x.sign() >= 0 {
                        S { a: x.a.add(&half), b: x.b.clone(), n: x.n.clone() }.floor()
                    } else {
                        let y = S { a: x.a.sub(&half), b: x.b.clone(), n: x.n.clone() };
                        let f = y.floor();
                        if y.b.is_zero() && y.a.is_integer() { f } else { f + 1 }
                    }
                }
            })
        }
        "sqrt" => {
            let (x, k) = &hs[0];
            if *k == Kind::Surd || x.a.sign() < 0 {
                "nil".into()
            } else if x.a.is_zero() {
                int(BigInt::zero())
            } else {
                // √(p/q) = √(pq)/q ; pq = k²·m with m square-free (trial division, m kept small
                // by the generator)
                let pq = &x.a.n * &x.a.d;
                let (mut kk, mut m, mut d) = (BigInt::one(), pq, BigInt::from(2));
                while &d * &d <= m {
                    let d2 = &d * &d;
                    if (&m % &d2).is_zero() {
                        m /= &d2;
                        kk *= &d;
                    } else {
                        d += 1;
                    }
                }
                let b = Q::new(kk, x.a.d.clone()).unwrap();
                if m.is_one() { simplest(&S::pure(b)).sx() } else { simplest(&S { a: Q::zero(), b, n: m }).sx() }
            }
        }
        _ => return None,
    })
}

// ---------------------------------------------------------------------------------------------
// expressions

#[derive(Clone, Debug)]
enum Ex {
    Lit(Nm),
    Op(&'static str, Vec<Ex>),
}

impl Ex {
    fn op2(op: &'static str, a: Ex, b: Ex) -> Ex {
        Ex::Op(op, vec![a, b])
    }
    fn lit(n: &Nm) -> Ex {
        Ex::Lit(n.clone())
    }
    /// Quiver source; `opaque` routes every literal through `o` (identity typed `'%num.opt`),
    /// so the call sites see the full union type and dispatch at run time.
    fn qv(&self, opaque: bool) -> String {
        match self {
            Ex::Lit(n) => {
                if opaque {
                    format!("{} o", n.qv())
                } else {
                    n.qv()
                }
            }
            Ex::Op(op, args) => {
                let target = if opaque { "n." } else { "%num." };
                if args.len() == 1 {
                    format!("{} {target}{op}", args[0].qv(opaque))
                } else {
                    let fs: Vec<String> = args.iter().map(|a| a.qv(opaque)).collect();
                    format!("[{}] {target}{op}", fs.join(", "))
                }
            }
        }
    }
    fn key(&self) -> String {
        match self {
            Ex::Lit(n) => n.sx(),
            Ex::Op(op, args) => {
                format!("({op} {})", args.iter().map(|a| a.key()).collect::<Vec<_>>().join(" "))
            }
        }
    }
    fn depth(&self) -> usize {
        match self {
            Ex::Lit(_) => 0,
            Ex::Op(_, a) => 1 + a.iter().map(|x| x.depth()).max().unwrap_or(0),
        }
    }
}

/// Evaluate through a step function on answers in the model syntax (`(int …)`, `nil`, `Ok`,
/// `err …`); an `err`/non-number operand makes the enclosing application that same answer.
fn eval_with(ex: &Ex, f: &mut dyn FnMut(&str, &[String]) -> String) -> String {
    match ex {
        Ex::Lit(n) => n.sx(),
        Ex::Op(op, args) => {
            let mut vals = vec![];
            for a in args {
                let v = eval_with(a, f);
                if !(v == "nil" || v.starts_with("(int") || v.starts_with("(rat") || v.starts_with("(surd")) {
                    return v;
                }
                vals.push(v);
            }
            f(op, &vals)
        }
    }
}

fn model_eval(ex: &Ex, model: &mut Model) -> String {
    eval_with(ex, &mut |op, vals| model.ask(&format!("(op {op}) {}", vals.join(" "))))
}

fn host_eval(ex: &Ex) -> Option<String> {
    let mut unknown = false;
    let r = eval_with(ex, &mut |op, vals| {
        let args: Option<Vec<Nm>> = vals.iter().map(|v| parse_nm(v)).collect();
        match args.and_then(|a| host_expect(op, &a)) {
            Some(s) => s,
            None => {
                unknown = true;
                "unknown".into()
            }
        }
    });
    if unknown { None } else { Some(r) }
}

// ---------------------------------------------------------------------------------------------
// S-expression answers <-> Nm

fn sx_tokens(s: &str) -> Vec<String> {
    let mut out = vec![];
    let mut cur = String::new();
    for c in s.chars() {
        if c == '(' || c == ')' || c == ' ' {
            if !cur.is_empty() {
                out.push(std::mem::take(&mut cur));
            }
            if c != ' ' {
                out.push(c.to_string());
            }
        } else {
            cur.push(c);
        }
    }
    if !cur.is_empty() {
        out.push(cur);
    }
    out
}

fn parse_co(t: &[String], i: &mut usize) -> Option<Co> {
    if t.get(*i)? != "(" {
        return None;
    }
    let head = t.get(*i + 1)?.clone();
    match head.as_str() {
        "int" => {
            let z: BigInt = t.get(*i + 2)?.parse().ok()?;
            if t.get(*i + 3)? != ")" {
                return None;
            }
            *i += 4;
            Some(Co::Int(z))
        }
        "rat" => {
            let n: BigInt = t.get(*i + 2)?.parse().ok()?;
            let d: BigInt = t.get(*i + 3)?.parse().ok()?;
            if t.get(*i + 4)? != ")" {
                return None;
            }
            *i += 5;
            Some(Co::Rat(n, d))
        }
        _ => None,
    }
}

fn parse_nm(s: &str) -> Option<Nm> {
    let t = sx_tokens(s);
    if t.len() == 1 && t[0] == "nil" {
        return Some(Nm::Nil);
    }
    if t.len() >= 3 && t[0] == "(" && t[1] == "surd" {
        let mut i = 2;
        let a = parse_co(&t, &mut i)?;
        let b = parse_co(&t, &mut i)?;
        let n: BigInt = t.get(i)?.parse().ok()?;
        if t.get(i + 1)? != ")" || i + 2 != t.len() {
            return None;
        }
        return Some(Nm::Surd(a, b, n));
    }
    let mut i = 0;
    let c = parse_co(&t, &mut i)?;
    if i != t.len() {
        return None;
    }
    Some(match c {
        Co::Int(z) => Nm::Int(z),
        Co::Rat(n, d) => Nm::Rat(n, d),
    })
}

// canonical value strings of qverif::canon  ->  answer syntax

#[derive(Debug, Clone)]
enum Cv {
    Int(String),
    Tup(String, Vec<Cv>),
    Other(String),
}

fn parse_canon(s: &[u8], i: &mut usize) -> Cv {
    if s[*i] == b'i' {
        let st = *i + 1;
        let mut j = st;
        while j < s.len() && (s[j] == b'-' || s[j].is_ascii_digit()) {
            j += 1;
        }
        *i = j;
        return Cv::Int(String::from_utf8_lossy(&s[st..j]).to_string());
    }
    if s[*i..].starts_with(b"t(") {
        let mut j = *i + 2;
        let st = j;
        while s[j] != b';' {
            j += 1;
        }
        let name = String::from_utf8_lossy(&s[st..j]).to_string();
        j += 1;
        let mut fields = vec![];
        while s[j] != b')' {
            if s[j] == b',' {
                j += 1;
            }
            // label '='
            while s[j] != b'=' {
                j += 1;
            }
            j += 1;
            fields.push(parse_canon(s, &mut j));
        }
        *i = j + 1;
        return Cv::Tup(name, fields);
    }
    // anything else: take up to the next ',' or ')' at depth 0
    let st = *i;
    let mut depth = 0i32;
    let mut j = st;
    while j < s.len() {
        match s[j] {
            b'(' => depth += 1,
            b')' if depth == 0 => break,
            b')' => depth -= 1,
            b',' if depth == 0 => break,
            _ => {}
        }
        j += 1;
    }
    *i = j;
    Cv::Other(String::from_utf8_lossy(&s[st..j]).to_string())
}

fn cv_co(c: &Cv) -> Option<String> {
    match c {
        Cv::Int(z) => Some(format!("(int {z})")),
        Cv::Tup(name, fs) if name == "Rational" && fs.len() == 2 => match (&fs[0], &fs[1]) {
            (Cv::Int(n), Cv::Int(d)) => Some(format!("(rat {n} {d})")),
            _ => None,
        },
        _ => None,
    }
}

fn cv_answer(c: &Cv) -> String {
    if let Some(s) = cv_co(c) {
        return s;
    }
    match c {
        Cv::Tup(name, fs) if name == "_" && fs.is_empty() => "nil".into(),
        Cv::Tup(name, fs) if name == "Ok" && fs.is_empty() => "Ok".into(),
        Cv::Tup(name, fs) if name == "Surd" && fs.len() == 3 => match (cv_co(&fs[0]), cv_co(&fs[1]), &fs[2]) {
            (Some(a), Some(b), Cv::Int(n)) => format!("(surd {a} {b} {n})"),
            _ => format!("(other {c:?})"),
        },
        other => format!("(other {other:?})"),
    }
}

// ---------------------------------------------------------------------------------------------
// running the real module

const PRELUDE: &str = "n = %num\no = #'%num.opt { $ }\nnn = #'%num { $ }\n";

/// One program evaluating all expressions; returns one answer per expression, or a whole-program
/// outcome (`error:<Class>` / `panic:…` / `front:…`).
fn run_batch(exprs: &[String], b: &Builtins) -> Result<Vec<String>, String> {
    run_batch_with("", exprs, b)
}

/// like `run_batch`, with extra bindings after the prelude
fn run_batch_with(extra: &str, exprs: &[String], b: &Builtins) -> Result<Vec<String>, String> {
    let mut src = String::from(PRELUDE);
    src.push_str(extra);
    src.push_str("[\n");
    for e in exprs {
        src.push_str("  ");
        src.push_str(e);
        src.push_str(",\n");
    }
    // a trailing sentinel keeps the tuple non-empty and of arity ≥ 2
    src.push_str("  424242,\n  424243\n]\n");
    let unit = match run::compile_source(&src, &HashMap::new(), b) {
        Ok(u) => u,
        Err(e) => return Err(format!("front:{e:?}")),
    };
    let bc = unit.program.to_bytecode(Some(unit.entry));
    let (out, ex) = run::run_sync(bc.clone(), b, false);
    match &out {
        RunOutcome::Value(_) => {}
        _ => return Err(run::canon_outcome(&out, ex.as_ref(), &bc)),
    }
    let s = run::canon_outcome(&out, ex.as_ref(), &bc);
    let mut i = 0;
    let cv = parse_canon(s.as_bytes(), &mut i);
    match cv {
        Cv::Tup(_, fs) if fs.len() == exprs.len() + 2 => Ok(fs[..exprs.len()].iter().map(cv_answer).collect()),
        other => Err(format!("shape:{other:?}")),
    }
}

/// Evaluate expressions in batches; a batch that fails as a whole is re-run one by one so the
/// failing expression gets the error outcome.
fn run_all(exprs: &[String], batch: usize, b: &Builtins, ev: &mut Ev) -> Vec<String> {
    let mut out = Vec::with_capacity(exprs.len());
    for chunk in exprs.chunks(batch) {
        ev.hit("programs-compiled");
        match run_batch(chunk, b) {
            Ok(v) => out.extend(v),
            Err(_) => {
                ev.hit("batch-fallback-to-single");
                for e in chunk {
                    ev.hit("programs-compiled");
                    match run_batch(std::slice::from_ref(e), b) {
                        Ok(mut v) => out.push(v.remove(0)),
                        Err(w) => out.push(match w.strip_prefix("error:") {
                            Some(c) => format!("err {c}"),
                            None => w,
                        }),
                    }
                }
            }
        }
    }
    out
}

// ---------------------------------------------------------------------------------------------
// generators

const SQUAREFREE: &[u64] = &[2, 3, 5, 6, 7, 10, 11, 13, 14, 15, 17, 19, 21, 22, 23, 29, 30, 31, 33, 35, 101, 210, 1001];

fn big(s: &str) -> BigInt {
    s.parse().unwrap()
}

fn huge_radicals() -> Vec<BigInt> {
    vec![
        big("2305843009213693951"),                  // 2^61 - 1 (prime)
        big("618970019642690137449562111"),          // 2^89 - 1 (prime), > 64 bits
        big("223092870"),                            // 2·3·5·7·11·13·17·19·23
        big("170141183460469231731687303715884105727"), // 2^127 - 1 (prime)
    ]
}

fn gen_int(r: &mut Rng) -> BigInt {
    match r.below(16) {
        0 => BigInt::zero(),
        1 => BigInt::one(),
        2 => -BigInt::one(),
        3..=6 => BigInt::from(r.range(-30, 30)),
        7 => BigInt::from(r.range(-100000, 100000)),
        8 => BigInt::from(r.next() as i64),
        9 => {
            // around the 64-bit boundaries
            let k = *r.pick(&[31u32, 32, 62, 63, 64, 65, 127, 128]);
            let v = BigInt::from(2).pow(k) + BigInt::from(r.range(-2, 2));
            if r.chance(1, 2) { -v } else { v }
        }
        10..=12 => {
            // huge: 2..5 limbs
            let limbs = 2 + r.usize(4);
            let mut v = BigInt::zero();
            for _ in 0..limbs {
                v = (v << 64) + BigInt::from(r.next());
            }
            if r.chance(1, 2) { -v } else { v }
        }
        13 => {
            // smooth (many common factors)
            let mut v = BigInt::one();
            for p in [2u32, 3, 5, 7, 11] {
                v *= BigInt::from(p).pow(r.below(30) as u32);
            }
            if r.chance(1, 2) { -v } else { v }
        }
        _ => BigInt::from(r.range(-1000, 1000)),
    }
}

fn gen_pos_int(r: &mut Rng) -> BigInt {
    let v = gen_int(r).abs();
    if v.is_zero() { BigInt::from(r.range(1, 9)) } else { v }
}

fn gen_q(r: &mut Rng) -> Q {
    match r.below(8) {
        0 => Q::new(BigInt::from(r.range(-50, 50)), BigInt::from(r.range(1, 12))).unwrap(),
        1 => Q::int(gen_int(r)), // integral rational (d = 1)
        2 => Q::new(BigInt::from(r.range(-9, 9)), BigInt::from(2)).unwrap(),
        _ => Q::new(gen_int(r), gen_pos_int(r)).unwrap(),
    }
}

fn gen_rat(r: &mut Rng) -> Nm {
    let q = gen_q(r);
    Nm::Rat(q.n, q.d)
}

fn gen_radical(r: &mut Rng) -> BigInt {
    match r.below(10) {
        0 => r.pick(&huge_radicals()).clone(),
        1..=4 => BigInt::from(*r.pick(&[2u64, 3, 5])),
        _ => BigInt::from(*r.pick(SQUAREFREE)),
    }
}

fn gen_surd_with(r: &mut Rng, n: &BigInt) -> Nm {
    let a = match r.below(4) {
        0 => Q::zero(),
        _ => gen_q(r),
    };
    let mut b = gen_q(r);
    if b.is_zero() {
        b = Q::int(BigInt::from(r.range(1, 5)));
    }
    Nm::Surd(co_simplest(&a), co_simplest(&b), n.clone())
}

fn gen_surd(r: &mut Rng) -> Nm {
    let n = gen_radical(r);
    gen_surd_with(r, &n)
}

/// any canonical operand (nil included with small probability)
fn gen_num(r: &mut Rng, nil_w: u64, surd_w: u64) -> Nm {
    let t = r.below(100);
    if t < nil_w {
        Nm::Nil
    } else if t < nil_w + surd_w {
        gen_surd(r)
    } else if r.chance(1, 2) {
        Nm::Int(gen_int(r))
    } else {
        gen_rat(r)
    }
}

/// a partner for `x` that makes the operation interesting (cancellation, equality, same or a
/// different radical)
fn gen_partner(r: &mut Rng, x: &Nm) -> Nm {
    let Some((s, k)) = host_of(x) else { return gen_num(r, 0, 25) };
    match r.below(10) {
        0 => x.clone(),
        1 => {
            // the exact negation in the same kind
            let y = S::norm(s.a.neg(), s.b.neg(), s.n.clone());
            if k == Kind::Surd { simplest(&y) } else { as_kind(&y.a, k) }
        }
        2 => {
            // x ± tiny
            let eps = Q::new(BigInt::one(), gen_pos_int(r)).unwrap();
            let y = S::norm(s.a.add(&eps), s.b.clone(), s.n.clone());
            if k == Kind::Surd { simplest(&y) } else { as_kind(&y.a, Kind::Rat) }
        }
        3 => {
            // reciprocal of the rational part (product cancels to 1) when possible
            if s.b.is_zero() && !s.a.is_zero() {
                let q = Q::new(s.a.d.clone(), s.a.n.clone()).unwrap();
                Nm::Rat(q.n, q.d)
            } else if !s.b.is_zero() {
                // the conjugate
                simplest(&S::norm(s.a.clone(), s.b.neg(), s.n.clone()))
            } else {
                Nm::Int(BigInt::zero())
            }
        }
        4 | 5 => {
            if k == Kind::Surd {
                gen_surd_with(r, &s.n) // equal radical
            } else {
                gen_num(r, 0, 0)
            }
        }
        6 => {
            if k == Kind::Surd {
                // same b, opposite sign, other a: the surd part cancels
                let y = S::norm(gen_q(r), s.b.neg(), s.n.clone());
                simplest(&y)
            } else {
                Nm::Int(BigInt::zero())
            }
        }
        7 => gen_surd(r), // most likely a different radical
        _ => gen_num(r, 4, 25),
    }
}

/// operands for `sqrt`: p/q with p·q = k²·m, k smooth (possibly huge), m small
fn gen_sqrt_operand(r: &mut Rng) -> Nm {
    let smooth = |r: &mut Rng| {
        let mut v = BigInt::one();
        for p in [2u32, 3, 5, 7, 11, 13] {
            v *= BigInt::from(p).pow(r.below(12) as u32);
        }
        v
    };
    match r.below(10) {
        0 => Nm::Int(BigInt::from(r.range(-5, 50))),
        1 => Nm::Int(BigInt::from(r.range(0, 400))),
        2 => gen_surd(r),
        3 => Nm::Int(-gen_pos_int(r)),
        4 => {
            let s = smooth(r);
            Nm::Int(&s * &s * BigInt::from(*r.pick(SQUAREFREE)))
        }
        5 => {
            let s = smooth(r);
            Nm::Int(&s * &s) // perfect square, possibly > 64 bits
        }
        6 => Nm::Int(BigInt::from(r.range(0, 3000))),
        _ => {
            let (s, t) = (smooth(r), smooth(r));
            let u = BigInt::from(*r.pick(&[1u64, 2, 3, 5, 7, 10, 11]));
            let v = BigInt::from(*r.pick(&[1u64, 1, 2, 3, 13, 17]));
            let q = Q::new(&s * &s * u, &t * &t * v).unwrap();
            if r.chance(1, 8) { Nm::Rat(-q.n, q.d) } else { Nm::Rat(q.n, q.d) }
        }
    }
}

/// operands outside the documented domain (non-canonical rationals / surds): differential only
fn gen_malformed(r: &mut Rng) -> Nm {
    let small = |r: &mut Rng| BigInt::from(r.range(-6, 6));
    match r.below(8) {
        0 => Nm::Rat(small(r), BigInt::zero()),
        1 => Nm::Rat(BigInt::zero(), BigInt::zero()),
        2 => Nm::Rat(small(r) * 2, BigInt::from(r.range(1, 4)) * 2),
        3 => Nm::Rat(small(r), -BigInt::from(r.range(1, 6))),
        4 => Nm::Surd(Co::Int(small(r)), Co::Int(BigInt::zero()), BigInt::from(2)),
        5 => Nm::Surd(Co::Rat(small(r), BigInt::one()), Co::Int(small(r)), BigInt::from(*r.pick(&[1i64, 4, 8, 9, 0, -2]))),
        6 => Nm::Surd(Co::Rat(small(r), BigInt::from(r.range(-3, 3))), Co::Rat(small(r), BigInt::from(r.range(-3, 3))), BigInt::from(r.range(-3, 12))),
        _ => Nm::Rat(gen_int(r), gen_int(r)),
    }
}

const BIN_OPS: &[&str] = &["add", "sub", "mul", "div", "lt?", "eq?"];
const BIN_OPS_MORE: &[&str] = &["min", "max", "le?", "gt?", "ge?", "lt?", "eq?"];
const UN_OPS: &[&str] = &["neg", "abs", "numer", "denom", "to_int", "floor", "ceil", "round", "sign"];

// ---------------------------------------------------------------------------------------------
// cases

struct Case {
    ex: Ex,
    opaque: bool,
    stream: &'static str,
    /// host reference applies (canonical operands)
    oracle: bool,
    /// the result is passed to `nn = #'%num { $ }`: the program compiles only if the call site's
    /// result type was specialised to exclude nil
    typed: bool,
}

fn bits_class(b: u64) -> &'static str {
    if b <= 31 {
        "bits<=31"
    } else if b <= 63 {
        "bits<=63"
    } else if b <= 64 {
        "bits=64"
    } else if b <= 128 {
        "bits<=128"
    } else {
        "bits>128"
    }
}

/// value-level equality of two answers (same number, possibly different kind)
fn same_value(a: &str, b: &str) -> Option<bool> {
    let (x, y) = (parse_nm(a)?, parse_nm(b)?);
    if x == Nm::Nil || y == Nm::Nil {
        return Some(x == y);
    }
    let (sx, _) = host_of(&x)?;
    let (sy, _) = host_of(&y)?;
    match sx.sub(&sy) {
        Some(d) => Some(d.sign() == 0),
        None => Some(false),
    }
}

fn answer_is_canonical(a: &str) -> bool {
    match parse_nm(a) {
        Some(Nm::Nil) => true,
        Some(x) => host_of(&x).is_some(),
        None => a == "Ok",
    }
}

fn main() {
    qverif::quiet_panics();
    let opts = Opts::parse();
    let mut ev = Ev::new("C20", &opts);
    ev.rule = "a case is one expression over %num (one operation on generated operands, or a nested \
               expression of a law instance) evaluated by the real compiled module; non-trivial when \
               the implementation returned a number, nil or Ok (not a front-end failure) and the case \
               has at least one non-nil operand; distinct by (expression, static/opaque call mode)"
        .into();
    let b: Builtins = run::builtins();
    let mut model = Model::spawn(opts.model.as_ref().expect("--model"));
    let batch = 120usize;

    // --- replay: re-evaluate one recorded expression on all three sides
    if let Some(p) = &opts.replay {
        let j: serde_json::Value = serde_json::from_str(&std::fs::read_to_string(p).unwrap()).unwrap();
        let src = j["replay"]["quiver"].as_str().unwrap_or("").to_string();
        println!("replay quiver expression: {src}");
        if !src.is_empty() {
            println!("implementation now: {:?}", run_batch(&[src], &b));
        }
        println!("recorded: {}", j["replay"]);
        std::process::exit(0);
    }

    let mut cases: Vec<Case> = vec![];

    // --- regression corpus first
    let corpus_dir = "/verif/corpus/C20";
    if let Ok(rd) = std::fs::read_dir(corpus_dir) {
        let mut files: Vec<_> = rd.filter_map(|e| e.ok()).map(|e| e.path()).collect();
        files.sort();
        for f in files {
            if f.extension().and_then(|e| e.to_str()) != Some("json") {
                continue;
            }
            let Ok(text) = std::fs::read_to_string(&f) else { continue };
            let Ok(j) = serde_json::from_str::<serde_json::Value>(&text) else { continue };
            for c in j["cases"].as_array().cloned().unwrap_or_default() {
                let op = c["op"].as_str().unwrap_or("").to_string();
                let Some(op) = BIN_OPS.iter().chain(BIN_OPS_MORE).chain(UN_OPS).chain(["clamp", "sqrt"].iter()).find(|o| **o == op) else {
                    continue;
                };
                let args: Option<Vec<Nm>> =
                    c["args"].as_array().map(|a| a.iter().filter_map(|s| s.as_str().and_then(parse_nm)).collect());
                let Some(args) = args else { continue };
                let oracle = c["oracle"].as_bool().unwrap_or(true);
                for opaque in [false, true] {
                    cases.push(Case { ex: Ex::Op(op, args.iter().map(Ex::lit).collect()), opaque, stream: "corpus", oracle, typed: false });
                }
            }
        }
    }

    // --- stream 1: single binary operations
    let n_bin = opts.tier.pick(6000u64, 400000u64);
    for i in 0..n_bin {
        let mut r = Rng::for_case(opts.seed ^ 0xC20_0001, i);
        let surd_w = if i % 3 == 0 { 35 } else { 0 };
        let x = gen_num(&mut r, 4, surd_w);
        let y = if r.chance(1, 2) { gen_partner(&mut r, &x) } else { gen_num(&mut r, 4, surd_w) };
        let (x, y) = if r.chance(1, 2) { (x, y) } else { (y, x) };
        let op = if r.chance(3, 4) { *r.pick(BIN_OPS) } else { *r.pick(BIN_OPS_MORE) };
        cases.push(Case { ex: Ex::op2(op, Ex::lit(&x), Ex::lit(&y)), opaque: r.chance(1, 3), stream: "binary", oracle: true, typed: false });
    }

    // --- stream 2: unary operations, clamp, sqrt
    let n_un = opts.tier.pick(2400u64, 120000u64);
    for i in 0..n_un {
        let mut r = Rng::for_case(opts.seed ^ 0xC20_0002, i);
        let opaque = r.chance(1, 3);
        match r.below(10) {
            0 | 1 => {
                let x = gen_sqrt_operand(&mut r);
                cases.push(Case { ex: Ex::Op("sqrt", vec![Ex::lit(&x)]), opaque, stream: "sqrt", oracle: true, typed: false });
            }
            2 => {
                let x = gen_num(&mut r, 4, 25);
                let lo = gen_partner(&mut r, &x);
                let hi = gen_partner(&mut r, &x);
                cases.push(Case { ex: Ex::Op("clamp", vec![Ex::lit(&x), Ex::lit(&lo), Ex::lit(&hi)]), opaque, stream: "clamp", oracle: true, typed: false });
            }
            _ => {
                let mut x = gen_num(&mut r, 4, 35);
                if r.chance(1, 4) {
                    // rounding family near halves and integers
                    let k = BigInt::from(r.range(-6, 6));
                    x = match r.below(3) {
                        0 => Nm::Rat(&k * 2 + 1, BigInt::from(2)),
                        1 => {
                            let q = Q::new(gen_int(&mut r) * 2 + 1, BigInt::from(2)).unwrap();
                            Nm::Rat(q.n, q.d)
                        }
                        _ => {
                            let q = Q::int(k).add(&Q::new(BigInt::from(r.range(-1, 1)), gen_pos_int(&mut r) + 1).unwrap());
                            Nm::Rat(q.n, q.d)
                        }
                    };
                }
                let op = *r.pick(UN_OPS);
                cases.push(Case { ex: Ex::Op(op, vec![Ex::lit(&x)]), opaque, stream: "unary", oracle: true, typed: false });
            }
        }
    }

    // --- stream 3: malformed operands (differential model <-> implementation only)
    let n_mal = opts.tier.pick(400u64, 15000u64);
    for i in 0..n_mal {
        let mut r = Rng::for_case(opts.seed ^ 0xC20_0003, i);
        let m = gen_malformed(&mut r);
        let y = if r.chance(1, 3) { gen_malformed(&mut r) } else { gen_num(&mut r, 5, 20) };
        let (x, y) = if r.chance(1, 2) { (m.clone(), y) } else { (y, m.clone()) };
        let ex = if r.chance(2, 3) {
            Ex::op2(*r.pick(BIN_OPS), Ex::lit(&x), Ex::lit(&y))
        } else {
            Ex::Op(*r.pick(&["neg", "abs", "to_int", "floor", "round", "sign", "numer", "denom", "ceil"]), vec![Ex::lit(&m)])
        };
        cases.push(Case { ex, opaque: r.chance(1, 3), stream: "malformed", oracle: false, typed: false });
    }

    // --- stream 3b: call-site result specialisation. For int/rational operands the dispatch
    //     tables of add/sub/mul/neg/abs/to_int/floor/ceil/numer/denom give a result type without
    //     nil: feeding the result to a function that only accepts non-nil numbers must compile.
    // fixed witnesses first (1b40f7e: `1 %num.floor nn` / `Rational[1, 2] %num.ceil nn` were rejected
    // after 47b34c5): every statically nil-free operation on an integer and on a rational
    for x in [Nm::Int(BigInt::one()), Nm::Rat(BigInt::one(), BigInt::from(2))] {
        for op in ["neg", "abs", "to_int", "floor", "ceil", "numer", "denom"] {
            cases.push(Case { ex: Ex::Op(op, vec![Ex::lit(&x)]), opaque: false, stream: "typed-nonnil", oracle: true, typed: true });
        }
        for op in ["add", "sub", "mul"] {
            cases.push(Case { ex: Ex::op2(op, Ex::lit(&x), Ex::lit(&Nm::Int(BigInt::from(3)))), opaque: false, stream: "typed-nonnil", oracle: true, typed: true });
        }
    }
    let n_typed = opts.tier.pick(400u64, 10000u64);
    for i in 0..n_typed {
        let mut r = Rng::for_case(opts.seed ^ 0xC20_0006, i);
        let x = gen_num(&mut r, 0, 0);
        let y = gen_num(&mut r, 0, 0);
        let ex = if r.chance(1, 2) {
            Ex::op2(*r.pick(&["add", "sub", "mul"]), Ex::lit(&x), Ex::lit(&y))
        } else {
            Ex::Op(*r.pick(&["neg", "abs", "to_int", "floor", "ceil", "numer", "denom"]), vec![Ex::lit(&x)])
        };
        cases.push(Case { ex, opaque: false, stream: "typed-nonnil", oracle: true, typed: true });
    }

    // --- stream 4: law instances on triples (nested expressions)
    struct Law {
        name: &'static str,
        /// indices into `cases` of the expressions of this instance
        idx: Vec<usize>,
        operands: Vec<Nm>,
    }
    let mut laws: Vec<Law> = vec![];
    let n_law = opts.tier.pick(700u64, 40000u64);
    for i in 0..n_law {
        let mut r = Rng::for_case(opts.seed ^ 0xC20_0004, i);
        let opaque = r.chance(1, 3);
        // operands: int/rational, or surds over one common radical
        let (x, y, z) = if r.chance(1, 3) {
            let n = gen_radical(&mut r);
            let mut g = |r: &mut Rng| if r.chance(2, 3) { gen_surd_with(r, &n) } else { gen_num(r, 0, 0) };
            (g(&mut r), g(&mut r), g(&mut r))
        } else {
            (gen_num(&mut r, 2, 0), gen_num(&mut r, 2, 0), gen_num(&mut r, 2, 0))
        };
        let (lx, ly, lz) = (Ex::lit(&x), Ex::lit(&y), Ex::lit(&z));
        let (name, exs): (&'static str, Vec<Ex>) = match r.below(9) {
            0 => ("add-comm", vec![Ex::op2("add", lx.clone(), ly.clone()), Ex::op2("add", ly.clone(), lx.clone())]),
            1 => ("mul-comm", vec![Ex::op2("mul", lx.clone(), ly.clone()), Ex::op2("mul", ly.clone(), lx.clone())]),
            2 => (
                "add-assoc",
                vec![
                    Ex::op2("add", Ex::op2("add", lx.clone(), ly.clone()), lz.clone()),
                    Ex::op2("add", lx.clone(), Ex::op2("add", ly.clone(), lz.clone())),
                ],
            ),
            3 => (
                "mul-assoc",
                vec![
                    Ex::op2("mul", Ex::op2("mul", lx.clone(), ly.clone()), lz.clone()),
                    Ex::op2("mul", lx.clone(), Ex::op2("mul", ly.clone(), lz.clone())),
                ],
            ),
            4 => (
                "distrib",
                vec![
                    Ex::op2("mul", lx.clone(), Ex::op2("add", ly.clone(), lz.clone())),
                    Ex::op2("add", Ex::op2("mul", lx.clone(), ly.clone()), Ex::op2("mul", lx.clone(), lz.clone())),
                ],
            ),
            5 => (
                "sub-add-inverse",
                vec![Ex::op2("add", Ex::op2("sub", lx.clone(), ly.clone()), ly.clone()), lx.clone()],
            ),
            6 => (
                "div-mul-inverse",
                vec![Ex::op2("mul", Ex::op2("div", lx.clone(), ly.clone()), ly.clone()), lx.clone(), ly.clone()],
            ),
            7 => (
                "order-add",
                vec![
                    Ex::op2("lt?", lx.clone(), ly.clone()),
                    Ex::op2("lt?", Ex::op2("add", lx.clone(), lz.clone()), Ex::op2("add", ly.clone(), lz.clone())),
                ],
            ),
            _ => (
                "order-mul",
                vec![
                    Ex::op2("lt?", lx.clone(), ly.clone()),
                    Ex::Op("sign", vec![lz.clone()]),
                    Ex::op2("lt?", Ex::op2("mul", lx.clone(), lz.clone()), Ex::op2("mul", ly.clone(), lz.clone())),
                    Ex::op2("gt?", Ex::op2("mul", lx.clone(), lz.clone()), Ex::op2("mul", ly.clone(), lz.clone())),
                ],
            ),
        };
        let mut idx = vec![];
        for ex in exs {
            idx.push(cases.len());
            cases.push(Case { ex, opaque, stream: "law", oracle: true, typed: false });
        }
        laws.push(Law { name, idx, operands: vec![x, y, z] });
    }

    // --- stream 5: a nil operand to EVERY unary and binary operation (each position, both call
    //     modes), plus clamp. Property: nil, never a runtime error. (F20, repaired by 6a46ae1: nil
    //     used to fall into the trailing type pattern of the unary operations.)
    {
        let partners = [Nm::Int(BigInt::from(3)), Nm::Rat(BigInt::from(-1), BigInt::from(2)),
            Nm::Surd(Co::Int(BigInt::one()), Co::Int(BigInt::one()), BigInt::from(2)), Nm::Nil];
        for opaque in [false, true] {
            for op in UN_OPS.iter().chain(["sqrt"].iter()) {
                cases.push(Case { ex: Ex::Op(op, vec![Ex::Lit(Nm::Nil)]), opaque, stream: "nil-operand", oracle: true, typed: false });
            }
            for op in ["add", "sub", "mul", "div", "min", "max", "eq?", "lt?", "le?", "gt?", "ge?"] {
                for p in &partners {
                    cases.push(Case { ex: Ex::op2(op, Ex::Lit(Nm::Nil), Ex::lit(p)), opaque, stream: "nil-operand", oracle: true, typed: false });
                    cases.push(Case { ex: Ex::op2(op, Ex::lit(p), Ex::Lit(Nm::Nil)), opaque, stream: "nil-operand", oracle: true, typed: false });
                }
            }
            for k in 0..3 {
                let mut args = vec![Ex::lit(&partners[0]), Ex::lit(&partners[1]), Ex::lit(&partners[2])];
                args[k] = Ex::Lit(Nm::Nil);
                cases.push(Case { ex: Ex::Op("clamp", args), opaque, stream: "nil-operand", oracle: true, typed: false });
            }
        }
    }

    // --- stream 6: the integer square root at its boundary. `to_int` of a surd brackets the
    //     irrational part with `__integer_sqrt__(Q²·n)`; the argument is placed exactly one below
    //     a perfect square m² (Pell solutions m² − n·Q² = 1, and radicals n = k² − 1) with m from
    //     small through the f64-exact limit 2^26.5, the 32/64-bit boundaries and beyond 2^64.
    {
        let mut count = 0u64;
        let mut push = |cases: &mut Vec<Case>, x: Nm, i: u64| {
            let ops = ["to_int", "floor", "ceil", "round", "to_int", "sign"];
            cases.push(Case { ex: Ex::Op("to_int", vec![Ex::lit(&x)]), opaque: i % 3 == 0, stream: "isqrt-boundary", oracle: true, typed: false });
            let op2 = ops[(i % 6) as usize];
            if op2 != "to_int" {
                cases.push(Case { ex: Ex::Op(op2, vec![Ex::lit(&x)]), opaque: i % 2 == 0, stream: "isqrt-boundary", oracle: true, typed: false });
            }
        };
        let limit = BigInt::from(2).pow(opts.tier.pick(72u32, 140u32));
        for n in [2u64, 3, 5, 6, 7, 10, 11, 13, 14, 15, 17, 19, 21, 22, 23, 26, 29, 30, 31, 33, 35] {
            // fundamental solution by search
            let nb = BigInt::from(n);
            let mut fund = None;
            for q in 1u64..4000 {
                let t: BigInt = &nb * BigInt::from(q) * BigInt::from(q) + BigInt::one();
                let r = t.sqrt();
                if &r * &r == t {
                    fund = Some((r, BigInt::from(q)));
                    break;
                }
            }
            let Some((m1, q1)) = fund else { continue };
            let (mut m, mut q) = (m1.clone(), q1.clone());
            while m < limit {
                let shapes: Vec<Nm> = vec![
                    Nm::Surd(Co::Int(BigInt::zero()), Co::Int(q.clone()), nb.clone()),
                    Nm::Surd(Co::Int(BigInt::zero()), Co::Int(-q.clone()), nb.clone()),
                    Nm::Surd(Co::Int(m.clone()), Co::Int(-q.clone()), nb.clone()),
                    Nm::Surd(Co::Int(-m.clone()), Co::Int(q.clone()), nb.clone()),
                    Nm::Surd(Co::Int(BigInt::one() - &m), Co::Int(q.clone()), nb.clone()),
                    Nm::Surd(Co::Int(BigInt::from(7)), Co::Int(q.clone()), nb.clone()),
                    Nm::Surd(Co::Rat(BigInt::one(), BigInt::from(3)), Co::Int(q.clone()), nb.clone()),
                    {
                        // b = q / d with d coprime to q: Q stays q, the final division is by d
                        let d = [3u32, 5, 7, 11, 13].iter().map(|d| BigInt::from(*d)).find(|d| q.gcd(d).is_one()).unwrap_or(BigInt::one());
                        Nm::Surd(Co::Int(BigInt::zero()), co_simplest(&Q::new(q.clone(), d).unwrap()), nb.clone())
                    },
                ];
                for x in shapes {
                    if host_of(&x).is_some() {
                        push(&mut cases, x, count);
                        count += 1;
                    }
                }
                let (m2, q2) = (&m1 * &m + &nb * &q1 * &q, &m1 * &q + &q1 * &m);
                m = m2;
                q = q2;
            }
        }
        // radicals n = k² − 1 = (k − 1)(k + 1), k even, both factors square-free ⇒ n square-free
        let sf = |v: u64| {
            let mut d = 2u64;
            while d * d <= v {
                if v % (d * d) == 0 {
                    return false;
                }
                d += 1;
            }
            true
        };
        for base in [1u64 << 20, 1 << 26, 94906266, 1 << 27, 1 << 30, 1 << 31, (1 << 32) - 40, 1 << 32, (1 << 33) + 2] {
            let mut found = 0;
            let mut k = base - (base % 2);
            while found < opts.tier.pick(4, 40) {
                k += 2;
                if sf(k - 1) && sf(k + 1) {
                    found += 1;
                    let kb = BigInt::from(k);
                    let n: BigInt = &kb * &kb - BigInt::one();
                    for x in [
                        Nm::Surd(Co::Int(BigInt::zero()), Co::Int(BigInt::one()), n.clone()),
                        Nm::Surd(Co::Int(kb.clone()), Co::Int(-BigInt::one()), n.clone()),
                        Nm::Surd(Co::Int(-kb.clone()), Co::Int(BigInt::one()), n.clone()),
                        Nm::Surd(Co::Rat(BigInt::one(), BigInt::from(2)), Co::Int(-BigInt::one()), n.clone()),
                    ] {
                        push(&mut cases, x, count);
                        count += 1;
                    }
                }
            }
        }
    }

    // --- evaluate everything through the real module
    let t0 = std::time::Instant::now();
    let exprs: Vec<String> =
        cases.iter().map(|c| if c.typed { format!("{} nn", c.ex.qv(c.opaque)) } else { c.ex.qv(c.opaque) }).collect();
    let impl_out = run_all(&exprs, batch, &b, &mut ev);
    ev.set_extra("impl_eval_wall_s", json!(t0.elapsed().as_secs_f64()));

    // --- compare
    for (i, c) in cases.iter().enumerate() {
        let got = &impl_out[i];
        let key = (c.ex.key(), c.opaque, c.typed);
        let (op, lits): (&str, Vec<&Nm>) = match &c.ex {
            Ex::Op(op, args) => (op, args.iter().filter_map(|a| if let Ex::Lit(n) = a { Some(n) } else { None }).collect()),
            Ex::Lit(_) => ("lit", vec![]),
        };
        let front_fail = got.starts_with("front:") || got.starts_with("shape:");
        let nontrivial = !front_fail && (lits.iter().any(|n| **n != Nm::Nil) || c.ex.depth() > 1);
        ev.case(&key, nontrivial);
        ev.hit(&format!("stream:{}", c.stream));
        ev.hit(if c.opaque { "mode:opaque(union-typed operands)" } else { "mode:static(literal operands)" });
        if c.ex.depth() == 1 {
            let kinds: Vec<&str> = lits.iter().map(|n| n.class()).collect();
            ev.hit(&format!("op:{op}"));
            ev.hit(&format!("operands:{}", kinds.join(",")));
            let mb = lits.iter().map(|n| n.max_bits()).max().unwrap_or(0);
            ev.hit(&format!("magnitude:{}", bits_class(mb)));
            if let [Nm::Surd(_, _, n1), Nm::Surd(_, _, n2)] = lits.as_slice() {
                ev.hit(if n1 == n2 { "radicals:equal" } else { "radicals:different" });
            }
        }
        let res_kind = if got == "nil" {
            "nil"
        } else if got.starts_with("(int") {
            "int"
        } else if got.starts_with("(rat") {
            "rat"
        } else if got.starts_with("(surd") {
            "surd"
        } else if got == "Ok" {
            "Ok"
        } else if got.starts_with("err") {
            "runtime-error"
        } else {
            "other"
        };
        ev.hit(&format!("result:{res_kind}"));

        let model_out = model_eval(&c.ex, &mut model);
        let host_out = if c.oracle { host_eval(&c.ex) } else { None };
        ev.sample_sparse(i as u64, 1500, || json!({"quiver": exprs[i], "impl": got, "model": model_out, "host": host_out}));
        let replay = json!({"quiver": exprs[i], "expr": c.ex.key(), "opaque": c.opaque, "impl": got,
                            "model": model_out, "host_reference": host_out, "stream": c.stream});

        if front_fail {
            ev.violation(&format!("op={op} kind=front-end-failure"),
                &format!("the program for `{}` no longer compiles/evaluates to the expected shape: {got}", exprs[i]),
                json!({"broken": "correspondence harness: generated %num program rejected", "case": replay}), false);
            continue;
        }
        // oracle 1: never a runtime error / panic on canonical operands (also for nil operands)
        if c.oracle && (res_kind == "runtime-error" || res_kind == "other") {
            let sig = if lits.iter().any(|n| **n == Nm::Nil) && c.ex.depth() == 1 && lits.len() == 1 {
                "kind=nil-operand-unary-op".to_string()
            } else {
                format!("op={op} kind=runtime-error")
            };
            ev.violation(&sig,
                &format!("`{}` ends in {got} instead of a number or nil", exprs[i]), replay.clone(), true);
            continue;
        }
        // oracle 2: exact host reference
        if let Some(h) = &host_out {
            if h != got {
                let mixed_minmax = (op == "min" || op == "max" || op == "clamp") && h == "nil" && c.ex.depth() == 1
                    && lits.iter().all(|n| **n != Nm::Nil);
                let sig = if mixed_minmax {
                    "kind=mixed-radicals-minmax-not-nil".to_string()
                } else if !answer_is_canonical(got) {
                    format!("op={op} kind=non-canonical-result")
                } else if same_value(h, got) == Some(true) {
                    format!("op={op} kind=wrong-kind")
                } else {
                    format!("op={op} kind=wrong-value")
                };
                ev.violation(&sig,
                    &format!("`{}` = {got}, exact host arithmetic gives {h}", exprs[i]), replay.clone(), true);
                continue;
            }
        }
        // correspondence: model <-> implementation
        if &model_out != got {
            // search: does the host reference side with the model? then it is a wrong result
            let found = host_out.as_ref().map(|h| h == &model_out).unwrap_or(false);
            ev.violation(&format!("op={op} kind=model-disagreement"),
                &format!("`{}`: implementation {got}, model {model_out}", exprs[i]),
                json!({"broken": format!("correspondence model<->impl on {op}"), "case": replay}), found);
        }
    }
    // --- laws on the implementation's own results
    for law in &laws {
        ev.hit(&format!("law:{}", law.name));
        let a: Vec<&String> = law.idx.iter().map(|i| &impl_out[*i]).collect();
        let ops: Vec<String> = law.operands.iter().map(|n| n.sx()).collect();
        // operands the law actually uses
        let used: usize = match law.name {
            "add-comm" | "mul-comm" | "sub-add-inverse" | "div-mul-inverse" => 2,
            _ => 3,
        };
        let any_nil = law.operands[..used].iter().any(|n| *n == Nm::Nil);
        let ok = match law.name {
            "add-comm" | "mul-comm" | "add-assoc" | "mul-assoc" | "distrib" => {
                // identical, except that a surd-involving side may have collapsed to a simpler kind
                a[0] == a[1] || same_value(a[0], a[1]) == Some(true)
            }
            "sub-add-inverse" => any_nil && a[0] == "nil" || same_value(a[0], a[1]) == Some(true),
            "div-mul-inverse" => {
                let y_zero = same_value(a[2], "(int 0)") == Some(true);
                if any_nil || y_zero { a[0] == "nil" } else { same_value(a[0], a[1]) == Some(true) }
            }
            "order-add" => if any_nil { a[1] == "nil" } else { a[0] == a[1] },
            _ => {
                // x < y and sign z determine xz ? yz
                if any_nil {
                    a[2] == "nil" && a[3] == "nil"
                } else {
                    let lt = a[0] == "Ok";
                    match parse_nm(a[1]) {
                        Some(Nm::Int(s)) if s.is_positive() => (a[2] == "Ok") == lt && !(lt && a[3] == "Ok"),
                        Some(Nm::Int(s)) if s.is_negative() => (a[3] == "Ok") == lt && !(lt && a[2] == "Ok"),
                        Some(Nm::Int(_)) => a[2] == "nil" && a[3] == "nil",
                        _ => false,
                    }
                }
            }
        };
        if ok {
            ev.hit("law-instances-holding");
        } else {
            ev.violation(&format!("law={} kind=fails", law.name),
                &format!("law {} fails on operands {}: results {:?}", law.name, ops.join(" "), a),
                json!({"law": law.name, "operands": ops, "results": a,
                       "quiver": law.idx.iter().map(|i| exprs[*i].clone()).collect::<Vec<_>>()}), true);
        }
    }

    // --- call-site result specialisation with union-typed operands (`mk` returns 'int | Rational):
    //     the specialised result type must be wide enough (a consumer that only takes 'int, or only a
    //     Rational, or only non-nil numbers where nil is possible, must be rejected at compile time)
    //     and narrow enough (a consumer of non-nil numbers must be accepted for add/sub/mul/neg).
    {
        let extra = "mk = #'int { | =0 => 7 | Rational[1, 2] }\nii = #'int { $ }\nrr = #Rational['int, 'int] { $ }\n";
        let accept: [(&str, &str); 6] = [
            ("[0 mk, 0 mk] %num.add nn", "(int 14)"),
            ("[1 mk, 0 mk] %num.add nn", "(rat 15 2)"),
            ("[1 mk, 1 mk] %num.mul nn", "(rat 1 4)"),
            ("[0 mk, 1 mk] %num.sub nn", "(rat 13 2)"),
            ("0 mk %num.neg nn", "(int -7)"),
            ("1 mk %num.abs nn", "(rat 1 2)"),
        ];
        let srcs: Vec<String> = accept.iter().map(|(e, _)| e.to_string()).collect();
        ev.hit("programs-compiled");
        match run_batch_with(extra, &srcs, &b) {
            Ok(v) => {
                for (i, (e, want)) in accept.iter().enumerate() {
                    ev.case(&("spec-accept", e), true);
                    ev.hit("stream:specialisation");
                    if v[i] != *want {
                        ev.violation("kind=specialisation-wrong-value", &format!("`{e}` = {}, expected {want}", v[i]),
                            json!({"quiver": e, "prelude": extra, "impl": v[i], "expected": want}), true);
                    }
                }
            }
            Err(w) => {
                ev.violation("kind=specialisation-too-wide",
                    &format!("results of add/sub/mul/neg/abs on 'int | Rational operands are no longer accepted where a non-nil number is required: {w}"),
                    json!({"broken": "call-site result specialisation (dispatch tables) on union-typed operands", "programs": srcs, "outcome": w}), false);
            }
        }
        // must be rejected by the type checker; the last one is the concrete witness: 7 / (7 − 7) is
        // nil and would flow into a function that only accepts non-nil numbers
        let reject = [
            "[0 mk, 0 mk] %num.add ii",
            "0 mk %num.neg ii",
            "[0 mk, 0 mk] %num.add rr",
            "[0 mk, 0 mk] %num.div nn",
            "[0 mk, [0 mk, 0 mk] %num.sub] %num.div nn",
        ];
        for e in reject {
            ev.hit("programs-compiled");
            ev.case(&("spec-reject", e), true);
            ev.hit("stream:specialisation");
            match run_batch_with(extra, &[e.to_string()], &b) {
                Err(w) if w.starts_with("front:Compile") => ev.hit("specialisation:rejected-as-required"),
                other => {
                    let concrete = e.contains("%num.sub] %num.div") && matches!(&other, Ok(v) if v[0] == "nil");
                    ev.violation("kind=specialisation-too-narrow",
                        &format!("`{e}` is accepted by the type checker (outcome {other:?}): the specialised result type lost a variant (nil / the other kind) of the union-typed call"),
                        json!({"quiver": e, "prelude": extra, "outcome": format!("{other:?}")}), concrete);
                }
            }
        }
    }

    // --- literal desugaring: source literals through the real parser/compiler vs the model vs host
    let n_lit = opts.tier.pick(600u64, 20000u64);
    let mut lit_src = vec![];
    let mut lit_req = vec![];
    let mut lit_host = vec![];
    for i in 0..n_lit {
        let mut r = Rng::for_case(opts.seed ^ 0xC20_0005, i);
        let digits = |r: &mut Rng, max: usize| -> String {
            let len = 1 + r.usize(max);
            (0..len).map(|_| char::from(b'0' + r.below(10) as u8)).collect()
        };
        let neg = r.chance(1, 3);
        let long = if r.chance(1, 5) { 40 } else { 6 };
        let a = if r.chance(1, 6) { "0".to_string() } else { digits(&mut r, long) };
        let mut bb = digits(&mut r, long);
        if r.chance(1, 5) {
            bb.push_str("00");
        }
        let dec = r.chance(1, 2);
        if !dec && bb.chars().all(|c| c == '0') {
            bb.push('7'); // a zero denominator is a parse error (tested in the corpus stream below)
        }
        let src = format!("{}{}{}{}", if neg { "-" } else { "" }, a, if dec { "." } else { "/" }, bb);
        let (n, d): (BigInt, BigInt) = if dec {
            (format!("{a}{bb}").parse().unwrap(), BigInt::from(10).pow(bb.len() as u32))
        } else {
            (a.parse().unwrap(), bb.parse().unwrap())
        };
        let q = Q::new(if neg { -n } else { n }, d).unwrap();
        lit_host.push(Nm::Rat(q.n, q.d).sx());
        lit_req.push(format!("(lit {} {} {a} {bb})", if dec { "dec" } else { "frac" }, if neg { 1 } else { 0 }));
        lit_src.push(src);
    }
    let lit_impl = run_all(&lit_src, batch, &b, &mut ev);
    for i in 0..lit_src.len() {
        let m = model.ask(&lit_req[i]);
        ev.case(&("lit", &lit_src[i]), true);
        ev.hit("stream:literal");
        if lit_impl[i] != lit_host[i] {
            ev.violation("literal kind=wrong-value",
                &format!("literal `{}` evaluates to {}, exact value is {}", lit_src[i], lit_impl[i], lit_host[i]),
                json!({"quiver": lit_src[i], "impl": lit_impl[i], "host_reference": lit_host[i], "model": m}), true);
        } else if m != lit_impl[i] {
            ev.violation("literal kind=model-disagreement",
                &format!("literal `{}`: implementation {}, model {m}", lit_src[i], lit_impl[i]),
                json!({"broken": "correspondence model<->impl on literal desugaring", "quiver": lit_src[i], "impl": lit_impl[i], "model": m}), false);
        }
    }
    // zero denominator: a parse error on both sides
    {
        let r = run_batch(&["1/0".to_string()], &b);
        let m = model.ask("(lit frac 0 1 0)");
        ev.case(&("lit", "1/0"), true);
        let impl_rejects = matches!(&r, Err(e) if e.starts_with("front:"));
        if !(impl_rejects && m == "parse-error") {
            ev.violation("literal kind=zero-denominator",
                &format!("literal `1/0`: implementation {r:?}, model {m}"),
                json!({"quiver": "1/0", "impl": format!("{r:?}"), "model": m}), !impl_rejects);
        }
    }

    ev.set_extra("model_requests", json!(model.requests));
    ev.set_extra("batch_size", json!(batch));
    ev.set_extra("law_instances", json!(laws.len()));
    std::process::exit(ev.finish());
}
