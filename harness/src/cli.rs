//! Options shared by all property binaries.
use std::path::PathBuf;

#[derive(Clone, Copy, Debug, PartialEq, Eq)]
pub enum Tier {
    Quick,
    Thorough,
}

impl Tier {
    pub fn name(&self) -> &'static str {
        match self {
            Tier::Quick => "quick",
            Tier::Thorough => "thorough",
        }
    }
    /// Pick a budget by tier.
    pub fn pick<T>(&self, quick: T, thorough: T) -> T {
        match self {
            Tier::Quick => quick,
            Tier::Thorough => thorough,
        }
    }
}

#[derive(Clone, Debug)]
pub struct Opts {
    pub tier: Tier,
    pub seed: u64,
    /// where the harness writes its coverage JSON (merged into evidence by ./check)
    pub out: PathBuf,
    /// path to the Lean model driver executable for this property
    pub model: Option<PathBuf>,
    /// replay file to re-execute instead of generating
    pub replay: Option<PathBuf>,
    /// free-form extra flags
    pub extra: Vec<String>,
}

impl Opts {
    pub fn parse() -> Opts {
        let mut tier = match std::env::var("VERIF_TIER").ok().as_deref() {
            Some("thorough") => Tier::Thorough,
            _ => Tier::Quick,
        };
        let mut seed: u64 = std::env::var("VERIF_SEED")
            .ok()
            .and_then(|s| s.parse::<i128>().ok())
            .map(|v| v as u64)
            .unwrap_or(20260925);
        let mut out = PathBuf::from(format!("{}/tmp/out.json", crate::evidence_dir()));
        let mut model = None;
        let mut replay = None;
        let mut extra = vec![];
        let args: Vec<String> = std::env::args().skip(1).collect();
        let mut i = 0;
        while i < args.len() {
            match args[i].as_str() {
                "--tier" => {
                    i += 1;
                    tier = if args[i] == "thorough" { Tier::Thorough } else { Tier::Quick };
                }
                "--seed" => {
                    i += 1;
                    seed = args[i].parse::<i128>().map(|v| v as u64).unwrap_or(seed);
                }
                "--out" => {
                    i += 1;
                    out = PathBuf::from(&args[i]);
                }
                "--model" => {
                    i += 1;
                    model = Some(PathBuf::from(&args[i]));
                }
                "--replay" => {
                    i += 1;
                    replay = Some(PathBuf::from(&args[i]));
                }
                other => extra.push(other.to_string()),
            }
            i += 1;
        }
        Opts { tier, seed, out, model, replay, extra }
    }
    pub fn has_flag(&self, f: &str) -> bool {
        self.extra.iter().any(|x| x == f)
    }
}
