//! Client for a Lean model driver (`qm_*` executables): one request line in, one answer line out.
use std::io::{BufRead, BufReader, Write};
use std::path::Path;
use std::process::{Child, ChildStdin, ChildStdout, Command, Stdio};

pub struct Model {
    child: Child,
    stdin: Option<ChildStdin>,
    stdout: BufReader<ChildStdout>,
    pub requests: u64,
}

impl Model {
    pub fn spawn(path: &Path) -> Model {
        let mut child = Command::new(path)
            .stdin(Stdio::piped())
            .stdout(Stdio::piped())
            .stderr(Stdio::inherit())
            .spawn()
            .unwrap_or_else(|e| panic!("cannot start model driver {}: {e}", path.display()));
        let stdin = child.stdin.take();
        let stdout = BufReader::new(child.stdout.take().unwrap());
        Model { child, stdin, stdout, requests: 0 }
    }

    /// Send one request line, read one answer line (the driver flushes after every line).
    pub fn ask(&mut self, line: &str) -> String {
        debug_assert!(!line.contains('\n'));
        let w = self.stdin.as_mut().expect("model stdin closed");
        w.write_all(line.as_bytes()).expect("write to model");
        w.write_all(b"\n").expect("write to model");
        w.flush().expect("flush model");
        self.requests += 1;
        let mut out = String::new();
        let n = self.stdout.read_line(&mut out).expect("read from model");
        if n == 0 {
            panic!("model driver closed its output on request: {}", &line[..line.len().min(300)]);
        }
        while out.ends_with('\n') || out.ends_with('\r') {
            out.pop();
        }
        out
    }

    /// Send many lines then read as many answers (pipelined through a writer thread).
    pub fn ask_all(&mut self, lines: &[String]) -> Vec<String> {
        let mut w = self.stdin.take().expect("model stdin closed");
        let owned: Vec<String> = lines.to_vec();
        let h = std::thread::spawn(move || {
            for l in &owned {
                w.write_all(l.as_bytes()).unwrap();
                w.write_all(b"\n").unwrap();
            }
            w.flush().unwrap();
            w
        });
        let mut res = Vec::with_capacity(lines.len());
        for l in lines {
            let mut out = String::new();
            let n = self.stdout.read_line(&mut out).expect("read from model");
            if n == 0 {
                panic!("model driver closed its output on request: {}", &l[..l.len().min(300)]);
            }
            while out.ends_with('\n') || out.ends_with('\r') {
                out.pop();
            }
            res.push(out);
        }
        self.requests += lines.len() as u64;
        self.stdin = Some(h.join().unwrap());
        res
    }
}

impl Drop for Model {
    fn drop(&mut self) {
        drop(self.stdin.take());
        let _ = self.child.wait();
    }
}
