//! Evidence accumulation, violation / known-finding reporting.
//!
//! A property binary records every case it runs (`case`), per-branch counters (`hit`), a few
//! written-out samples (`sample`) and violations (`violation`). `finish` writes the coverage JSON
//! that `./check` merges into /verif/evidence/<id>.json, prints `VIOLATION …` / `KNOWN-FINDING: …`
//! lines and returns the process exit code.
use crate::cli::Opts;
use serde_json::{Value as J, json};
use std::collections::hash_map::DefaultHasher;
use std::collections::{BTreeMap, HashSet};
use std::hash::{Hash, Hasher};
use std::time::Instant;

#[derive(Clone, Debug)]
pub struct KnownFinding {
    pub property: String,
    pub kind: String,
    pub signature: String,
    pub what: String,
}

pub fn load_known_findings() -> Vec<KnownFinding> {
    let mut v = vec![];
    let Ok(text) = std::fs::read_to_string("/verif/known_findings.jsonl") else {
        return v;
    };
    for line in text.lines() {
        let line = line.trim();
        if line.is_empty() || line.starts_with('#') {
            continue;
        }
        if let Ok(j) = serde_json::from_str::<J>(line) {
            v.push(KnownFinding {
                property: j["property"].as_str().unwrap_or("").to_string(),
                kind: j["kind"].as_str().unwrap_or("").to_string(),
                signature: j["signature"].as_str().unwrap_or("").to_string(),
                what: j["what"].as_str().unwrap_or("").to_string(),
            });
        }
    }
    v
}

pub struct Ev {
    pub prop: String,
    pub opts: Opts,
    start: Instant,
    pub evaluations: u64,
    distinct: HashSet<u64>,
    pub counters: BTreeMap<String, u64>,
    samples: Vec<J>,
    max_samples: usize,
    pub rule: String,
    /// (signature, what, replay path, failing_input_found)
    violations: Vec<(String, String, String, bool)>,
    violation_sigs: HashSet<String>,
    known: Vec<KnownFinding>,
    known_hits: BTreeMap<String, (String, u64)>,
    pub extra: BTreeMap<String, J>,
    pub model_disagreements: u64,
    pub oracle_failures: u64,
}

impl Ev {
    pub fn new(prop: &str, opts: &Opts) -> Ev {
        Ev {
            prop: prop.to_string(),
            opts: opts.clone(),
            start: Instant::now(),
            evaluations: 0,
            distinct: HashSet::new(),
            counters: BTreeMap::new(),
            samples: vec![],
            max_samples: 12,
            rule: String::new(),
            violations: vec![],
            violation_sigs: HashSet::new(),
            known: load_known_findings(),
            known_hits: BTreeMap::new(),
            extra: BTreeMap::new(),
            model_disagreements: 0,
            oracle_failures: 0,
        }
    }

    /// Record one executed case. `key` identifies the case for distinctness; `nontrivial` is the
    /// binary's own rule (documented in `rule`).
    pub fn case<K: Hash + ?Sized>(&mut self, key: &K, nontrivial: bool) {
        self.evaluations += 1;
        if nontrivial {
            let mut h = DefaultHasher::new();
            key.hash(&mut h);
            self.distinct.insert(h.finish());
        }
    }

    pub fn hit(&mut self, counter: &str) {
        *self.counters.entry(counter.to_string()).or_insert(0) += 1;
    }

    pub fn add(&mut self, counter: &str, n: u64) {
        *self.counters.entry(counter.to_string()).or_insert(0) += n;
    }

    pub fn sample(&mut self, v: J) {
        if self.samples.len() < self.max_samples {
            self.samples.push(v);
        }
    }

    /// Sample with reservoir-ish spacing: keep the first few and then every `every`-th.
    pub fn sample_sparse(&mut self, idx: u64, every: u64, v: impl FnOnce() -> J) {
        if self.samples.len() < self.max_samples && (idx < 3 || idx % every == 0) {
            self.samples.push(v());
        }
    }

    pub fn is_known(&self, signature: &str) -> bool {
        self.known
            .iter()
            .any(|k| k.kind == "known" && k.property == self.prop && k.signature == signature)
    }

    /// Report that the property fails (oracle on the implementation, or an unexplained
    /// model/implementation disagreement). `signature` is the canonical key of *what* fails; if it
    /// is listed as `known` in known_findings.jsonl the report becomes a KNOWN-FINDING line.
    /// `failing_input_found = false` means: the correspondence / proof no longer checks but no
    /// concrete input violating the property itself was found.
    pub fn violation(&mut self, signature: &str, what: &str, replay: J, failing_input_found: bool) {
        if self.is_known(signature) {
            let e = self
                .known_hits
                .entry(signature.to_string())
                .or_insert((what.to_string(), 0));
            e.1 += 1;
            return;
        }
        if failing_input_found {
            self.oracle_failures += 1;
        } else {
            self.model_disagreements += 1;
        }
        // one replay per distinct signature, at most 8 per run
        if !self.violation_sigs.insert(signature.to_string()) {
            return;
        }
        if self.violations.len() >= 8 {
            return;
        }
        let dir = format!("{}/replays", crate::evidence_dir());
        let _ = std::fs::create_dir_all(&dir);
        let path = format!(
            "{dir}/{}-{}-{}.json",
            self.prop,
            self.opts.seed,
            self.violations.len()
        );
        let body = json!({
            "property": self.prop,
            "tier": self.opts.tier.name(),
            "seed": self.opts.seed,
            "signature": signature,
            "what": what,
            "failing_input_found": failing_input_found,
            "replay": replay,
        });
        let _ = std::fs::write(&path, serde_json::to_string_pretty(&body).unwrap());
        self.violations
            .push((signature.to_string(), what.to_string(), path, failing_input_found));
    }

    pub fn violation_count(&self) -> usize {
        self.violations.len()
    }

    pub fn set_extra(&mut self, k: &str, v: J) {
        self.extra.insert(k.to_string(), v);
    }

    /// Write coverage JSON, print verdict lines, return exit code.
    pub fn finish(self) -> i32 {
        for (sig, (what, n)) in &self.known_hits {
            println!(
                "KNOWN-FINDING: property={} {} [signature={} hits={}]",
                self.prop, what, sig, n
            );
        }
        for (_sig, what, path, found) in &self.violations {
            println!("# {}", what.replace('\n', " "));
            if *found {
                println!("VIOLATION property={} replay={}", self.prop, path);
            } else {
                println!(
                    "VIOLATION property={} replay={} no-failing-input-found",
                    self.prop, path
                );
            }
        }
        let mut cov = serde_json::Map::new();
        cov.insert("evaluations".into(), json!(self.evaluations));
        cov.insert("distinct_nontrivial".into(), json!(self.distinct.len()));
        cov.insert("rule".into(), json!(self.rule));
        cov.insert("samples".into(), J::Array(self.samples.clone()));
        cov.insert("counters".into(), json!(self.counters));
        cov.insert("model_disagreements".into(), json!(self.model_disagreements));
        cov.insert("oracle_failures".into(), json!(self.oracle_failures));
        cov.insert(
            "known_findings_hit".into(),
            json!(self
                .known_hits
                .iter()
                .map(|(s, (w, n))| json!({"signature": s, "what": w, "hits": n}))
                .collect::<Vec<_>>()),
        );
        for (k, v) in &self.extra {
            cov.insert(k.clone(), v.clone());
        }
        let out = json!({
            "property_id": self.prop,
            "tier": self.opts.tier.name(),
            "seed": self.opts.seed,
            "coverage": J::Object(cov),
            "violations": self.violations.len(),
            "violation_details": self.violations.iter().map(|(s,w,p,f)| json!({"signature": s, "what": w, "replay": p, "failing_input_found": f})).collect::<Vec<_>>(),
            "harness_wall_s": self.start.elapsed().as_secs_f64(),
        });
        if let Some(dir) = self.opts.out.parent() {
            let _ = std::fs::create_dir_all(dir);
        }
        std::fs::write(&self.opts.out, serde_json::to_string_pretty(&out).unwrap())
            .expect("write harness output");
        if self.violations.is_empty() { 0 } else { 1 }
    }
}
