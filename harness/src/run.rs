//! Compile / run helpers over the real front end and VM (sync path).
use quiver_compiler::compiler::{Compiled, ModuleCache};
use quiver_compiler::{Compiler, PackageResolver, parse};
use quiver_core::builtins::{BuiltinRegistry, core_modules};
use quiver_core::bytecode::{Bytecode, Function};
use quiver_core::program::Program;
use quiver_core::types::Type;
use quiver_core::value::Value;
use quiver_core::{Error, Executor};
use quiver_io::NativeEffect;
use std::collections::HashMap;

pub type Builtins = BuiltinRegistry<NativeEffect>;
pub type Exec = Executor<NativeEffect>;

pub fn builtins() -> Builtins {
    BuiltinRegistry::<NativeEffect>::with_modules(&core_modules())
}

#[derive(Debug)]
pub enum FrontError {
    Parse(String),
    Compile(String),
    Panic(String),
}

pub struct Unit {
    pub program: Program,
    pub entry: usize,
    pub compiled_result_type: usize,
    pub receive_type: usize,
}

/// parse + compile `src` as a top-level program (the `quiv run` recipe, no tree shaking),
/// registering the wrapper function as entry.
pub fn compile_source(src: &str, modules: &HashMap<Vec<String>, String>, b: &Builtins) -> Result<Unit, FrontError> {
    let r = crate::catch(|| {
        let ast = parse(src).map_err(|e| FrontError::Parse(format!("{e:?}")))?;
        let mut program = Program::new();
        let mut cache = ModuleCache::new();
        let resolver = PackageResolver::memory(modules.clone());
        // parameter_type_id is a TYPE id: register the nil type (as the CLI does since the F26 fix)
        let parameter_type_id = program.register_type(Type::nil());
        let compiled: Compiled = Compiler::compile(
            ast,
            &HashMap::new(),
            &mut cache,
            &resolver,
            &mut program,
            parameter_type_id,
            &HashMap::new(),
            b,
            None,
        )
        .map_err(|e| FrontError::Compile(format!("{:?}", e.error)))?;
        let nil_type_id = program.register_type(Type::nil());
        let callable = program.register_type(Type::Callable {
            parameter: nil_type_id,
            result: compiled.result_type,
            receive: compiled.receive_type,
        });
        let entry = program.register_function(Function {
            instructions: compiled.instructions,
            captures: 0,
            type_id: callable,
        });
        Ok(Unit { program, entry, compiled_result_type: compiled.result_type, receive_type: compiled.receive_type })
    });
    match r {
        Ok(x) => x,
        Err(p) => Err(FrontError::Panic(p)),
    }
}

#[derive(Debug)]
pub enum RunOutcome {
    Value(Value),
    Error(Error),
    Panic(String),
}

/// Run bytecode on the sync path under catch_unwind.
pub fn run_sync(bc: Bytecode, b: &Builtins, profile: bool) -> (RunOutcome, Option<Exec>) {
    match crate::catch(|| quiver_core::execute_bytecode_sync(bc, b, profile)) {
        Ok(Ok((v, ex))) => (RunOutcome::Value(v), Some(ex)),
        Ok(Err(e)) => (RunOutcome::Error(e), None),
        Err(p) => (RunOutcome::Panic(p), None),
    }
}

/// Extract heap bytes referenced by `v` from `ex` (for canonicalisation).
pub fn heap_of(ex: &Exec, v: &Value) -> (Value, Vec<Vec<u8>>) {
    ex.extract_heap_data(v).unwrap_or((v.clone(), vec![]))
}

/// Canonical string of a run outcome given the bytecode tables it ran against.
pub fn canon_outcome(out: &RunOutcome, ex: Option<&Exec>, bc: &Bytecode) -> String {
    match out {
        RunOutcome::Value(v) => {
            let (v2, heap) = match ex {
                Some(ex) => heap_of(ex, v),
                None => (v.clone(), vec![]),
            };
            let cx = crate::canon::TablesCtx {
                tuples: &bc.tuples,
                constants: &bc.constants,
                heap: &heap,
                builtins: bc.builtins.iter().map(|b| b.name.clone()).collect(),
            };
            crate::canon::canon(&v2, &cx)
        }
        RunOutcome::Error(e) => format!("error:{}", crate::canon::error_class(e)),
        RunOutcome::Panic(p) => format!("panic:{}", p.lines().next().unwrap_or("")),
    }
}
