//! Shared by the C09 and C08 binaries (included with `#[path]`, not part of the library, owned by
//! the C09/C08 builder): S-expressions, name interning, the codec between `quiver_core` type
//! tables and the `qm_c09`/`qm_c08` driver syntax, a generator of closed contractive type terms
//! registered through the PUBLIC `Program::register_type/register_tuple` API, near-miss
//! mutations, canonical structural rendering of a type id.
#![allow(dead_code)]
use qverif::Rng;
use quiver_core::program::Program;
use quiver_core::types::{TupleTypeInfo, Type, TypeLookup};
use std::collections::{BTreeSet, HashMap};

// ---------------------------------------------------------------------------------------------
// S-expressions
// ---------------------------------------------------------------------------------------------

#[derive(Clone, Debug, PartialEq, Eq)]
pub enum Sx {
    A(String),
    L(Vec<Sx>),
}

impl Sx {
    pub fn parse(s: &str) -> Option<Vec<Sx>> {
        let mut toks: Vec<String> = vec![];
        let mut cur = String::new();
        for c in s.chars() {
            if c == '(' || c == ')' {
                if !cur.is_empty() {
                    toks.push(std::mem::take(&mut cur));
                }
                toks.push(c.to_string());
            } else if c.is_whitespace() {
                if !cur.is_empty() {
                    toks.push(std::mem::take(&mut cur));
                }
            } else {
                cur.push(c);
            }
        }
        if !cur.is_empty() {
            toks.push(cur);
        }
        let mut pos = 0;
        let v = Self::many(&toks, &mut pos)?;
        if pos == toks.len() { Some(v) } else { None }
    }
    fn many(toks: &[String], pos: &mut usize) -> Option<Vec<Sx>> {
        let mut out = vec![];
        while *pos < toks.len() {
            match toks[*pos].as_str() {
                ")" => return Some(out),
                "(" => {
                    *pos += 1;
                    let inner = Self::many(toks, pos)?;
                    if *pos >= toks.len() || toks[*pos] != ")" {
                        return None;
                    }
                    *pos += 1;
                    out.push(Sx::L(inner));
                }
                t => {
                    out.push(Sx::A(t.to_string()));
                    *pos += 1;
                }
            }
        }
        Some(out)
    }
    pub fn atom(&self) -> Option<&str> {
        match self {
            Sx::A(s) => Some(s),
            _ => None,
        }
    }
    pub fn list(&self) -> Option<&[Sx]> {
        match self {
            Sx::L(v) => Some(v),
            _ => None,
        }
    }
    pub fn nat(&self) -> Option<usize> {
        self.atom()?.parse().ok()
    }
    pub fn head(&self) -> Option<&str> {
        self.list()?.first()?.atom()
    }
    pub fn render(&self) -> String {
        match self {
            Sx::A(s) => s.clone(),
            Sx::L(v) => format!("({})", v.iter().map(|x| x.render()).collect::<Vec<_>>().join(" ")),
        }
    }
}

// ---------------------------------------------------------------------------------------------
// Names
// ---------------------------------------------------------------------------------------------

/// Interning of tuple names / labels / resource names to the small naturals the model uses.
#[derive(Clone, Debug, Default)]
pub struct Names {
    pub by_name: HashMap<String, usize>,
    pub names: Vec<String>,
}

impl Names {
    pub fn new() -> Names {
        let mut n = Names::default();
        n.id("Ok"); // 1 (0 is unused so that `_` and 0 never look alike in dumps)
        n
    }
    pub fn id(&mut self, s: &str) -> usize {
        if let Some(&i) = self.by_name.get(s) {
            return i;
        }
        self.names.push(s.to_string());
        let i = self.names.len();
        self.by_name.insert(s.to_string(), i);
        i
    }
    pub fn name(&self, i: usize) -> String {
        if i >= 1 && i <= self.names.len() { self.names[i - 1].clone() } else { format!("n{i}") }
    }
    pub fn opt(&mut self, s: &Option<String>) -> String {
        match s {
            Some(s) => self.id(s).to_string(),
            None => "_".into(),
        }
    }
}

// ---------------------------------------------------------------------------------------------
// Codec: quiver_core types <-> driver syntax
// ---------------------------------------------------------------------------------------------

fn opt_id(o: &Option<usize>) -> String {
    match o {
        Some(i) => i.to_string(),
        None => "_".into(),
    }
}

pub fn type_sx(t: &Type, names: &mut Names) -> String {
    match t {
        Type::Integer => "int".into(),
        Type::Binary => "bin".into(),
        Type::Reference => "ref".into(),
        Type::Tuple(i) => format!("(tuple {i})"),
        Type::Partial { name, fields } => {
            let mut s = format!("(part {}", names.opt(name));
            for (l, t) in fields {
                s.push_str(&format!(" ({} {})", names.id(l), t));
            }
            s.push(')');
            s
        }
        Type::Callable { parameter, result, receive } => format!("(fn {parameter} {result} {receive})"),
        Type::Cycle(d) => format!("(cycle {d})"),
        Type::Union(ids) => {
            let mut s = "(union".to_string();
            for i in ids {
                s.push_str(&format!(" {i}"));
            }
            s.push(')');
            s
        }
        Type::Process { send, receive } => format!("(process {} {})", opt_id(send), opt_id(receive)),
        Type::Resource(n) => format!("(res {})", names.id(n)),
        Type::Variable(n) => format!("(var {})", names.id(n)),
    }
}

pub fn tuple_sx(t: &TupleTypeInfo, names: &mut Names) -> String {
    let mut s = format!("({}", names.opt(&t.name));
    for (l, ty) in &t.fields {
        s.push_str(&format!(" ({} {})", names.opt(l), ty));
    }
    s.push(')');
    s
}

pub fn entries_sx(types: &[Type], tuples: &[TupleTypeInfo], names: &mut Names) -> String {
    let mut s = "(types".to_string();
    for t in types {
        s.push(' ');
        s.push_str(&type_sx(t, names));
    }
    s.push_str(") (tuples");
    for t in tuples {
        s.push(' ');
        s.push_str(&tuple_sx(t, names));
    }
    s.push(')');
    s
}

pub fn table_sx(types: &[Type], tuples: &[TupleTypeInfo], names: &mut Names) -> String {
    format!("(table {})", entries_sx(types, tuples, names))
}

fn opt_name_of(x: &Sx, names: &Names) -> Option<Option<String>> {
    match x.atom()? {
        "_" => Some(None),
        a => Some(Some(names.name(a.parse().ok()?))),
    }
}

fn opt_nat_of(x: &Sx) -> Option<Option<usize>> {
    match x.atom()? {
        "_" => Some(None),
        a => Some(Some(a.parse().ok()?)),
    }
}

pub fn type_of_sx(x: &Sx, names: &Names) -> Option<Type> {
    match x {
        Sx::A(a) => match a.as_str() {
            "int" => Some(Type::Integer),
            "bin" => Some(Type::Binary),
            "ref" => Some(Type::Reference),
            _ => None,
        },
        Sx::L(v) => match v.first()?.atom()? {
            "tuple" => Some(Type::Tuple(v.get(1)?.nat()?)),
            "part" => {
                let name = opt_name_of(v.get(1)?, names)?;
                let mut fields = vec![];
                for f in &v[2..] {
                    let f = f.list()?;
                    fields.push((names.name(f.first()?.nat()?), f.get(1)?.nat()?));
                }
                Some(Type::Partial { name, fields })
            }
            "fn" => Some(Type::Callable { parameter: v.get(1)?.nat()?, result: v.get(2)?.nat()?, receive: v.get(3)?.nat()? }),
            "cycle" => Some(Type::Cycle(v.get(1)?.nat()?)),
            "union" => {
                let mut ids = vec![];
                for i in &v[1..] {
                    ids.push(i.nat()?);
                }
                Some(Type::Union(ids))
            }
            "process" => Some(Type::Process { send: opt_nat_of(v.get(1)?)?, receive: opt_nat_of(v.get(2)?)? }),
            "res" => Some(Type::Resource(names.name(v.get(1)?.nat()?))),
            "var" => Some(Type::Variable(names.name(v.get(1)?.nat()?))),
            _ => None,
        },
    }
}

pub fn tuple_of_sx(x: &Sx, names: &Names) -> Option<TupleTypeInfo> {
    let v = x.list()?;
    let name = opt_name_of(v.first()?, names)?;
    let mut fields = vec![];
    for f in &v[1..] {
        let f = f.list()?;
        fields.push((opt_name_of(f.first()?, names)?, f.get(1)?.nat()?));
    }
    Some(TupleTypeInfo { name, fields })
}

/// parse `(types …) (tuples …)` (two consecutive S-expressions starting at `xs[at]`).
pub fn entries_of_sx(xs: &[Sx], at: usize, names: &Names) -> Option<(Vec<Type>, Vec<TupleTypeInfo>)> {
    let tys = xs.get(at)?.list()?;
    let tus = xs.get(at + 1)?.list()?;
    if tys.first()?.atom()? != "types" || tus.first()?.atom()? != "tuples" {
        return None;
    }
    let mut types = vec![];
    for t in &tys[1..] {
        types.push(type_of_sx(t, names)?);
    }
    let mut tuples = vec![];
    for t in &tus[1..] {
        tuples.push(tuple_of_sx(t, names)?);
    }
    Some((types, tuples))
}

/// A plain table (what both the implementation and the model see).
#[derive(Clone, Debug, Default)]
pub struct Tbl {
    pub types: Vec<Type>,
    pub tuples: Vec<TupleTypeInfo>,
}

impl TypeLookup for Tbl {
    fn lookup_type(&self, id: usize) -> Option<&Type> {
        self.types.get(id)
    }
    fn lookup_tuple(&self, id: usize) -> Option<&TupleTypeInfo> {
        self.tuples.get(id)
    }
}

impl Tbl {
    pub fn of_program(p: &Program) -> Tbl {
        Tbl { types: p.get_types().clone(), tuples: p.get_tuples().clone() }
    }
    pub fn sx(&self, names: &mut Names) -> String {
        table_sx(&self.types, &self.tuples, names)
    }
    pub fn parse(s: &str, names: &Names) -> Option<Tbl> {
        let xs = Sx::parse(s)?;
        let l = xs.first()?.list()?;
        if l.first()?.atom()? != "table" {
            return None;
        }
        let (types, tuples) = entries_of_sx(l, 1, names)?;
        Some(Tbl { types, tuples })
    }
    /// Rebuild a `Program` holding exactly this table, through the public registration API.
    /// (`Program::new()` pre-registers NIL and Ok; a table taken from a program starts with them.)
    pub fn to_program(&self) -> Option<Program> {
        let mut p = Program::new();
        for (i, t) in self.tuples.iter().enumerate() {
            let id = p.register_tuple(t.name.clone(), t.fields.clone());
            if id != i {
                return None;
            }
        }
        for (i, t) in self.types.iter().enumerate() {
            let id = p.register_type(t.clone());
            if id != i {
                return None;
            }
        }
        Some(p)
    }
    /// Human-readable rendering of a type id as a term (ids expanded; the id graph is a DAG).
    pub fn show(&self, id: usize) -> String {
        self.show_d(id, 0)
    }
    fn show_d(&self, id: usize, depth: usize) -> String {
        if depth > 12 {
            return format!("#{id}");
        }
        match self.types.get(id) {
            None => format!("?{id}"),
            Some(Type::Integer) => "int".into(),
            Some(Type::Binary) => "bin".into(),
            Some(Type::Reference) => "ref".into(),
            Some(Type::Resource(n)) => format!("res:{n}"),
            Some(Type::Variable(n)) => format!("'{n}"),
            Some(Type::Cycle(d)) => format!("^{d}"),
            Some(Type::Union(ids)) => {
                if ids.is_empty() {
                    "never".into()
                } else {
                    format!("({})", ids.iter().map(|i| self.show_d(*i, depth + 1)).collect::<Vec<_>>().join(" | "))
                }
            }
            Some(Type::Tuple(t)) => match self.tuples.get(*t) {
                None => format!("tuple?{t}"),
                Some(info) => format!(
                    "{}[{}]",
                    info.name.clone().unwrap_or_default(),
                    info.fields
                        .iter()
                        .map(|(l, t)| match l {
                            Some(l) => format!("{l}: {}", self.show_d(*t, depth + 1)),
                            None => self.show_d(*t, depth + 1),
                        })
                        .collect::<Vec<_>>()
                        .join(", ")
                ),
            },
            Some(Type::Partial { name, fields }) => format!(
                "{}({})",
                name.clone().unwrap_or_default(),
                fields.iter().map(|(l, t)| format!("{l}: {}", self.show_d(*t, depth + 1))).collect::<Vec<_>>().join(", ")
            ),
            Some(Type::Callable { parameter, result, receive }) => format!(
                "#({} -> {} ! {})",
                self.show_d(*parameter, depth + 1),
                self.show_d(*result, depth + 1),
                self.show_d(*receive, depth + 1)
            ),
            Some(Type::Process { send, receive }) => format!(
                "@({} / {})",
                send.map(|s| self.show_d(s, depth + 1)).unwrap_or("_".into()),
                receive.map(|s| self.show_d(s, depth + 1)).unwrap_or("_".into())
            ),
        }
    }
    /// Canonical structural rendering: like `show` but union variants sorted and de-duplicated,
    /// so that two results that differ only in registration order / variant order compare equal.
    pub fn canon(&self, id: usize) -> String {
        self.canon_d(id, 0)
    }
    fn canon_d(&self, id: usize, depth: usize) -> String {
        if depth > 12 {
            return format!("#{id}");
        }
        match self.types.get(id) {
            Some(Type::Union(ids)) => {
                let set: BTreeSet<String> = ids.iter().map(|i| self.canon_d(*i, depth + 1)).collect();
                format!("U({})", set.into_iter().collect::<Vec<_>>().join("|"))
            }
            Some(Type::Tuple(t)) => match self.tuples.get(*t) {
                None => format!("tuple?{t}"),
                Some(info) => format!(
                    "{}[{}]",
                    info.name.clone().unwrap_or("_".into()),
                    info.fields
                        .iter()
                        .map(|(l, t)| format!("{}:{}", l.clone().unwrap_or("_".into()), self.canon_d(*t, depth + 1)))
                        .collect::<Vec<_>>()
                        .join(",")
                ),
            },
            Some(Type::Partial { name, fields }) => format!(
                "{}({})",
                name.clone().unwrap_or("_".into()),
                fields.iter().map(|(l, t)| format!("{l}:{}", self.canon_d(*t, depth + 1))).collect::<Vec<_>>().join(",")
            ),
            Some(Type::Callable { parameter, result, receive }) => format!(
                "#({}->{}!{})",
                self.canon_d(*parameter, depth + 1),
                self.canon_d(*result, depth + 1),
                self.canon_d(*receive, depth + 1)
            ),
            Some(Type::Process { send, receive }) => format!(
                "@({}/{})",
                send.map(|s| self.canon_d(s, depth + 1)).unwrap_or("_".into()),
                receive.map(|s| self.canon_d(s, depth + 1)).unwrap_or("_".into())
            ),
            _ => self.show_d(id, depth),
        }
    }
    pub fn kind(&self, id: usize) -> &'static str {
        match self.types.get(id) {
            None => "missing",
            Some(Type::Integer) => "int",
            Some(Type::Binary) => "bin",
            Some(Type::Reference) => "ref",
            Some(Type::Resource(_)) => "res",
            Some(Type::Variable(_)) => "var",
            Some(Type::Cycle(_)) => "cycle",
            Some(Type::Union(v)) if v.is_empty() => "never",
            Some(Type::Union(_)) => "union",
            Some(Type::Tuple(_)) => "tuple",
            Some(Type::Partial { .. }) => "part",
            Some(Type::Callable { .. }) => "fn",
            Some(Type::Process { .. }) => "process",
        }
    }
    /// ids reachable from `roots` (types and tuples), for shrinking a replay to what matters.
    pub fn reachable(&self, roots: &[usize]) -> (BTreeSet<usize>, BTreeSet<usize>) {
        let mut ty = BTreeSet::new();
        let mut tu = BTreeSet::new();
        let mut todo: Vec<usize> = roots.to_vec();
        while let Some(i) = todo.pop() {
            if !ty.insert(i) {
                continue;
            }
            match self.types.get(i) {
                Some(Type::Union(ids)) => todo.extend(ids.iter().copied()),
                Some(Type::Tuple(t)) => {
                    if tu.insert(*t) {
                        if let Some(info) = self.tuples.get(*t) {
                            todo.extend(info.fields.iter().map(|f| f.1));
                        }
                    }
                }
                Some(Type::Partial { fields, .. }) => todo.extend(fields.iter().map(|f| f.1)),
                Some(Type::Callable { parameter, result, receive }) => todo.extend([*parameter, *result, *receive]),
                Some(Type::Process { send, receive }) => {
                    todo.extend(send.iter().copied());
                    todo.extend(receive.iter().copied());
                }
                _ => {}
            }
        }
        (ty, tu)
    }
    /// The sub-table reachable from `roots`, re-indexed (order preserved); returns the new table
    /// and the images of the roots. NIL and Ok tuples (0, 1) are always kept at 0, 1.
    pub fn subtable(&self, roots: &[usize]) -> (Tbl, Vec<usize>) {
        let (ty, mut tu) = self.reachable(roots);
        tu.insert(0);
        tu.insert(1);
        let tymap: HashMap<usize, usize> = ty.iter().enumerate().map(|(n, o)| (*o, n)).collect();
        let tumap: HashMap<usize, usize> = tu.iter().enumerate().map(|(n, o)| (*o, n)).collect();
        let m = |i: &usize| *tymap.get(i).unwrap_or(&usize::MAX.min(9999));
        let mut out = Tbl::default();
        for o in &tu {
            if let Some(info) = self.tuples.get(*o) {
                out.tuples.push(TupleTypeInfo { name: info.name.clone(), fields: info.fields.iter().map(|(l, t)| (l.clone(), m(t))).collect() });
            }
        }
        for o in &ty {
            let Some(t) = self.types.get(*o) else { continue };
            out.types.push(match t {
                Type::Union(ids) => Type::Union(ids.iter().map(m).collect()),
                Type::Tuple(t) => Type::Tuple(*tumap.get(t).unwrap_or(&9999)),
                Type::Partial { name, fields } => Type::Partial { name: name.clone(), fields: fields.iter().map(|(l, t)| (l.clone(), m(t))).collect() },
                Type::Callable { parameter, result, receive } => Type::Callable { parameter: m(parameter), result: m(result), receive: m(receive) },
                Type::Process { send, receive } => Type::Process { send: send.as_ref().map(m), receive: receive.as_ref().map(m) },
                other => other.clone(),
            });
        }
        (out, roots.iter().map(m).collect())
    }
    /// Tree-unfolding of the graph below `roots`: every OCCURRENCE of a type (and tuple) gets an id
    /// of its own, so no id is met below two different lists of enclosing types. The meaning of the
    /// roots is unchanged (`Cycle` depths count enclosing unions, and those are copied with the
    /// path). `None` when the unfolding would exceed `cap` types. Children come before parents.
    pub fn unshare(&self, roots: &[usize], cap: usize) -> Option<(Tbl, Vec<usize>)> {
        fn go(src: &Tbl, out: &mut Tbl, id: usize, cap: usize) -> Option<usize> {
            if out.types.len() > cap {
                return None;
            }
            let t = match src.types.get(id)? {
                Type::Union(ids) => {
                    let mut v = vec![];
                    for i in ids {
                        v.push(go(src, out, *i, cap)?);
                    }
                    Type::Union(v)
                }
                Type::Tuple(t) => {
                    let info = src.tuples.get(*t)?;
                    let mut fields = vec![];
                    for (l, f) in &info.fields {
                        fields.push((l.clone(), go(src, out, *f, cap)?));
                    }
                    out.tuples.push(TupleTypeInfo { name: info.name.clone(), fields });
                    Type::Tuple(out.tuples.len() - 1)
                }
                Type::Partial { name, fields } => {
                    let mut fs = vec![];
                    for (l, f) in fields {
                        fs.push((l.clone(), go(src, out, *f, cap)?));
                    }
                    Type::Partial { name: name.clone(), fields: fs }
                }
                Type::Callable { parameter, result, receive } => {
                    let parameter = go(src, out, *parameter, cap)?;
                    let result = go(src, out, *result, cap)?;
                    let receive = go(src, out, *receive, cap)?;
                    Type::Callable { parameter, result, receive }
                }
                Type::Process { send, receive } => {
                    let send = match send { Some(x) => Some(go(src, out, *x, cap)?), None => None };
                    let receive = match receive { Some(x) => Some(go(src, out, *x, cap)?), None => None };
                    Type::Process { send, receive }
                }
                other => other.clone(),
            };
            out.types.push(t);
            Some(out.types.len() - 1)
        }
        let mut out = Tbl::default();
        for t in self.tuples.iter().take(2) {
            out.tuples.push(TupleTypeInfo { name: t.name.clone(), fields: vec![] });
        }
        let mut img = vec![];
        for r in roots {
            img.push(go(self, &mut out, *r, cap)?);
        }
        Some((out, img))
    }
}

// ---------------------------------------------------------------------------------------------
// Type terms and their generation
// ---------------------------------------------------------------------------------------------

#[derive(Clone, Debug, PartialEq, Eq, Hash)]
pub enum Tm {
    Int,
    Bin,
    Ref,
    Res(String),
    Never,
    Tuple(Option<String>, Vec<(Option<String>, Tm)>),
    Partial(Option<String>, Vec<(String, Tm)>),
    /// a union node (a boundary). `raw = true` registers `Type::Union(ids)` as is; otherwise the
    /// ids go through the flatten/dedup of `union_type_ids` only when that keeps a union node
    /// (so that the boundary count the `Cycle` depths were computed with stays right).
    Union(Vec<Tm>),
    Fn(Box<Tm>, Box<Tm>, Box<Tm>),
    Cycle(usize),
    Proc(Option<Box<Tm>>, Option<Box<Tm>>),
    Var(String),
}

pub const TUPLE_NAMES: [Option<&str>; 5] = [None, Some("A"), Some("B"), Some("Ok"), None];
pub const LABELS: [Option<&str>; 4] = [None, Some("x"), Some("y"), None];
pub const PLABELS: [&str; 3] = ["x", "y", "z"];

impl Tm {
    /// register bottom-up through the public API; returns the type id.
    pub fn register(&self, p: &mut Program) -> usize {
        match self {
            Tm::Int => p.register_type(Type::Integer),
            Tm::Bin => p.register_type(Type::Binary),
            Tm::Ref => p.register_type(Type::Reference),
            Tm::Res(n) => p.register_type(Type::Resource(n.clone())),
            Tm::Never => p.register_type(Type::Union(vec![])),
            Tm::Var(n) => p.register_type(Type::Variable(n.clone())),
            Tm::Cycle(d) => p.register_type(Type::Cycle(*d)),
            Tm::Tuple(name, fields) => {
                let fs: Vec<(Option<String>, usize)> = fields.iter().map(|(l, t)| (l.clone(), t.register(p))).collect();
                let tid = p.register_tuple(name.clone(), fs);
                p.register_type(Type::Tuple(tid))
            }
            Tm::Partial(name, fields) => {
                let fs: Vec<(String, usize)> = fields.iter().map(|(l, t)| (l.clone(), t.register(p))).collect();
                p.register_type(Type::Partial { name: name.clone(), fields: fs })
            }
            Tm::Union(vs) => {
                let ids: Vec<usize> = vs.iter().map(|t| t.register(p)).collect();
                p.register_type(Type::Union(ids))
            }
            Tm::Fn(a, b, c) => {
                let (a, b, c) = (a.register(p), b.register(p), c.register(p));
                p.register_type(Type::Callable { parameter: a, result: b, receive: c })
            }
            Tm::Proc(s, r) => {
                let s = s.as_ref().map(|t| t.register(p));
                let r = r.as_ref().map(|t| t.register(p));
                p.register_type(Type::Process { send: s, receive: r })
            }
        }
    }
    /// largest number of boundaries a `Cycle` inside reaches *above* the term itself
    /// (0 = the term is closed).
    pub fn free_depth(&self) -> usize {
        fn go(t: &Tm, inside: usize) -> usize {
            match t {
                Tm::Cycle(d) => d.saturating_sub(inside),
                Tm::Tuple(_, fs) => fs.iter().map(|f| go(&f.1, inside)).max().unwrap_or(0),
                Tm::Partial(_, fs) => fs.iter().map(|f| go(&f.1, inside)).max().unwrap_or(0),
                Tm::Union(vs) => vs.iter().map(|v| go(v, inside + 1)).max().unwrap_or(0),
                Tm::Fn(a, b, c) => go(a, inside + 1).max(go(b, inside + 1)).max(go(c, inside + 1)),
                Tm::Proc(s, r) => s.as_ref().map(|t| go(t, inside)).unwrap_or(0).max(r.as_ref().map(|t| go(t, inside)).unwrap_or(0)),
                _ => 0,
            }
        }
        go(self, 0)
    }
    /// some tuple / partial node carries the same label twice (such *values* cannot be built:
    /// the compiler answers `FieldDuplicated`, so these types are outside the property's domain)
    pub fn has_dup_labels(&self) -> bool {
        fn dup<'a>(ls: impl Iterator<Item = &'a str>) -> bool {
            let mut seen = BTreeSet::new();
            for l in ls {
                if !seen.insert(l.to_string()) {
                    return true;
                }
            }
            false
        }
        match self {
            Tm::Tuple(_, fs) => dup(fs.iter().filter_map(|f| f.0.as_deref())) || fs.iter().any(|f| f.1.has_dup_labels()),
            Tm::Partial(_, fs) => dup(fs.iter().map(|f| f.0.as_str())) || fs.iter().any(|f| f.1.has_dup_labels()),
            Tm::Union(vs) => vs.iter().any(|v| v.has_dup_labels()),
            Tm::Fn(a, b, c) => a.has_dup_labels() || b.has_dup_labels() || c.has_dup_labels(),
            Tm::Proc(s, r) => s.as_ref().map(|t| t.has_dup_labels()).unwrap_or(false) || r.as_ref().map(|t| t.has_dup_labels()).unwrap_or(false),
            _ => false,
        }
    }
    pub fn has_cycle(&self) -> bool {
        match self {
            Tm::Cycle(_) => true,
            Tm::Tuple(_, fs) => fs.iter().any(|f| f.1.has_cycle()),
            Tm::Partial(_, fs) => fs.iter().any(|f| f.1.has_cycle()),
            Tm::Union(vs) => vs.iter().any(|v| v.has_cycle()),
            Tm::Fn(a, b, c) => a.has_cycle() || b.has_cycle() || c.has_cycle(),
            Tm::Proc(s, r) => s.as_ref().map(|t| t.has_cycle()).unwrap_or(false) || r.as_ref().map(|t| t.has_cycle()).unwrap_or(false),
            _ => false,
        }
    }
    pub fn size(&self) -> usize {
        1 + match self {
            Tm::Tuple(_, fs) => fs.iter().map(|f| f.1.size()).sum(),
            Tm::Partial(_, fs) => fs.iter().map(|f| f.1.size()).sum(),
            Tm::Union(vs) => vs.iter().map(|v| v.size()).sum(),
            Tm::Fn(a, b, c) => a.size() + b.size() + c.size(),
            Tm::Proc(s, r) => s.as_ref().map(|t| t.size()).unwrap_or(0) + r.as_ref().map(|t| t.size()).unwrap_or(0),
            _ => 0,
        }
    }
    pub fn features(&self, out: &mut BTreeSet<&'static str>) {
        match self {
            Tm::Int | Tm::Bin | Tm::Ref => {
                out.insert("prim");
            }
            Tm::Res(_) => {
                out.insert("resource");
            }
            Tm::Never => {
                out.insert("never");
            }
            Tm::Var(_) => {
                out.insert("variable");
            }
            Tm::Cycle(d) => {
                out.insert(if *d == 1 { "cycle1" } else { "cycle>1" });
            }
            Tm::Tuple(n, fs) => {
                out.insert(if n.is_some() { "tuple-named" } else { "tuple-unnamed" });
                if fs.iter().any(|f| f.0.is_some()) {
                    out.insert("tuple-labelled");
                }
                for f in fs {
                    if matches!(f.1, Tm::Union(_)) {
                        out.insert("union-under-tuple");
                        if f.1.has_cycle() {
                            out.insert("union-under-tuple-with-cycle");
                        }
                    }
                    f.1.features(out);
                }
            }
            Tm::Partial(n, fs) => {
                out.insert(if n.is_some() { "partial-named" } else { "partial-unnamed" });
                for f in fs {
                    f.1.features(out);
                }
            }
            Tm::Union(vs) => {
                out.insert("union");
                if vs.len() == 1 {
                    out.insert("union-single");
                }
                if vs.iter().any(|v| matches!(v, Tm::Union(_))) {
                    out.insert("union-nested-raw");
                }
                if self.has_cycle() {
                    out.insert("recursive");
                }
                for v in vs {
                    v.features(out);
                }
            }
            Tm::Fn(a, b, c) => {
                out.insert("callable");
                if !matches!(**c, Tm::Never) {
                    out.insert("callable-receiving");
                }
                a.features(out);
                b.features(out);
                c.features(out);
            }
            Tm::Proc(s, r) => {
                out.insert("process");
                if s.is_none() || r.is_none() {
                    out.insert("process-open");
                }
                if let Some(s) = s {
                    s.features(out);
                }
                if let Some(r) = r {
                    r.features(out);
                }
            }
        }
    }
}

/// Generation parameters.
#[derive(Clone, Debug)]
pub struct GenCfg {
    /// allow `Variable` and one-directional process types (NOT closed — correspondence only)
    pub open: bool,
    /// allow callable / process types
    pub higher: bool,
    /// allow recursion
    pub cycles: bool,
}

pub fn gen_leaf(r: &mut Rng, guards: &[bool], cfg: &GenCfg) -> Tm {
    // a guarded back-reference if one is available
    if cfg.cycles && !guards.is_empty() && r.chance(2, 5) {
        let ok: Vec<usize> = (1..=guards.len()).filter(|d| guards[guards.len() - d]).collect();
        if !ok.is_empty() {
            return Tm::Cycle(*r.pick(&ok));
        }
    }
    match r.below(14) {
        0..=3 => Tm::Int,
        4..=6 => Tm::Bin,
        7 => Tm::Ref,
        8 => Tm::Tuple(None, vec![]),
        9 => Tm::Tuple(Some("Ok".into()), vec![]),
        10 => Tm::Tuple(Some("A".into()), vec![]),
        11 => Tm::Res(if r.chance(1, 2) { "file".into() } else { "sock".into() }),
        12 => {
            if cfg.open && r.chance(1, 2) {
                Tm::Var("t".into())
            } else {
                Tm::Never
            }
        }
        _ => Tm::Int,
    }
}

/// `guards[i]` (bottom first) = a constructor has been crossed since boundary `i`.
pub fn gen_tm(r: &mut Rng, depth: usize, guards: &mut Vec<bool>, cfg: &GenCfg) -> Tm {
    if depth == 0 {
        return gen_leaf(r, guards, cfg);
    }
    let k = r.below(100);
    if k < 22 {
        gen_leaf(r, guards, cfg)
    } else if k < 52 {
        // tuple
        let name = TUPLE_NAMES[r.usize(TUPLE_NAMES.len())].map(|s| s.to_string());
        let arity = [0usize, 1, 1, 2, 2, 2, 3][r.usize(7)];
        let saved = guards.clone();
        for g in guards.iter_mut() {
            *g = true;
        }
        let labelled = r.chance(1, 3);
        let mut fields = vec![];
        for i in 0..arity {
            let l = if labelled { Some(PLABELS[i % 3].to_string()) } else { LABELS[r.usize(LABELS.len())].map(|s| s.to_string()) };
            fields.push((l, gen_tm(r, depth - 1, guards, cfg)));
        }
        *guards = saved;
        Tm::Tuple(name, fields)
    } else if k < 74 {
        // union: a new (unguarded) boundary
        let n = [1usize, 2, 2, 2, 3, 3, 4][r.usize(7)];
        guards.push(false);
        let mut vs = vec![];
        for _ in 0..n {
            let mut v = gen_tm(r, depth - 1, guards, cfg);
            // no union directly under a union (the compiler flattens those) except rarely, raw
            if matches!(v, Tm::Union(_)) && !r.chance(1, 8) {
                v = gen_leaf(r, &[], cfg);
            }
            vs.push(v);
        }
        guards.pop();
        Tm::Union(vs)
    } else if k < 85 {
        // partial
        let name = if r.chance(1, 2) { None } else { Some(["A", "B"][r.usize(2)].to_string()) };
        let n = 1 + r.usize(2);
        let saved = guards.clone();
        for g in guards.iter_mut() {
            *g = true;
        }
        let mut fields = vec![];
        let off = r.usize(3);
        for i in 0..n {
            fields.push((PLABELS[(i + off) % 3].to_string(), gen_tm(r, depth - 1, guards, cfg)));
        }
        *guards = saved;
        Tm::Partial(name, fields)
    } else if k < 94 && cfg.higher {
        // callable: a guarded boundary
        let saved = guards.clone();
        for g in guards.iter_mut() {
            *g = true;
        }
        guards.push(true);
        let a = gen_tm(r, depth - 1, guards, cfg);
        let b = gen_tm(r, depth - 1, guards, cfg);
        let c = if r.chance(1, 5) { gen_tm(r, depth.saturating_sub(2), guards, cfg) } else { Tm::Never };
        *guards = saved;
        Tm::Fn(Box::new(a), Box::new(b), Box::new(c))
    } else if cfg.higher {
        let saved = guards.clone();
        for g in guards.iter_mut() {
            *g = true;
        }
        let s = gen_tm(r, depth - 1, guards, cfg);
        let rc = gen_tm(r, depth - 1, guards, cfg);
        *guards = saved;
        if cfg.open && r.chance(1, 3) {
            if r.chance(1, 2) { Tm::Proc(None, Some(Box::new(rc))) } else { Tm::Proc(Some(Box::new(s)), None) }
        } else {
            Tm::Proc(Some(Box::new(s)), Some(Box::new(rc)))
        }
    } else {
        gen_leaf(r, guards, cfg)
    }
}

/// closed cycle-free filler usable in any context
fn filler(r: &mut Rng) -> Tm {
    match r.below(7) {
        0 | 1 => Tm::Int,
        2 | 3 => Tm::Bin,
        4 => Tm::Tuple(None, vec![]),
        5 => Tm::Tuple(Some("A".into()), vec![(None, Tm::Int)]),
        _ => Tm::Union(vec![Tm::Int, Tm::Bin]),
    }
}

fn filler_nounion(r: &mut Rng) -> Tm {
    match r.below(4) {
        0 => Tm::Int,
        1 => Tm::Bin,
        2 => Tm::Tuple(None, vec![]),
        _ => Tm::Ref,
    }
}

/// One near-miss edit somewhere in the term; keeps closedness and contractiveness (new sub-terms
/// are closed cycle-free fillers, boundaries are never added above a `Cycle` or removed).
pub fn mutate(t: &Tm, r: &mut Rng) -> Tm {
    // descend with probability, else edit here
    let descend = r.chance(3, 5);
    match t {
        Tm::Tuple(name, fields) => {
            if descend && !fields.is_empty() {
                let i = r.usize(fields.len());
                let mut fs = fields.clone();
                fs[i].1 = mutate(&fs[i].1, r);
                return Tm::Tuple(name.clone(), fs);
            }
            let mut fs = fields.clone();
            if fs.len() >= 2 && r.chance(1, 6) {
                // swapped pair: exchange the TYPES of two fields (labels stay)
                let i = r.usize(fs.len());
                let mut j = r.usize(fs.len());
                if i == j {
                    j = (i + 1) % fs.len();
                }
                let t = fs[i].1.clone();
                fs[i].1 = fs[j].1.clone();
                fs[j].1 = t;
                return Tm::Tuple(name.clone(), fs);
            }
            match r.below(8) {
                0 => Tm::Tuple(if name.is_some() { None } else { Some("A".into()) }, fs),
                1 => Tm::Tuple(Some(if name.as_deref() == Some("A") { "B".into() } else { "A".into() }), fs),
                2 => {
                    fs.push((None, filler(r)));
                    Tm::Tuple(name.clone(), fs)
                }
                3 if !fs.is_empty() => {
                    let i = r.usize(fs.len());
                    fs.remove(i);
                    Tm::Tuple(name.clone(), fs)
                }
                4 if !fs.is_empty() => {
                    let i = r.usize(fs.len());
                    fs[i].0 = if fs[i].0.is_some() { None } else { Some("x".into()) };
                    Tm::Tuple(name.clone(), fs)
                }
                5 if !fs.is_empty() => {
                    // tuple -> partial with the labelled fields (widening), if all labelled
                    if fs.iter().all(|f| f.0.is_some()) {
                        Tm::Partial(name.clone(), fs.into_iter().map(|(l, t)| (l.unwrap(), t)).collect())
                    } else {
                        let i = r.usize(fs.len());
                        fs[i].1 = filler(r);
                        Tm::Tuple(name.clone(), fs)
                    }
                }
                6 if t.free_depth() == 0 => {
                    // distribute a union field over the tuple (semantics preserving when closed)
                    if let Some(i) = fs.iter().position(|f| matches!(&f.1, Tm::Union(vs) if !f.1.has_cycle() && !vs.is_empty())) {
                        if fs.iter().all(|f| !f.1.has_cycle()) {
                            if let Tm::Union(vs) = fs[i].1.clone() {
                                let mut alts = vec![];
                                for v in vs {
                                    let mut g = fs.clone();
                                    g[i].1 = v;
                                    alts.push(Tm::Tuple(name.clone(), g));
                                }
                                if r.chance(1, 3) && alts.len() > 1 {
                                    alts.reverse();
                                }
                                return Tm::Union(alts);
                            }
                        }
                    }
                    Tm::Tuple(name.clone(), fs)
                }
                _ if !fs.is_empty() => {
                    let i = r.usize(fs.len());
                    if !fs[i].1.has_cycle() {
                        fs[i].1 = Tm::Union(vec![fs[i].1.clone(), filler(r)]);
                    }
                    Tm::Tuple(name.clone(), fs)
                }
                _ => Tm::Tuple(name.clone(), fs),
            }
        }
        Tm::Partial(name, fields) => {
            if descend && !fields.is_empty() {
                let i = r.usize(fields.len());
                let mut fs = fields.clone();
                fs[i].1 = mutate(&fs[i].1, r);
                return Tm::Partial(name.clone(), fs);
            }
            let mut fs = fields.clone();
            match r.below(5) {
                0 => Tm::Partial(if name.is_some() { None } else { Some("A".into()) }, fs),
                1 => Tm::Partial(Some(if name.as_deref() == Some("A") { "B".into() } else { "A".into() }), fs),
                2 => {
                    let l = PLABELS.iter().find(|l| !fs.iter().any(|f| f.0 == **l)).map(|l| l.to_string());
                    if let Some(l) = l {
                        fs.push((l, filler(r)));
                    }
                    Tm::Partial(name.clone(), fs)
                }
                3 if fs.len() > 1 => {
                    let i = r.usize(fs.len());
                    fs.remove(i);
                    Tm::Partial(name.clone(), fs)
                }
                _ => {
                    // partial -> concrete tuple with exactly these fields (narrowing)
                    Tm::Tuple(name.clone(), fs.into_iter().map(|(l, t)| (Some(l), t)).collect())
                }
            }
        }
        Tm::Union(vs) => {
            if descend && !vs.is_empty() {
                let i = r.usize(vs.len());
                let mut ws = vs.clone();
                let m = mutate(&ws[i], r);
                // keep "no union directly under union" unless it already was
                if !matches!(m, Tm::Union(_)) || matches!(ws[i], Tm::Union(_)) {
                    ws[i] = m;
                }
                return Tm::Union(ws);
            }
            let mut ws = vs.clone();
            if r.chance(1, 5) {
                // add a variant with the same name as an existing tuple variant but another arity
                let tuples: Vec<usize> = ws.iter().enumerate().filter(|(_, w)| matches!(w, Tm::Tuple(_, _))).map(|(i, _)| i).collect();
                if !tuples.is_empty() {
                    let i = *r.pick(&tuples);
                    if let Tm::Tuple(n, fs) = ws[i].clone() {
                        let mut gs = fs.clone();
                        if !gs.is_empty() && r.chance(1, 2) {
                            let k = r.usize(gs.len());
                            gs.remove(k);
                        } else {
                            let k = r.usize(gs.len() + 1);
                            gs.insert(k, (None, filler_nounion(r)));
                        }
                        if r.chance(1, 2) { ws.push(Tm::Tuple(n, gs)) } else { ws.insert(i, Tm::Tuple(n, gs)) }
                        return Tm::Union(ws);
                    }
                }
            }
            match r.below(5) {
                0 if ws.len() > 1 => {
                    let i = r.usize(ws.len());
                    ws.remove(i);
                }
                1 => {
                    let f = filler(r);
                    if !matches!(f, Tm::Union(_)) {
                        ws.push(f);
                    } else {
                        ws.push(Tm::Ref);
                    }
                }
                2 => ws.reverse(),
                3 if !ws.is_empty() => {
                    let i = r.usize(ws.len());
                    let d = ws[i].clone();
                    ws.push(d);
                }
                _ => r.shuffle(&mut ws),
            }
            Tm::Union(ws)
        }
        Tm::Fn(a, b, c) if r.chance(1, 5) => Tm::Fn(b.clone(), a.clone(), c.clone()),
        Tm::Fn(a, b, c) => match r.below(3) {
            0 => Tm::Fn(Box::new(mutate(a, r)), b.clone(), c.clone()),
            1 => Tm::Fn(a.clone(), Box::new(mutate(b, r)), c.clone()),
            _ => {
                if matches!(**c, Tm::Never) {
                    Tm::Fn(a.clone(), b.clone(), Box::new(filler(r)))
                } else {
                    Tm::Fn(a.clone(), b.clone(), Box::new(Tm::Never))
                }
            }
        },
        Tm::Proc(s, rc) => match (s, rc) {
            (Some(s), Some(rc)) => {
                if r.chance(1, 2) {
                    Tm::Proc(Some(Box::new(mutate(s, r))), Some(rc.clone()))
                } else {
                    Tm::Proc(Some(s.clone()), Some(Box::new(mutate(rc, r))))
                }
            }
            _ => t.clone(),
        },
        Tm::Cycle(_) => t.clone(),
        Tm::Int => {
            if r.chance(1, 2) { Tm::Bin } else { Tm::Union(vec![Tm::Int, Tm::Bin]) }
        }
        Tm::Bin => {
            if r.chance(1, 2) { Tm::Int } else { Tm::Union(vec![Tm::Bin, Tm::Tuple(None, vec![])]) }
        }
        Tm::Never => Tm::Int,
        _ => filler(r),
    }
}

/// Hand-written recursive shapes (lists, trees, mutually nested recursion through two
/// boundaries, recursion through a function type) instantiated with random element types.
pub fn gen_recursive_template(r: &mut Rng) -> Tm {
    let elem = || -> Tm { Tm::Int };
    let e1 = match r.below(4) {
        0 => Tm::Int,
        1 => Tm::Bin,
        2 => Tm::Union(vec![Tm::Int, Tm::Bin]),
        _ => elem(),
    };
    let e2 = match r.below(3) {
        0 => Tm::Int,
        1 => Tm::Bin,
        _ => Tm::Tuple(None, vec![]),
    };
    let t = |n: &str, fs: Vec<Tm>| Tm::Tuple(Some(n.into()), fs.into_iter().map(|f| (None, f)).collect());
    match r.below(14) {
        // list with same-name variants of different arity
        9 => Tm::Union(vec![t("Nil", vec![]), t("Cons", vec![e1.clone(), Tm::Cycle(1)]), t("Cons", vec![e1, e2, Tm::Cycle(1)])]),
        // same, the recursive reference in another position / the short variant not recursive
        10 => Tm::Union(vec![t("Cons", vec![e1.clone()]), t("Cons", vec![Tm::Cycle(1), e1])]),
        // a function from a union to the same union (parameter and result share the id)
        11 => {
            let u = if r.chance(1, 2) { Tm::Union(vec![e1, e2]) } else { Tm::Union(vec![t("Nil", vec![]), t("Cons", vec![e1, Tm::Cycle(1)])]) };
            Tm::Fn(Box::new(u.clone()), Box::new(u), Box::new(Tm::Never))
        }
        // a pair of two different unions (its swapped twin comes from the `swap` mutation)
        12 => {
            let u1 = Tm::Union(vec![e1.clone(), t("Nil", vec![])]);
            let u2 = Tm::Union(vec![e1, e2, t("Nil", vec![])]);
            Tm::Tuple(Some("P".into()), vec![(None, u1), (None, u2)])
        }
        // a pair of two recursive lists with different element types
        13 => {
            let l1 = Tm::Union(vec![t("Nil", vec![]), t("Cons", vec![e1, Tm::Cycle(1)])]);
            let l2 = Tm::Union(vec![t("Nil", vec![]), t("Cons", vec![e2, Tm::Cycle(1)])]);
            Tm::Tuple(None, vec![(None, l1), (None, l2)])
        }
        // list
        0 => Tm::Union(vec![t("Nil", vec![]), t("Cons", vec![e1, Tm::Cycle(1)])]),
        // list with the variants the other way round
        1 => Tm::Union(vec![t("Cons", vec![e1, Tm::Cycle(1)]), t("Nil", vec![])]),
        // binary tree
        2 => Tm::Union(vec![t("Leaf", vec![e1]), t("Node", vec![Tm::Cycle(1), Tm::Cycle(1)])]),
        // rose tree: a list of trees inside the tree (two boundaries, ^2 and ^1)
        3 => Tm::Union(vec![
            t("Leaf", vec![e1]),
            t("Node", vec![Tm::Union(vec![t("Nil", vec![]), t("Cons", vec![Tm::Cycle(2), Tm::Cycle(1)])])]),
        ]),
        // two different inner recursive unions that both refer to the outer one
        4 => Tm::Union(vec![
            t("Leaf", vec![e1]),
            t("NodeA", vec![Tm::Union(vec![t("Nil", vec![]), t("Cons", vec![Tm::Cycle(2), Tm::Cycle(1)])])]),
            t("NodeB", vec![Tm::Union(vec![t("End", vec![e2]), t("More", vec![Tm::Cycle(2)])])]),
        ]),
        // recursion through a function type: a stream
        5 => Tm::Fn(Box::new(Tm::Tuple(None, vec![])), Box::new(Tm::Tuple(None, vec![(None, e1), (None, Tm::Cycle(1))])), Box::new(Tm::Never)),
        // list of lists
        6 => {
            let inner = Tm::Union(vec![t("Nil", vec![]), t("Cons", vec![e1, Tm::Cycle(1)])]);
            Tm::Union(vec![t("Nil", vec![]), t("Cons", vec![inner, Tm::Cycle(1)])])
        }
        // recursion under a partial
        7 => Tm::Union(vec![t("Nil", vec![]), Tm::Partial(Some("Cons".into()), vec![("x".into(), e1), ("y".into(), Tm::Cycle(1))])]),
        // labelled list
        _ => Tm::Union(vec![
            Tm::Tuple(None, vec![]),
            Tm::Tuple(Some("Cons".into()), vec![(Some("x".into()), e1), (Some("y".into()), Tm::Cycle(1))]),
        ]),
    }
}

pub use qverif::tmodel::TModel;
