//! Client for a Lean model driver (`qm_*`) with a PER-REQUEST TIME LIMIT and automatic restart.
//!
//! `qverif::Model` blocks for ever on a request the driver does not answer (a result of the
//! implementation the model cannot digest in time, a model bug), and a driver left spinning outlives
//! a harness that `./check` killed. `TModel::ask` / `ask_t` give up after a time limit, kill and
//! restart the driver, re-send the request that established the current state (`table_line`: by
//! default the last request starting with `(table` or `(program`; set it yourself otherwise) and
//! answer `model-timeout`, which the caller reports as a correspondence problem.

pub struct TModel {
    path: std::path::PathBuf,
    child: std::process::Child,
    stdin: std::process::ChildStdin,
    rx: std::sync::mpsc::Receiver<String>,
    /// the request that established the current table (re-sent after a restart)
    pub table_line: String,
    pub requests: u64,
    pub timeouts: u64,
}

impl TModel {
    fn start(path: &std::path::Path) -> (std::process::Child, std::process::ChildStdin, std::sync::mpsc::Receiver<String>) {
        use std::io::BufRead;
        let mut child = std::process::Command::new(path)
            .stdin(std::process::Stdio::piped())
            .stdout(std::process::Stdio::piped())
            .stderr(std::process::Stdio::inherit())
            .spawn()
            .unwrap_or_else(|e| panic!("cannot start model driver {}: {e}", path.display()));
        let stdin = child.stdin.take().unwrap();
        let stdout = child.stdout.take().unwrap();
        let (tx, rx) = std::sync::mpsc::channel();
        std::thread::spawn(move || {
            for l in std::io::BufReader::new(stdout).lines() {
                let Ok(l) = l else { break };
                if tx.send(l).is_err() {
                    break;
                }
            }
        });
        (child, stdin, rx)
    }
    pub fn spawn(path: &std::path::Path) -> TModel {
        let (child, stdin, rx) = Self::start(path);
        TModel { path: path.to_path_buf(), child, stdin, rx, table_line: String::new(), requests: 0, timeouts: 0 }
    }
    fn restart(&mut self) {
        let _ = self.child.kill();
        let _ = self.child.wait();
        let (child, stdin, rx) = Self::start(&self.path);
        self.child = child;
        self.stdin = stdin;
        self.rx = rx;
        if !self.table_line.is_empty() {
            let l = self.table_line.clone();
            let _ = self.raw(&l, 30);
        }
    }
    fn raw(&mut self, line: &str, timeout_s: u64) -> Option<String> {
        use std::io::Write;
        self.stdin.write_all(line.as_bytes()).ok()?;
        self.stdin.write_all(b"\n").ok()?;
        self.stdin.flush().ok()?;
        self.rx.recv_timeout(std::time::Duration::from_secs(timeout_s)).ok()
    }
    /// one request, one answer; `model-timeout` when the driver does not answer in `timeout_s`
    /// seconds (it is then killed and restarted on the current table).
    pub fn ask_t(&mut self, line: &str, timeout_s: u64) -> String {
        self.requests += 1;
        if line.starts_with("(table") || line.starts_with("(program") {
            self.table_line = line.to_string();
        }
        match self.raw(line, timeout_s) {
            Some(l) => l,
            None => {
                self.timeouts += 1;
                self.restart();
                "model-timeout".to_string()
            }
        }
    }
    pub fn ask(&mut self, line: &str) -> String {
        self.ask_t(line, 15)
    }
}

impl Drop for TModel {
    fn drop(&mut self) {
        let _ = self.child.kill();
        let _ = self.child.wait();
    }
}
