//! Corpora taken from /repo at run time (so they follow the repository).
use std::path::Path;

/// Every string literal passed to `evaluate(` / `then_evaluate(` in quiver-tests/tests/*.rs.
pub fn test_sources() -> Vec<(String, String)> {
    let mut out = vec![];
    let dirs = format!("{}/quiver-tests/tests", crate::repo());
    let dir = Path::new(&dirs);
    let mut files: Vec<_> = std::fs::read_dir(dir)
        .map(|d| d.filter_map(|e| e.ok()).map(|e| e.path()).collect())
        .unwrap_or_default();
    files.sort();
    for f in files {
        if f.extension().and_then(|e| e.to_str()) != Some("rs") {
            continue;
        }
        let Ok(text) = std::fs::read_to_string(&f) else { continue };
        let name = f.file_name().unwrap().to_string_lossy().to_string();
        let bytes = text.as_bytes();
        let mut i = 0;
        while let Some(p) = text[i..].find("evaluate(") {
            let mut j = i + p + "evaluate(".len();
            i = j;
            while j < bytes.len() && (bytes[j] as char).is_whitespace() {
                j += 1;
            }
            if j >= bytes.len() {
                break;
            }
            if bytes[j] == b'"' {
                // ordinary string literal with escapes
                let mut s = String::new();
                let mut k = j + 1;
                let cs: Vec<char> = text[k..].chars().collect();
                let mut ci = 0;
                let mut ok = false;
                while ci < cs.len() {
                    let c = cs[ci];
                    if c == '\\' && ci + 1 < cs.len() {
                        let n = cs[ci + 1];
                        match n {
                            'n' => s.push('\n'),
                            't' => s.push('\t'),
                            'r' => s.push('\r'),
                            '0' => s.push('\0'),
                            '\\' => s.push('\\'),
                            '"' => s.push('"'),
                            '\'' => s.push('\''),
                            '\n' => {
                                // line continuation: skip following whitespace
                                ci += 2;
                                while ci < cs.len() && cs[ci].is_whitespace() {
                                    ci += 1;
                                }
                                continue;
                            }
                            _ => {
                                s.push('\\');
                                s.push(n);
                            }
                        }
                        ci += 2;
                        continue;
                    }
                    if c == '"' {
                        ok = true;
                        break;
                    }
                    s.push(c);
                    ci += 1;
                }
                let _ = &mut k;
                if ok {
                    out.push((name.clone(), s));
                }
            } else if text[j..].starts_with("r#\"") {
                let start = j + 3;
                if let Some(e) = text[start..].find("\"#") {
                    out.push((name.clone(), text[start..start + e].to_string()));
                }
            } else if text[j..].starts_with("r\"") {
                let start = j + 2;
                if let Some(e) = text[start..].find('"') {
                    out.push((name.clone(), text[start..start + e].to_string()));
                }
            }
        }
    }
    out
}

/// std/*.qv module sources: (module name, text).
pub fn std_modules() -> Vec<(String, String)> {
    let mut out = vec![];
    let mut files: Vec<_> = std::fs::read_dir(format!("{}/std", crate::repo()))
        .map(|d| d.filter_map(|e| e.ok()).map(|e| e.path()).collect())
        .unwrap_or_default();
    files.sort();
    for f in files {
        if f.extension().and_then(|e| e.to_str()) == Some("qv") {
            if let Ok(t) = std::fs::read_to_string(&f) {
                out.push((f.file_stem().unwrap().to_string_lossy().to_string(), t));
            }
        }
    }
    out
}

/// examples/*.qv
pub fn examples() -> Vec<(String, String)> {
    let mut out = vec![];
    let mut files: Vec<_> = std::fs::read_dir(format!("{}/examples", crate::repo()))
        .map(|d| d.filter_map(|e| e.ok()).map(|e| e.path()).collect())
        .unwrap_or_default();
    files.sort();
    for f in files {
        if f.extension().and_then(|e| e.to_str()) == Some("qv") {
            if let Ok(t) = std::fs::read_to_string(&f) {
                out.push((f.file_name().unwrap().to_string_lossy().to_string(), t));
            }
        }
    }
    out
}

/// Fenced ```quiver blocks of docs/spec.md.
pub fn spec_blocks() -> Vec<String> {
    let Ok(text) = std::fs::read_to_string(format!("{}/docs/spec.md", crate::repo())) else { return vec![] };
    let mut out = vec![];
    let mut cur: Option<String> = None;
    for line in text.lines() {
        if let Some(c) = cur.as_mut() {
            if line.trim_start().starts_with("```") {
                out.push(cur.take().unwrap());
            } else {
                c.push_str(line);
                c.push('\n');
            }
        } else if line.trim_start().starts_with("```quiver") || line.trim() == "```qv" {
            cur = Some(String::new());
        }
    }
    out
}
