//! Structural canonical form of runtime values (DESIGN §2.4):
//! `i<dec>` `b<hex>` `r<worker>:<counter>` `t(<name|_>;<label|_>=<v>,…)` `f<idx>(<caps>)`
//! `u<builtin>` `p<pid>` `x<rid>`. Tuple ids are resolved to name + labels, binaries to bytes.
use quiver_core::bytecode::Constant;
use quiver_core::types::TupleTypeInfo;
use quiver_core::value::{Binary, Value};

pub trait Ctx {
    fn tuple(&self, id: usize) -> Option<&TupleTypeInfo>;
    fn bytes(&self, b: &Binary) -> Option<Vec<u8>>;
    fn builtin_name(&self, _id: usize) -> Option<String> {
        None
    }
}

/// Context over bytecode tables and an extracted heap (`Vec<Vec<u8>>`, as in `extract_heap_data`).
pub struct TablesCtx<'a> {
    pub tuples: &'a [TupleTypeInfo],
    pub constants: &'a [Constant],
    pub heap: &'a [Vec<u8>],
    pub builtins: Vec<String>,
}

impl Ctx for TablesCtx<'_> {
    fn tuple(&self, id: usize) -> Option<&TupleTypeInfo> {
        self.tuples.get(id)
    }
    fn bytes(&self, b: &Binary) -> Option<Vec<u8>> {
        match b {
            Binary::Constant(i) => match self.constants.get(*i) {
                Some(Constant::Binary(v)) => Some(v.clone()),
                _ => None,
            },
            Binary::Heap(i) => self.heap.get(*i).cloned(),
        }
    }
    fn builtin_name(&self, id: usize) -> Option<String> {
        self.builtins.get(id).cloned()
    }
}

pub fn canon(v: &Value, cx: &dyn Ctx) -> String {
    let mut s = String::new();
    go(v, cx, &mut s);
    s
}

fn go(v: &Value, cx: &dyn Ctx, s: &mut String) {
    match v {
        Value::Integer(i) => {
            s.push('i');
            s.push_str(&i.to_string());
        }
        Value::Binary(b) => match cx.bytes(b) {
            Some(bytes) => {
                s.push('b');
                s.push_str(&crate::hex(&bytes));
            }
            None => s.push_str("b?"),
        },
        Value::Reference(r) => {
            s.push_str(&format!("r{}:{}", r >> 48, r & 0xFFFF_FFFF_FFFF));
        }
        Value::Tuple(id, fields) => {
            s.push_str("t(");
            match cx.tuple(*id) {
                Some(info) => {
                    s.push_str(info.name.as_deref().unwrap_or("_"));
                    s.push(';');
                    for (i, f) in fields.iter().enumerate() {
                        if i > 0 {
                            s.push(',');
                        }
                        let label = info.fields.get(i).and_then(|(n, _)| n.as_deref()).unwrap_or("_");
                        s.push_str(label);
                        s.push('=');
                        go(f, cx, s);
                    }
                }
                None => {
                    s.push_str(&format!("?{id};"));
                    for (i, f) in fields.iter().enumerate() {
                        if i > 0 {
                            s.push(',');
                        }
                        s.push_str("_=");
                        go(f, cx, s);
                    }
                }
            }
            s.push(')');
        }
        Value::Function(idx, caps) => {
            s.push_str(&format!("f{idx}("));
            for (i, c) in caps.iter().enumerate() {
                if i > 0 {
                    s.push(',');
                }
                go(c, cx, s);
            }
            s.push(')');
        }
        Value::Builtin(id) => {
            s.push('u');
            s.push_str(&cx.builtin_name(*id).unwrap_or_else(|| format!("#{id}")));
        }
        Value::Process(pid, _) => s.push_str(&format!("p{pid}")),
        Value::Resource(rid, _) => s.push_str(&format!("x{rid}")),
    }
}

/// Small error enum used everywhere a runtime error is compared.
pub fn error_class(e: &quiver_core::Error) -> String {
    use quiver_core::Error::*;
    match e {
        StackUnderflow => "StackUnderflow".into(),
        CallInvalid => "CallInvalid".into(),
        FunctionUndefined(_) => "FunctionUndefined".into(),
        BuiltinUndefined(_) => "BuiltinUndefined".into(),
        FrameUnderflow => "FrameUnderflow".into(),
        VariableUndefined(_) => "VariableUndefined".into(),
        ConstantUndefined(_) => "ConstantUndefined".into(),
        FieldAccessInvalid(_) => "FieldAccessInvalid".into(),
        TypeMismatch { .. } => "TypeMismatch".into(),
        ArityMismatch { .. } => "ArityMismatch".into(),
        InvalidArgument(_) => "InvalidArgument".into(),
        TupleEmpty => "TupleEmpty".into(),
        OperationNotAllowed { .. } => "OperationNotAllowed".into(),
        ScopeCountInvalid { .. } => "ScopeCountInvalid".into(),
        ScopeUnderflow => "ScopeUnderflow".into(),
    }
}

/// Is this error class a "stuck state" (VM-level type/structure failure) rather than a documented
/// value-domain failure? (C01, C07)
pub fn is_stuck_error(e: &quiver_core::Error) -> bool {
    use quiver_core::Error::*;
    !matches!(e, InvalidArgument(_) | OperationNotAllowed { .. })
}
