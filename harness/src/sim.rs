//! Deterministic single-threaded simulator over the REAL `Environment` and `Worker`s.
//!
//! The transport traits (`CommandReceiver`, `EventSender`, `WorkerHandle`) are implemented over
//! shared in-memory FIFO queues, so every scheduling decision — which of {environment, worker i}
//! steps next, how many queued commands / events are *visible* to that step, when the virtual
//! clock advances, how long a time slice is — is an explicit, recorded `Choice`. A schedule is a
//! `Vec<Choice>`; replaying it reproduces the run exactly.
//!
//! Everything observable goes through public API plus the `verif` hooks
//! (`Worker::verif_executor`, `Executor::verif_*`, the time-slice override).
use crate::rng::Rng;
use quiver_compiler::PackageResolver;
use quiver_core::process::ProcessId;
use quiver_core::value::Value;
use quiver_environment::{
    Command, CommandReceiver, Environment, EnvironmentError, Event, EventSender, Repl, ReplError,
    RequestResult, Worker, WorkerHandle,
};
use quiver_io::NativeEffect;
use std::collections::{HashMap, VecDeque};
use std::sync::{Arc, Mutex};

pub type E = NativeEffect;

/// One direction-pair of queues between the environment and one worker.
#[derive(Default)]
pub struct Chan {
    pub cmds: VecDeque<Command<E>>,
    pub evts: VecDeque<Event<E>>,
    /// how many more commands the worker may see in its current step (partial visibility)
    pub cmd_budget: usize,
    /// how many more events the environment may see from this worker in its current step
    pub evt_budget: usize,
    /// record every message that passes (clone) — for ghost histories
    pub record: bool,
    pub cmd_log: Vec<(u64, Command<E>)>,
    pub evt_log: Vec<(u64, Event<E>)>,
}

#[derive(Clone)]
pub struct Shared {
    pub chan: Arc<Mutex<Chan>>,
    pub seq: Arc<Mutex<u64>>,
}

pub struct SimReceiver(Shared);
pub struct SimSender(Shared);
pub struct SimHandle(Shared);

fn next_seq(s: &Shared) -> u64 {
    let mut g = s.seq.lock().unwrap();
    *g += 1;
    *g
}

impl CommandReceiver<E> for SimReceiver {
    fn try_recv(&mut self) -> Result<Option<Command<E>>, EnvironmentError> {
        let mut c = self.0.chan.lock().unwrap();
        if c.cmd_budget == 0 {
            return Ok(None);
        }
        match c.cmds.pop_front() {
            Some(x) => {
                c.cmd_budget -= 1;
                Ok(Some(x))
            }
            None => Ok(None),
        }
    }
}

impl EventSender<E> for SimSender {
    fn send(&mut self, event: Event<E>) -> Result<(), EnvironmentError> {
        let n = next_seq(&self.0);
        let mut c = self.0.chan.lock().unwrap();
        if c.record {
            c.evt_log.push((n, event.clone()));
        }
        c.evts.push_back(event);
        Ok(())
    }
}

impl WorkerHandle<E> for SimHandle {
    fn send(&mut self, command: Command<E>) -> Result<(), EnvironmentError> {
        let n = next_seq(&self.0);
        let mut c = self.0.chan.lock().unwrap();
        if c.record {
            c.cmd_log.push((n, command.clone()));
        }
        c.cmds.push_back(command);
        Ok(())
    }
    fn try_recv(&mut self) -> Result<Option<Event<E>>, EnvironmentError> {
        let mut c = self.0.chan.lock().unwrap();
        if c.evt_budget == 0 {
            return Ok(None);
        }
        match c.evts.pop_front() {
            Some(x) => {
                c.evt_budget -= 1;
                Ok(Some(x))
            }
            None => Ok(None),
        }
    }
}

/// One scheduling decision.
#[derive(Clone, Debug, PartialEq, Eq)]
pub enum Choice {
    /// environment step; `visible[i]` = how many queued events of worker i it may consume
    /// (`usize::MAX` = all)
    Env { visible: Vec<usize> },
    /// worker `i` step; sees at most `visible` queued commands
    Worker { i: usize, visible: usize },
    /// advance the virtual clock by `ms`
    Tick { ms: u64 },
}

impl Choice {
    pub fn render(&self) -> String {
        match self {
            Choice::Env { visible } => {
                if visible.iter().all(|v| *v == usize::MAX) {
                    "E".to_string()
                } else {
                    format!(
                        "E[{}]",
                        visible
                            .iter()
                            .map(|v| if *v == usize::MAX { "*".to_string() } else { v.to_string() })
                            .collect::<Vec<_>>()
                            .join(",")
                    )
                }
            }
            Choice::Worker { i, visible } => {
                if *visible == usize::MAX { format!("W{i}") } else { format!("W{i}[{visible}]") }
            }
            Choice::Tick { ms } => format!("T{ms}"),
        }
    }
}

#[derive(Clone, Debug)]
pub enum StepOutcome {
    /// did_work flag returned by the component
    Ok(bool),
    /// `Err(..)` returned by `Worker::step` / `Environment::step`
    Err(String),
    /// the component panicked
    Panic(String),
}

pub struct Sim {
    pub env: Environment<E>,
    pub workers: Vec<Worker<E, SimReceiver, SimSender>>,
    pub chans: Vec<Shared>,
    pub time_ms: u64,
    pub quantum: Option<usize>,
    pub repl: Option<Repl<E>>,
    pub builtins: crate::run::Builtins,
    pub schedule: Vec<Choice>,
    /// every Err / panic seen while stepping: (schedule index, component, message)
    pub faults: Vec<(usize, String, String)>,
}

/// Parameters of the random scheduler.
#[derive(Clone, Debug)]
pub struct Policy {
    /// probability (per mille) that a step sees only part of its queue
    pub partial_visibility_pm: u64,
    /// probability (per mille) of a clock tick at any point
    pub tick_pm: u64,
    /// maximum tick size in ms
    pub max_tick: u64,
    /// per-mille weight of choosing the environment (the rest is split between workers)
    pub env_weight_pm: u64,
    /// optional per-worker weights (starvation patterns); empty = uniform
    pub worker_weights: Vec<u64>,
}

impl Default for Policy {
    fn default() -> Self {
        Policy { partial_visibility_pm: 150, tick_pm: 20, max_tick: 5, env_weight_pm: 350, worker_weights: vec![] }
    }
}

impl Policy {
    pub fn random(r: &mut Rng, n_workers: usize) -> Policy {
        let mut p = Policy::default();
        p.partial_visibility_pm = *r.pick(&[0, 0, 100, 300, 600]);
        p.tick_pm = *r.pick(&[0, 5, 20, 80]);
        p.max_tick = *r.pick(&[1, 3, 10, 50]);
        p.env_weight_pm = *r.pick(&[150, 350, 350, 600]);
        if r.chance(1, 3) {
            p.worker_weights = (0..n_workers).map(|_| *r.pick(&[1u64, 1, 5, 20])).collect();
        }
        p
    }
}

impl Sim {
    pub fn new(n_workers: usize, quantum: Option<usize>, builtins: crate::run::Builtins, record: bool) -> Sim {
        assert!(n_workers >= 1);
        let seq = Arc::new(Mutex::new(0u64));
        let mut chans = vec![];
        let mut workers = vec![];
        let mut handles: Vec<Box<dyn WorkerHandle<E>>> = vec![];
        for i in 0..n_workers {
            let sh = Shared { chan: Arc::new(Mutex::new(Chan { record, ..Default::default() })), seq: seq.clone() };
            chans.push(sh.clone());
            workers.push(Worker::<E, _, _>::new(
                SimReceiver(sh.clone()),
                SimSender(sh.clone()),
                builtins.clone(),
                false,
                i as u16,
            ));
            handles.push(Box::new(SimHandle(sh)));
        }
        let env = Environment::<E>::new(handles);
        Sim { env, workers, chans, time_ms: 0, quantum, repl: None, builtins, schedule: vec![], faults: vec![] }
    }

    /// Create the REPL (persistent process 0) with in-memory modules.
    pub fn with_repl(mut self, modules: HashMap<Vec<String>, String>) -> Sim {
        let resolver = Box::new(PackageResolver::memory(modules));
        let repl = Repl::new(&mut self.env, resolver, self.builtins.clone()).expect("repl");
        self.repl = Some(repl);
        self
    }

    pub fn n_workers(&self) -> usize {
        self.workers.len()
    }

    pub fn queued_cmds(&self, i: usize) -> usize {
        self.chans[i].chan.lock().unwrap().cmds.len()
    }
    pub fn queued_evts(&self, i: usize) -> usize {
        self.chans[i].chan.lock().unwrap().evts.len()
    }

    /// Execute one scheduling choice on the real components.
    pub fn step(&mut self, c: Choice) -> StepOutcome {
        quiver_core::executor::verif::set_quantum_override(self.quantum);
        let idx = self.schedule.len();
        self.schedule.push(c.clone());
        let out = match &c {
            Choice::Tick { ms } => {
                self.time_ms += ms;
                StepOutcome::Ok(true)
            }
            Choice::Env { visible } => {
                for (i, sh) in self.chans.iter().enumerate() {
                    sh.chan.lock().unwrap().evt_budget = visible.get(i).copied().unwrap_or(usize::MAX);
                }
                let env = &mut self.env;
                match crate::catch(|| env.step()) {
                    Ok(Ok(b)) => StepOutcome::Ok(b),
                    Ok(Err(e)) => StepOutcome::Err(format!("{e:?}")),
                    Err(p) => StepOutcome::Panic(p),
                }
            }
            Choice::Worker { i, visible } => {
                self.chans[*i].chan.lock().unwrap().cmd_budget = *visible;
                let t = self.time_ms;
                let w = &mut self.workers[*i];
                match crate::catch(|| w.step(t)) {
                    Ok(Ok(b)) => StepOutcome::Ok(b),
                    Ok(Err(e)) => StepOutcome::Err(format!("{e:?}")),
                    Err(p) => StepOutcome::Panic(p),
                }
            }
        };
        match &out {
            StepOutcome::Err(m) => self.faults.push((idx, c.render(), format!("Err: {m}"))),
            StepOutcome::Panic(m) => self.faults.push((idx, c.render(), format!("panic: {m}"))),
            _ => {}
        }
        out
    }

    /// Nothing queued anywhere and no worker has a runnable process.
    pub fn idle(&self) -> bool {
        (0..self.n_workers()).all(|i| self.queued_cmds(i) == 0 && self.queued_evts(i) == 0)
            && self.workers.iter().all(|w| !w.has_runnable())
    }

    /// Earliest pending select timeout over all workers.
    pub fn next_timeout(&self) -> Option<u64> {
        self.workers.iter().filter_map(|w| w.next_timeout_ms()).min()
    }

    /// Idle and no timeout pending: nothing can ever happen again without outside input.
    pub fn quiescent(&self) -> bool {
        self.idle() && self.next_timeout().is_none()
    }

    /// Draw the next choice of a random schedule.
    pub fn random_choice(&self, r: &mut Rng, p: &Policy) -> Choice {
        let n = self.n_workers();
        if self.idle() {
            // only time can make progress
            if let Some(t) = self.next_timeout()
                && t > self.time_ms
            {
                // (a timeout may be absurdly far away: keep the arithmetic inside i64)
                let need = (t - self.time_ms).min(i64::MAX as u64 / 2);
                // sometimes undershoot so that "not early" is exercised
                let ms = if r.chance(1, 3) && need > 1 { r.range(1, need as i64 - 1) as u64 } else { need };
                return Choice::Tick { ms };
            }
        }
        if p.tick_pm > 0 && r.below(1000) < p.tick_pm {
            return Choice::Tick { ms: 1 + r.below(p.max_tick.max(1)) };
        }
        if r.below(1000) < p.env_weight_pm {
            let visible = (0..n)
                .map(|i| {
                    let q = self.queued_evts(i);
                    if q > 0 && r.below(1000) < p.partial_visibility_pm { r.usize(q + 1) } else { usize::MAX }
                })
                .collect();
            return Choice::Env { visible };
        }
        let i = if p.worker_weights.len() == n {
            let total: u64 = p.worker_weights.iter().sum();
            let mut x = r.below(total.max(1));
            let mut k = 0;
            for (j, w) in p.worker_weights.iter().enumerate() {
                if x < *w {
                    k = j;
                    break;
                }
                x -= w;
            }
            k
        } else {
            r.usize(n)
        };
        let q = self.queued_cmds(i);
        let visible = if q > 0 && r.below(1000) < p.partial_visibility_pm { r.usize(q + 1) } else { usize::MAX };
        Choice::Worker { i, visible }
    }

    /// A fair round: environment then every worker, everything visible.
    pub fn fair_round(&mut self) {
        let n = self.n_workers();
        self.step(Choice::Env { visible: vec![usize::MAX; n] });
        for i in 0..n {
            self.step(Choice::Worker { i, visible: usize::MAX });
        }
    }

    /// Run fair rounds (advancing the clock to the next timeout when idle) until `done` or
    /// quiescence or `max_rounds`. Returns true if `done` became true.
    pub fn run_fair(&mut self, max_rounds: usize, mut done: impl FnMut(&mut Sim) -> bool) -> bool {
        for _ in 0..max_rounds {
            if done(self) {
                return true;
            }
            if self.idle() {
                match self.next_timeout() {
                    Some(t) => {
                        let ms = t.saturating_sub(self.time_ms).max(1);
                        self.step(Choice::Tick { ms });
                    }
                    None => {
                        // one more round lets pending completions be reported
                        self.fair_round();
                        if done(self) {
                            return true;
                        }
                        if self.quiescent() {
                            return false;
                        }
                    }
                }
            }
            self.fair_round();
        }
        done(self)
    }

    /// Run a random schedule until `done`, quiescence or `max_steps`.
    pub fn run_random(&mut self, r: &mut Rng, p: &Policy, max_steps: usize, mut done: impl FnMut(&mut Sim) -> bool) -> bool {
        let mut idle_streak = 0;
        for _ in 0..max_steps {
            if done(self) {
                return true;
            }
            if self.quiescent() {
                idle_streak += 1;
                if idle_streak > 2 * (self.n_workers() + 1) {
                    return false;
                }
                // give every component one more full look (completions are reported lazily)
                self.fair_round();
                continue;
            }
            idle_streak = 0;
            let c = self.random_choice(r, p);
            self.step(c);
        }
        done(self)
    }

    /// Fetch process types (needed before `Repl::evaluate`) with fair rounds.
    pub fn process_types(&mut self) -> HashMap<usize, (quiver_core::types::Type, usize)> {
        let id = self.env.request_process_types().expect("request_process_types");
        let mut out = None;
        for _ in 0..1000 {
            self.fair_round();
            match self.env.poll_request(id) {
                Ok(Some(RequestResult::ProcessTypes(t))) => {
                    out = Some(t);
                    break;
                }
                Ok(Some(_)) => panic!("unexpected result for process types"),
                Ok(None) => {}
                Err(e) => panic!("process types: {e:?}"),
            }
        }
        out.expect("process types not answered")
    }

    /// Submit a line / program to the REPL. `Ok(None)` = nothing to run (type definitions only).
    pub fn submit(&mut self, src: &str) -> Result<Option<u64>, ReplError> {
        let types = self.process_types();
        let mut repl = self.repl.take().expect("with_repl first");
        let r = repl.evaluate(&mut self.env, src, types);
        self.repl = Some(repl);
        r
    }

    /// Poll an evaluation request: `None` = not ready.
    pub fn poll_result(&mut self, request_id: u64) -> Option<Result<(Value, Vec<Vec<u8>>), quiver_core::Error>> {
        match self.env.poll_request(request_id) {
            Ok(Some(RequestResult::Result(r, _))) => Some(r),
            Ok(Some(_)) => panic!("unexpected request result kind"),
            Ok(None) => None,
            Err(e) => panic!("poll_request: {e:?}"),
        }
    }

    /// Canonical string of a value + extracted heap against the environment's merged program.
    pub fn canon(&self, v: &Value, heap: &[Vec<u8>]) -> String {
        let p = self.env.get_program();
        let cx = crate::canon::TablesCtx {
            tuples: p.get_tuples(),
            constants: p.get_constants(),
            heap,
            builtins: p.get_builtins().iter().map(|b| b.name.clone()).collect(),
        };
        crate::canon::canon(v, &cx)
    }

    /// All processes over all workers: (pid, worker, ProcessInfo).
    pub fn processes(&self) -> Vec<(ProcessId, usize, quiver_core::ProcessInfo)> {
        let mut v = vec![];
        for (wi, w) in self.workers.iter().enumerate() {
            let ex = w.verif_executor();
            for pid in ex.verif_process_ids() {
                if let Some(info) = ex.get_process_info(pid) {
                    v.push((pid, wi, info));
                }
            }
        }
        v.sort_by_key(|x| x.0);
        v
    }

    pub fn render_schedule(&self) -> String {
        self.schedule.iter().map(|c| c.render()).collect::<Vec<_>>().join(" ")
    }
}

/// Outcome of evaluating one source under one schedule.
#[derive(Clone, Debug)]
pub enum EvalOutcome {
    Value(String),
    RuntimeError(String),
    Rejected(String),
    NoCode,
    /// quiescent without a result (deadlock / lost wake-up) or step budget exhausted
    Hang { quiescent: bool },
}

impl EvalOutcome {
    pub fn render(&self) -> String {
        match self {
            EvalOutcome::Value(v) => v.clone(),
            EvalOutcome::RuntimeError(e) => format!("error:{e}"),
            EvalOutcome::Rejected(e) => format!("rejected:{e}"),
            EvalOutcome::NoCode => "nocode".into(),
            EvalOutcome::Hang { quiescent } => format!("hang:quiescent={quiescent}"),
        }
    }
}

/// Convenience: build a system, evaluate `src` under a random schedule drawn from `r`.
pub fn eval_random(
    src: &str,
    modules: &HashMap<Vec<String>, String>,
    n_workers: usize,
    quantum: Option<usize>,
    r: &mut Rng,
    policy: &Policy,
    max_steps: usize,
) -> (EvalOutcome, Sim) {
    let mut sim = Sim::new(n_workers, quantum, crate::run::builtins(), false).with_repl(modules.clone());
    let out = eval_in(&mut sim, src, Some((r, policy)), max_steps);
    (out, sim)
}

/// Evaluate `src` in an existing system (random schedule if given, else fair rounds).
pub fn eval_in(sim: &mut Sim, src: &str, random: Option<(&mut Rng, &Policy)>, max_steps: usize) -> EvalOutcome {
    let req = match sim.submit(src) {
        Ok(Some(id)) => id,
        Ok(None) => return EvalOutcome::NoCode,
        Err(ReplError::Parser(e)) => return EvalOutcome::Rejected(format!("parse:{e:?}")),
        Err(ReplError::Compiler(e)) => return EvalOutcome::Rejected(format!("compile:{e:?}")),
        Err(e) => return EvalOutcome::Rejected(format!("{e:?}")),
    };
    let mut result = None;
    let done = |s: &mut Sim| {
        if result.is_none() {
            result = s.poll_result(req);
        }
        result.is_some()
    };
    let finished = match random {
        Some((r, p)) => sim.run_random(r, p, max_steps, done),
        None => sim.run_fair(max_steps, done),
    };
    if !finished {
        return EvalOutcome::Hang { quiescent: sim.quiescent() };
    }
    match result.unwrap() {
        Ok((v, heap)) => EvalOutcome::Value(sim.canon(&v, &heap)),
        Err(e) => EvalOutcome::RuntimeError(crate::canon::error_class(&e)),
    }
}
