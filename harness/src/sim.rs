//! Deterministic single-threaded simulator over the real Environment and Workers (filled in with
//! the concurrency properties).
