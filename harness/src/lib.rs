//! qverif — correspondence / oracle harness for the Lean models in /verif/lean.
//!
//! Every binary under src/bin/ decides one property (or serves one model). Shared here:
//! PRNG, CLI options, evidence + violation reporting, the line-protocol client for the Lean
//! model drivers, value canonicalisation, compile/run helpers, corpora, deterministic simulator.

pub mod canon;
pub mod cli;
pub mod corpus;
pub mod ev;
pub mod model;
pub mod rng;
pub mod run;
pub mod sim;
pub mod tmodel;

pub use cli::{Opts, Tier};
pub use ev::Ev;
pub use model::Model;
pub use rng::Rng;

/// Root of the repository checkout under test (`/repo`, or `VERIF_REPO` for an isolated run).
pub fn repo() -> String {
    std::env::var("VERIF_REPO").unwrap_or_else(|_| "/repo".to_string())
}

/// Directory evidence / replay files are written to.
pub fn evidence_dir() -> String {
    std::env::var("VERIF_EVIDENCE_DIR").unwrap_or_else(|_| "/verif/evidence".to_string())
}

/// The lake project directory (for table regeneration).
pub fn lean_dir() -> String {
    std::env::var("VERIF_LEAN_DIR").unwrap_or_else(|_| "/verif/lean".to_string())
}

/// Run `f` catching panics; the panic message becomes `Err(msg)`.
pub fn catch<T>(f: impl FnOnce() -> T) -> Result<T, String> {
    let r = std::panic::catch_unwind(std::panic::AssertUnwindSafe(f));
    match r {
        Ok(v) => Ok(v),
        Err(e) => {
            let msg = if let Some(s) = e.downcast_ref::<&str>() {
                s.to_string()
            } else if let Some(s) = e.downcast_ref::<String>() {
                s.clone()
            } else {
                "<non-string panic>".to_string()
            };
            Err(msg)
        }
    }
}

/// Silence the default panic hook (cases run under `catch`); call once at start of main.
pub fn quiet_panics() {
    std::panic::set_hook(Box::new(|_| {}));
}

pub fn hex(bytes: &[u8]) -> String {
    let mut s = String::with_capacity(bytes.len() * 2);
    for b in bytes {
        s.push_str(&format!("{:02x}", b));
    }
    s
}

pub fn unhex(s: &str) -> Vec<u8> {
    (0..s.len() / 2)
        .map(|i| u8::from_str_radix(&s[2 * i..2 * i + 2], 16).unwrap())
        .collect()
}
