import subprocess, sys, os, json
WT='/tmp/b-c05/wt'  # scratch worktree: git -C /repo worktree add /tmp/<you>/wt HEAD
EX=WT+'/quiver-core/src/executor.rs'
muts = {
 'M2-failure-kills-directly': [(EX, '''        if !still_awaiting {
            return;
        }
        if let Some(process) = self.get_process_mut(awaiter) {
            process.awaiting_failed.insert(awaited, error);
        }
''','''        let _ = still_awaiting;
        if let Some(process) = self.get_process_mut(awaiter) {
            process.result = Some(Err(error));
            process.frames.clear();
        }
        return;
''')],
 'M3-scan-order-reversed': [(EX, 'for (src_idx, source) in select_state.sources.iter().enumerate() {', 'for (src_idx, source) in select_state.sources.iter().enumerate().rev() {')],
 'M4-cursor-not-advanced-on-nil': [(EX, '                        state.cursors[receive_idx] += 1;\n', '')],
 'M5-cursor-advanced-by-2': [(EX, 'state.cursors[receive_idx] += 1;', 'state.cursors[receive_idx] += 2;')],
 'M6-start-time-at-entry': [(EX, '''        let start_time = if pid_targets.is_empty() {
            Some(current_time_ms)
        } else {
            None
        };''','''        let start_time = Some(current_time_ms);''')],
 'M7-timeout-gt-instead-of-ge': [(EX, '''        if elapsed >= timeout_ms.max(0) as u64 {
            Ok(Some(Value::nil()))''','''        if elapsed > timeout_ms.max(0) as u64 {
            Ok(Some(Value::nil()))''')],
 'M8-verdict-yielded-as-value': [(EX, '            Ok(Some(message_value.clone()))\n        } else {\n            // Nil result', '            Ok(Some(result.clone()))\n        } else {\n            // Nil result')],
 'M9a-accepted-message-not-removed': [(EX, '''                if msg_idx < process.mailbox.len() {
                    process.mailbox.remove(msg_idx)
                } else {
                    None
                }
            };
            if let Some(removed) = &removed {
                self.release(removed); // accepted message leaves the mailbox''','''                if msg_idx > process.mailbox.len() {
                    process.mailbox.remove(msg_idx)
                } else {
                    None
                }
            };
            if let Some(removed) = &removed {
                self.release(removed); // accepted message leaves the mailbox''')],
 'M9b-type-only-removes-index-0': [(EX, '''                        if msg_idx < process.mailbox.len() {
                            process.mailbox.remove(msg_idx)''','''                        if msg_idx < process.mailbox.len() {
                            process.mailbox.remove(0)''')],
 'M10-expiry-check-gt': [(EX, 'elapsed >= timeout_ms.to_i64().unwrap_or(i64::MAX).max(0) as u64', 'elapsed > timeout_ms.to_i64().unwrap_or(i64::MAX).max(0) as u64')],
 'M11-message-does-not-wake': [(EX, '''        // Re-queue if the process is selecting (waiting for messages)
        if self.selecting.remove(&id) {
            self.queue.push_back(id);
        }''','''        // Re-queue if the process is selecting (waiting for messages)
        if false && self.selecting.remove(&id) {
            self.queue.push_back(id);
        }''')],
 'M12-next-timeout-max': [(EX, '''                        _ => None,
                    })
                    .min()?;''','''                        _ => None,
                    })
                    .max()?;''')],
 'M15-completion-keeps-await-entries': [(EX, 'if let Some(Some(value)) = process.awaiting.remove(target) {', 'if let Some(Some(value)) = process.awaiting.get(target).cloned().filter(|_| false) {')],
 'M17-type-mismatch-does-not-move-cursor': [(EX, '                cursor = msg_idx + 1;\n', '                let _ = msg_idx;\n')],
 'M18-failure-recorded-but-not-woken': [(EX, '''        // Re-queue awaiter to retry its Select instruction
        if self.selecting.remove(&awaiter) {
            self.queue.push_back(awaiter);
        }
    }

    /// Notify a process that an effect operation completed''','''    }

    /// Notify a process that an effect operation completed''')],
}
which = sys.argv[1:] or list(muts)
res = {}
for name in which:
    subprocess.run(['git','-C',WT,'checkout','-q','--','.'],check=True)
    subprocess.run(['git','-C',WT,'reset','-q','--hard','HEAD'],check=True)
    ok=True
    for (f,a,b) in muts[name]:
        s=open(f).read()
        if s.count(a)!=1:
            print(name,'PATTERN COUNT',s.count(a)); ok=False; break
        open(f,'w').write(s.replace(a,b))
    if not ok:
        res[name]='pattern-not-found'; continue
    env=dict(os.environ); env['VERIF_REPO']=WT
    r=subprocess.run(['./check','C05','--tier','quick','--seed','1'],cwd='/verif',env=env,capture_output=True,text=True)
    lines=[l for l in r.stdout.split('\n') if l.startswith('#') or 'VIOLATION' in l]
    res[name]=(r.returncode, lines[:4])
    print(name, r.returncode, lines[:3], flush=True)
json.dump(res,open('/tmp/b-c05/mut_results.json','w'),indent=1)
