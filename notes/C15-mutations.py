import subprocess, sys, os, json
WT='/tmp/b-c05/wt'  # scratch worktree: git -C /repo worktree add /tmp/<you>/wt HEAD
EX=WT+'/quiver-core/src/executor.rs'
WK=WT+'/quiver-environment/src/worker.rs'
muts = {
 'N1-error-notified-to-all-processes': [(EX, '''                    if proc.awaiting.contains_key(&current_pid) {
                        Some(*pid)
                    } else {
                        None
                    }''','''                    if proc.awaiting.contains_key(&current_pid) || *pid != current_pid {
                        Some(*pid)
                    } else {
                        None
                    }'''), (EX, '''            .is_some_and(|p| p.result.is_none() && p.awaiting.contains_key(&awaited));
        if !still_awaiting {
            return;
        }''','''            .is_some_and(|p| p.result.is_none());
        if !still_awaiting {
            return;
        }''')],
 'N2-awaiter-gets-nil-instead-of-error': [(EX, '''                        // Error - the awaiter's select propagates it when it reaches this source
                        self.notify_failure(awaiter, current_pid, error.clone());''','''                        let _ = error;
                        self.notify_result(awaiter, current_pid, Value::nil(), vec![]).ok();'''), (WK, '''                // The awaiter's select propagates the failure when it reaches this source
                self.executor.notify_failure(awaiter, awaited, error);''','''                let _ = error;
                self.executor
                    .notify_result(awaiter, awaited, Value::nil(), vec![])
                    .map_err(|e| EnvironmentError::HeapData(format!("{:?}", e)))?;''')],
 'N3-late-awaiter-of-failed-target-not-registered': [(WK, '''            } else {
                // Process not yet completed - register as awaiter
                self.awaited.insert(*target);''','''            } else if matches!(target_status, Some(ProcessStatus::Failed)) {
                results.insert(*target, None);
            } else {
                // Process not yet completed - register as awaiter
                self.awaited.insert(*target);''')],
 'N4-failure-report-is-an-internal-error': [(WK, '''                // The awaiter's select propagates the failure when it reaches this source
                self.executor.notify_failure(awaiter, awaited, error);''','''                let _ = (awaited, error);
                return Err(EnvironmentError::ProcessFailed(awaiter));''')],
 'N5-failure-recorded-but-awaiter-not-woken': [(EX, '''        // Re-queue awaiter to retry its Select instruction
        if self.selecting.remove(&awaiter) {
            self.queue.push_back(awaiter);
        }
    }

    /// Notify a process that an effect operation completed''','''    }

    /// Notify a process that an effect operation completed''')],
 'N6-failure-kills-awaiter-directly': [(EX, '''        if !still_awaiting {
            return;
        }
        if let Some(process) = self.get_process_mut(awaiter) {
            process.awaiting_failed.insert(awaited, error);
        }
''','''        let _ = still_awaiting;
        if let Some(process) = self.get_process_mut(awaiter) {
            process.result = Some(Err(error));
            process.frames.clear();
        }
        return;
''')],
 'N7-propagated-error-changes-class': [(EX, '''        if let Some(error) = process.awaiting_failed.get(&target_pid) {
            return Err(error.clone());
        }''','''        if let Some(error) = process.awaiting_failed.get(&target_pid) {
            let _ = error;
            return Err(Error::TypeMismatch { expected: "result".to_string(), found: "failure".to_string() });
        }''')],
 'N8-check-completed-forgets-second-awaiter': [(WK, '''                    for awaiter in awaiters {
                        let mut results = HashMap::new();
                        results.insert(process_id, Some(result.clone()));''','''                    for awaiter in awaiters.into_iter().take(1) {
                        let mut results = HashMap::new();
                        results.insert(process_id, Some(result.clone()));''')],
 'N10-effect-error-treated-as-nil-success': [(EX, '''            Err(error) => {
                // Error: set error and terminate the process
                process.result = Some(Err(error));
                process.frames.clear();
            }''','''            Err(error) => {
                let _ = error;
                process.stack.push(Value::nil());
                if let Some(frame) = process.frames.last_mut() {
                    frame.counter += 1;
                }
            }''')],
 'N11-effect-error-not-requeued': [(EX, '''        // Re-queue if it was effecting
        if was_effecting {
            self.queue.push_back(process_id);
        }''','''        // Re-queue if it was effecting
        if was_effecting && self.get_process(process_id).is_some_and(|p| p.result.is_none()) {
            self.queue.push_back(process_id);
        }''')],
 'N9-error-arm-keeps-frames': [(EX, '''                Err(error) => {
                    proc.result = Some(Err(error.clone()));
                    proc.frames.clear();
                }''','''                Err(error) => {
                    proc.result = Some(Err(error.clone()));
                    proc.frames.truncate(1);
                    if let Some(f) = proc.frames.last_mut() { f.counter = usize::MAX / 2; }
                }''')],
}
which = sys.argv[1:] or list(muts)
res = {}
for name in which:
    subprocess.run(['git','-C',WT,'checkout','-q','--','.'],check=True)
    subprocess.run(['git','-C',WT,'reset','-q','--hard','HEAD'],check=True)
    ok=True
    for (f,a,b) in muts[name]:
        s=open(f).read()
        if s.count(a)!=1:
            print(name,'PATTERN COUNT',s.count(a), a[:60]); ok=False; break
        open(f,'w').write(s.replace(a,b))
    if not ok:
        res[name]='pattern-not-found'; continue
    env=dict(os.environ); env['VERIF_REPO']=WT
    r=subprocess.run(['./check','C15','--tier','quick','--seed','1'],cwd='/verif',env=env,capture_output=True,text=True)
    lines=[l for l in r.stdout.split('\n') if l.startswith('#') or 'VIOLATION' in l]
    res[name]=(r.returncode, lines[:4])
    print(name, r.returncode, [l[:300] for l in lines[:3]], flush=True)
json.dump(res,open('/tmp/b-c05/mut15_results.json','w'),indent=1)
