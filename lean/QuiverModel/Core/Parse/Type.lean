/-
M-Parse, part 1 — the TYPE-EXPRESSION sub-language of `quiver-compiler/src/parser.rs` (the "Type
parsers" section, `type_alias`, and the tail of `program` that decides what happens to the text after
an alias) and of `quiver-compiler/src/format.rs` (the "Types" section: `render_type` & co, the
`Statement::TypeAlias` arm of `statement_doc`, `union_alias_doc`).  Core Lean only (no Mathlib).

A Rust `&str` is a `List Char` (as everywhere in M-Text); a nom `Span` is the *remaining input*, so a
nom error `Error { input, code }` is `Res.err input code` and its byte offset in the source is
`utf8Len source - utf8Len input` (`SourceSpan::from_span(e.input)`).

Rust (parser.rs)                       here
----------------                       ----
nom combinators (7.1.3, default        `pchar`, `ptag`, `alt`, `opt`, `bind`/`seq`/`before`, `pmap`,
  `nom::error::Error`: `alt` reports   `verify`, `peekNot`, `many0`, `sepList0`, `sepList1` (with nom's
  the LAST alternative's error)        "parser must consume" checks: codes `many0` / `sepList`)
ws0 / ws1 / wsc / ws_with_comments     `ws0`, `ws1`, `wsc` (= `ws_with_comments`: same language)
identifier / type_name / tuple_name    `identifier`, `typeName`, `tupleName`
resource_type(_name)                   `resourceType`
import                                 `importPath`
field_type / field_type_list           `fieldType`, `fieldTypeList`
partial_type / tuple_type              `partialType`, `tupleType`
type_parameter / self_default_type     `typeParameter`, `selfDefaultType`
module_type / type_identifier          `moduleType`, `typeIdentifier` (`identifierToType`)
type_cycle                             `typeCycle` (`usize`: `digit1` + `str::parse::<usize>`)
process_type / function_type           `processType`, `functionType`
function_input_type = _output_type     `functionIoType` (the two Rust functions have identical bodies)
base_type / intersection_type          `baseTypeWith`, `intersectionType`
type_definition                        `typeDefinitionWith`; the recursive knot is tied by fuel:
                                       `knot n`, `parseType i = (knot (i.length + 1)).td i`
type_alias                             `typeAlias`
seq_sep, tail of `program`             `seqSep`, `programVerdict`

Rust (format.rs)                       here
----------------                       ----
render_type / _atom / _union_member    `printTy`, `printAtom`, `printMember`
render_type_arguments / _tuple_type    `printArgs`, `printTuple`
render_field_type / _process_type      `printField`, `printProc`
render_type_parameters                 `printParams`
statement_doc (TypeAlias arm),         `aliasDoc`, `unionAliasDoc`, `fmtAlias` (through the `Doc`
  union_alias_doc, format_program      engine of Core/Text/Doc and `collapseBlanks`/`expandLiterals`)

Recursion.  The grammar is not structurally recursive on the text, so the two recursive entry points
(`type_definition`, `base_type`) are passed around as a `Knot` and the knot is tied by a fuel counter
(`knot`).  Every recursive call happens after at least one character was consumed, hence fuel
`length + 1` always suffices (`Lemmas/Parse/Fuel.lean`: `knot_total`, `knot_mono`); `Res.out` (fuel
exhausted) is a separate outcome, never silently mapped to an error.  The repetition combinators carry
their own counter, initialised with the input length + 1.
-/
import QuiverModel.Core.Text.Escape
namespace QM.Parse
open QM.Text (Doc utf8Len)

abbrev Str := List Char

/-! ### AST (ast.rs: `Type`, `TupleType`, `FieldType`, `FunctionType`, `UnionType`, `ProcessType`,
`PrimitiveType`; `Statement::TypeAlias`) -/

inductive Prim where
  | int | bin | ref
  deriving Repr, DecidableEq, Inhabited

mutual
inductive Ty where
  | prim (p : Prim)
  /-- `Type::Tuple(TupleType { name, fields, is_partial })` -/
  | tuple (name : Option Str) (fields : List Field) (isPartial : Bool)
  | func (input output : Ty)
  | union (types : List Ty)
  | inter (types : List Ty)
  | ident (name : Str) (args : List Ty)
  | cycle (level : Option Nat)
  | proc (recv ret : Option Ty)
  | resource (name : Str)
  | modty (module : List Str) (member : Option Str) (args : List Ty)
  | selfDefault (args : List Ty)
inductive Field where
  | field (name : Option Str) (ty : Ty)
  | spread (id : Option Str) (args : List Ty)
end

instance : Inhabited Ty := ⟨.cycle none⟩
instance : Inhabited Field := ⟨.spread none []⟩

/-- `Statement::TypeAlias { name, type_parameters, type_definition }` (spans are not modelled). -/
structure Alias where
  name : Option Str
  params : List Str
  ty : Ty

/-! ### Results -/

/-- The `nom::error::ErrorKind` codes that the type grammar can produce. -/
inductive Code where
  | char | tag | satisfy | digit | multispace | space | crlf | mapRes | verify | not | many0 | sepList | eof
  deriving Repr, DecidableEq, Inhabited

/-- `IResult<Span, α>` + fuel exhaustion. -/
inductive Res (α : Type) where
  | ok (a : α) (rest : Str)
  /-- `Err(nom::Err::Error(Error { input: pos, code }))` (the type grammar has no `Failure`) -/
  | err (pos : Str) (code : Code)
  /-- fuel exhausted (never for fuel ≥ length + 1) -/
  | out
  deriving Inhabited

abbrev P (α : Type) := Str → Res α

/-! ### Combinators (nom 7.1.3 semantics) -/

/-- sequencing with a dependent continuation: `let (rest, a) = p(input)?; q(a)(rest)` -/
@[inline] def bind {α β : Type} (p : P α) (q : α → P β) : P β := fun i =>
  match p i with
  | .ok a r => q a r
  | .err e c => .err e c
  | .out => .out

/-- `preceded(p, q)` -/
@[inline] def seq {α β : Type} (p : P α) (q : P β) : P β := bind p (fun _ => q)

/-- `terminated(p, q)` -/
@[inline] def before {α β : Type} (p : P α) (q : P β) : P α := fun i =>
  match p i with
  | .ok a r =>
    match q r with
    | .ok _ r' => .ok a r'
    | .err e c => .err e c
    | .out => .out
  | .err e c => .err e c
  | .out => .out

/-- `delimited(o, p, c)` -/
@[inline] def delimited {α β γ : Type} (o : P α) (p : P β) (c : P γ) : P β := seq o (before p c)

/-- `map(p, f)` -/
@[inline] def pmap {α β : Type} (p : P α) (f : α → β) : P β := fun i =>
  match p i with
  | .ok a r => .ok (f a) r
  | .err e c => .err e c
  | .out => .out

/-- `value((), p)` -/
@[inline] def void {α : Type} (p : P α) : P Unit := pmap p (fun _ => ())

/-- `alt((p, q))`: ordered choice; when both fail the error is `q`'s (`Error::or` keeps the later). -/
@[inline] def alt {α : Type} (p q : P α) : P α := fun i =>
  match p i with
  | .err _ _ => q i
  | r => r

/-- `opt(p)` -/
@[inline] def opt {α : Type} (p : P α) : P (Option α) := fun i =>
  match p i with
  | .ok a r => .ok (some a) r
  | .err _ _ => .ok none i
  | .out => .out

/-- `verify(p, f)`: error `Verify` at the *start* of the input. -/
@[inline] def verify {α : Type} (p : P α) (f : α → Bool) : P α := fun i =>
  match p i with
  | .ok a r => if f a then .ok a r else .err i .verify
  | .err e c => .err e c
  | .out => .out

/-- `peek(not(p))` -/
@[inline] def peekNot {α : Type} (p : P α) : P Unit := fun i =>
  match p i with
  | .ok _ _ => .err i .not
  | .err _ _ => .ok () i
  | .out => .out

/-- `char(c)` -/
def pchar (c : Char) : P Unit := fun i =>
  match i with
  | d :: r => if d = c then .ok () r else .err i .char
  | [] => .err i .char

def isPrefix : Str → Str → Bool
  | [], _ => true
  | _ :: _, [] => false
  | a :: as, b :: bs => a = b && isPrefix as bs

/-- `tag(s)` -/
def ptag (s : Str) : P Unit := fun i =>
  if isPrefix s i then .ok () (i.drop s.length) else .err i .tag

/-- The loop of `many0(p)`; the counter is initialised with `length + 1` by `many0`. -/
def many0Loop {α : Type} (p : P α) : Nat → P (List α)
  | 0, _ => .out
  | n + 1, i =>
    match p i with
    | .err _ _ => .ok [] i
    | .out => .out
    | .ok a r =>
      -- "infinite loop check: the parser must always consume"
      if r.length = i.length then .err i .many0
      else
        match many0Loop p n r with
        | .ok as r' => .ok (a :: as) r'
        | .err e c => .err e c
        | .out => .out

def many0 {α : Type} (p : P α) : P (List α) := fun i => many0Loop p (i.length + 1) i

/-- The `loop` of `separated_list0/1(sep, p)` after the first element. -/
def sepLoop {α β : Type} (sep : P β) (p : P α) : Nat → P (List α)
  | 0, _ => .out
  | n + 1, i =>
    match sep i with
    | .err _ _ => .ok [] i
    | .out => .out
    | .ok _ i1 =>
      if i1.length = i.length then .err i1 .sepList
      else
        match p i1 with
        | .err _ _ => .ok [] i
        | .out => .out
        | .ok a i2 =>
          match sepLoop sep p n i2 with
          | .ok as r' => .ok (a :: as) r'
          | .err e c => .err e c
          | .out => .out

/-- `separated_list1(sep, p)` -/
def sepList1 {α β : Type} (sep : P β) (p : P α) : P (List α) := fun i =>
  match p i with
  | .ok a r =>
    match sepLoop sep p (r.length + 1) r with
    | .ok as r' => .ok (a :: as) r'
    | .err e c => .err e c
    | .out => .out
  | .err e c => .err e c
  | .out => .out

/-- `separated_list0(sep, p)` -/
def sepList0 {α β : Type} (sep : P β) (p : P α) : P (List α) := fun i =>
  match p i with
  | .ok a r =>
    match sepLoop sep p (r.length + 1) r with
    | .ok as r' => .ok (a :: as) r'
    | .err e c => .err e c
    | .out => .out
  | .err _ _ => .ok [] i
  | .out => .out

/-! ### Character classes and lexical parsers -/

def isLower (c : Char) : Bool := 97 ≤ c.toNat && c.toNat ≤ 122
def isUpper (c : Char) : Bool := 65 ≤ c.toNat && c.toNat ≤ 90
def isDigit (c : Char) : Bool := 48 ≤ c.toNat && c.toNat ≤ 57
/-- `c.is_ascii_alphanumeric() || c == '_'` -/
def isIdentBody (c : Char) : Bool := isLower c || isUpper c || isDigit c || c = '_'
/-- nom `multispace`: space, tab, CR, LF -/
def isMultispace (c : Char) : Bool := c = ' ' || c = '\t' || c = '\r' || c = '\n'
/-- nom `space`: space, tab -/
def isHspace (c : Char) : Bool := c = ' ' || c = '\t'

/-- `ws0` = `multispace0` -/
def ws0 : P Unit := fun i => .ok () (i.dropWhile isMultispace)

/-- `ws1` = `multispace1` -/
def ws1 : P Unit := fun i =>
  match i with
  | c :: r => if isMultispace c then .ok () (r.dropWhile isMultispace) else .err i .multispace
  | [] => .err i .multispace

/-- What `wsc` / `ws_with_comments` skip: whitespace and `//` comments (a comment ends before `\n` or
    `\r`, which the next round of `multispace1` then consumes). `inComment` = inside a comment. -/
def skipWsc (inComment : Bool) : Str → Str
  | [] => []
  | c :: r =>
    if inComment then
      if c = '\n' || c = '\r' then skipWsc false r else skipWsc true r
    else if isMultispace c then skipWsc false r
    else
      match c, r with
      | '/', '/' :: r' => skipWsc true r'
      | _, _ => c :: r

/-- `wsc` (and `ws_with_comments`): `many0(alt((multispace1, comment, preceded(multispace0, comment))))`
    — always succeeds. -/
def wsc : P Unit := fun i => .ok () (skipWsc false i)

/-- `identifier`: `[a-z][A-Za-z0-9_]*\??!?` -/
def identifier : P Str := fun i =>
  match i with
  | c :: r =>
    if isLower c then
      let body := r.takeWhile isIdentBody
      let r1 := r.dropWhile isIdentBody
      match r1 with
      | '?' :: '!' :: r3 => .ok (c :: body ++ ['?', '!']) r3
      | '?' :: r2 => .ok (c :: body ++ ['?']) r2
      | '!' :: r2 => .ok (c :: body ++ ['!']) r2
      | _ => .ok (c :: body) r1
    else .err i .satisfy
  | [] => .err i .satisfy

/-- `tuple_name` (= `resource_type_name`): `[A-Z][A-Za-z0-9_]*` -/
def tupleName : P Str := fun i =>
  match i with
  | c :: r =>
    if isUpper c then .ok (c :: r.takeWhile isIdentBody) (r.dropWhile isIdentBody)
    else .err i .satisfy
  | [] => .err i .satisfy

/-- `type_name` = `preceded(char('\''), identifier)` -/
def typeName : P Str := seq (pchar '\'') identifier

/-- `import` = `preceded(char('%'), separated_list1(char('/'), identifier))` -/
def importPath : P (List Str) := seq (pchar '%') (sepList1 (pchar '/') identifier)

def digitsVal (ds : Str) : Nat := ds.foldl (fun acc c => acc * 10 + (c.toNat - 48)) 0

/-- `map_res(digit1, |s| s.parse::<usize>())`: `MapRes` at the start when the value needs more than
    64 bits. -/
def usize : P Nat := fun i =>
  let ds := i.takeWhile isDigit
  if ds.isEmpty then .err i .digit
  else if digitsVal ds < 2 ^ 64 then .ok (digitsVal ds) (i.dropWhile isDigit)
  else .err i .mapRes

/-! ### The type grammar -/

/-- The two recursive entry points. -/
structure Knot where
  /-- `type_definition` -/
  td : P Ty
  /-- `base_type` -/
  bt : P Ty

/-- `tuple((ws0, char(','), ws0))` -/
def commaWs0 : P Unit := seq ws0 (seq (pchar ',') ws0)
/-- `tuple((wsc, char(','), wsc))` -/
def commaWsc : P Unit := seq wsc (seq (pchar ',') wsc)
/-- `tuple((ws1, tag("->"), ws1))` -/
def arrow : P Unit := seq ws1 (seq (ptag ['-', '>']) ws1)
/-- `tuple((wsc, char(c), wsc))` -/
def barOp (c : Char) : P Unit := seq wsc (seq (pchar c) wsc)

/-- `delimited(char('<'), separated_list1(tuple((ws0, char(','), ws0)), type_definition), char('>'))` -/
def typeArgs (k : Knot) : P (List Ty) :=
  delimited (pchar '<') (sepList1 commaWs0 k.td) (pchar '>')

def optArgs (k : Knot) : P (List Ty) := pmap (opt (typeArgs k)) (fun a => a.getD [])

/-- `resource_type` -/
def resourceType : P Ty := pmap (seq (pchar '\\') tupleName) Ty.resource

/-- `field_type` -/
def fieldType (k : Knot) : P Field :=
  alt
    (seq (ptag ['.', '.', '.'])
      (pmap (opt (bind typeName fun id => pmap (opt (typeArgs k)) fun a => (id, a)))
        fun
          | some (id, a) => Field.spread (some id) (a.getD [])
          | none => Field.spread none []))
  (alt
    (bind identifier fun n => seq (pchar ':') (seq ws1 (pmap k.td fun t => Field.field (some n) t)))
    (pmap k.td fun t => Field.field none t))

/-- `field_type_list` -/
def fieldTypeList (k : Knot) : P (List Field) :=
  before (sepList0 commaWsc (fieldType k)) (opt (seq wsc (pchar ',')))

/-- `delimited(pair(char(o), wsc), field_type_list, pair(wsc, char(c)))` -/
def fieldsIn (o c : Char) (k : Knot) : P (List Field) :=
  delimited (seq (pchar o) wsc) (fieldTypeList k) (seq wsc (pchar c))

def Field.isNamed : Field → Bool
  | .field (some _) _ => true
  | _ => false

def Field.isSpread : Field → Bool
  | .spread _ _ => true
  | _ => false

/-- `partial_type` -/
def partialType (k : Knot) : P Ty :=
  alt
    (bind tupleName fun n => pmap (fieldsIn '(' ')' k) fun fs => Ty.tuple (some n) fs true)
    (verify (pmap (fieldsIn '(' ')' k) fun fs => Ty.tuple none fs true)
      fun
        | .tuple _ fs _ => fs.isEmpty || fs.any Field.isNamed
        | _ => false)

/-- the closure of the `'alias[...]` arm: bare `...` becomes `...'alias` -/
def Field.inheritSpread (id : Str) : Field → Field
  | .spread none args => .spread (some id) args
  | f => f

/-- `tuple_type` -/
def tupleType (k : Knot) : P Ty :=
  alt
    (bind tupleName fun n => pmap (fieldsIn '[' ']' k) fun fs => Ty.tuple (some n) fs false)
  (alt
    (verify
      (bind typeName fun id => pmap (fieldsIn '[' ']' k) fun fs =>
        Ty.tuple (some id) (fs.map (Field.inheritSpread id)) false)
      fun
        | .tuple _ fs _ => fs.any Field.isSpread
        | _ => false)
  (alt
    (pmap (fieldsIn '[' ']' k) fun fs => Ty.tuple none fs false)
    (bind tupleName fun n => pmap (peekNot (seq ws0 (pchar '('))) fun _ => Ty.tuple (some n) [] false)))

/-- `type_parameter` -/
def typeParameter : P Ty :=
  pmap (delimited (pchar '<') typeName (pchar '>')) fun n => Ty.ident n []

/-- `self_default_type` -/
def selfDefaultType (k : Knot) : P Ty :=
  seq (pchar '\'') (pmap (optArgs k) Ty.selfDefault)

/-- `module_type` -/
def moduleType (k : Knot) : P Ty :=
  seq (pchar '\'')
    (bind importPath fun m =>
      bind (opt (seq (pchar '.') identifier)) fun mem =>
        pmap (optArgs k) fun a => Ty.modty m mem a)

/-- `identifier_to_type` -/
def identifierToType (n : Str) : Ty :=
  if n = ['i', 'n', 't'] then .prim .int
  else if n = ['b', 'i', 'n'] then .prim .bin
  else if n = ['r', 'e', 'f'] then .prim .ref
  else .ident n []

/-- `type_identifier` -/
def typeIdentifier (k : Knot) : P Ty :=
  bind typeName fun n => pmap (opt (typeArgs k)) fun
    | none => identifierToType n
    | some a => Ty.ident n a

/-- `type_cycle` -/
def typeCycle : P Ty := seq (pchar '^') (pmap (opt usize) Ty.cycle)

/-- `process_type` -/
def processType (k : Knot) : P Ty :=
  alt
    (delimited (pchar '(')
      (alt
        (pmap (seq (seq (pchar '@') (seq ws0 (seq (ptag ['-', '>']) ws1))) k.bt)
          fun r => Ty.proc none (some r))
        (seq (pchar '@')
          (bind k.bt fun a => seq arrow (pmap k.bt fun r => Ty.proc (some a) (some r)))))
      (pchar ')'))
    (seq (pchar '@') (pmap (opt k.bt) fun a => Ty.proc a none))

/-- `delimited(pair(char('('), ws0), type_definition, pair(ws0, char(')')))` -/
def groupType (k : Knot) : P Ty :=
  delimited (seq (pchar '(') ws0) k.td (seq ws0 (pchar ')'))

/-- `function_input_type` and `function_output_type` (identical bodies) -/
def functionIoType (k : Knot) : P Ty :=
  alt (partialType k)
  (alt (groupType k)
  (alt (tupleType k)
  (alt resourceType
  (alt typeCycle
  (alt (processType k)
  (alt (moduleType k)
  (alt (typeIdentifier k)
       (selfDefaultType k))))))))

/-- `function_type` -/
def functionType (k : Knot) : P Ty :=
  seq (pchar '#')
    (bind (functionIoType k) fun a => seq arrow (pmap (functionIoType k) fun b => Ty.func a b))

/-- `base_type` -/
def baseTypeWith (k : Knot) : P Ty :=
  alt (tupleType k)
  (alt (partialType k)
  (alt resourceType
  (alt typeCycle
  (alt (processType k)
  (alt typeParameter
  (alt (moduleType k)
  (alt (groupType k)
  (alt (typeIdentifier k)
       (selfDefaultType k)))))))))

/-- `intersection_type`, over a given `base_type` -/
def intersectionType (bt : P Ty) : P Ty :=
  bind bt fun first =>
    pmap (many0 (seq (barOp '&') bt)) fun rest =>
      if rest.isEmpty then first else Ty.inter (first :: rest)

/-- `type_definition`, over the knot (function types) and a given `base_type` -/
def typeDefinitionWith (k : Knot) (bt : P Ty) : P Ty :=
  alt (functionType k)
    (seq (opt (barOp '|'))
      (bind (intersectionType bt) fun first =>
        pmap (many0 (seq (barOp '|') (intersectionType bt))) fun rest =>
          if rest.isEmpty then first else Ty.union (first :: rest)))

/-! ### The left-factored grammar (repair of C18-F1: /repo 33df1c7 + notes/C18-fixes/03) — THE MODEL OF
THE CODE; the alternatives above (`partialType`, `processType`, `groupType` inside `baseTypeWith` /
`functionIoType`) are the grammar before the repair and stay as the other side of the equality

`base_type`, `function_input_type` and `function_output_type` hand every `(`-headed type to ONE
function that reads the field list once and decides afterwards (partial type / parenthesised process
form / grouping). `Theorems/C18Types.lean: partial_or_group_factored_eq` proves that this grammar and
the one above are the same function of the input. The Rust function shares the one parse between
the three decisions; the model recomputes nothing either: `parenType` is a pure function of the
results of `parenList` and `parenProcessType`. -/

/-- `separated_list0(sep, p)` that also reports where the first element ended -/
def sepList0Pos {α β : Type} (sep : P β) (p : P α) : P (List α × Option Str) := fun i =>
  match p i with
  | .ok a r =>
    match sepLoop sep p (r.length + 1) r with
    | .ok as r' => .ok (a :: as, some r) r'
    | .err e c => .err e c
    | .out => .out
  | .err _ _ => .ok ([], none) i
  | .out => .out

/-- run `f` with the current input as an argument (`let start = input;`) -/
@[inline] def withInput {α : Type} (f : Str → P α) : P α := fun i => f i i

/-- `named_partial_type` (the first arm of `partial_type`) -/
def namedPartialType (k : Knot) : P Ty :=
  bind tupleName fun n => pmap (fieldsIn '(' ')' k) fun fs => Ty.tuple (some n) fs true

/-- `paren_process_type` (the first arm of `process_type`) -/
def parenProcessType (k : Knot) : P Ty :=
  delimited (pchar '(')
    (alt
      (pmap (seq (seq (pchar '@') (seq ws0 (seq (ptag ['-', '>']) ws1))) k.bt)
        fun r => Ty.proc none (some r))
      (seq (pchar '@')
        (bind k.bt fun a => seq arrow (pmap k.bt fun r => Ty.proc (some a) (some r)))))
    (pchar ')')

/-- `at_process_type` (the second arm of `process_type`) -/
def atProcessType (k : Knot) : P Ty := seq (pchar '@') (pmap (opt k.bt) fun a => Ty.proc a none)

/-- what `paren_type` remembers of its one parse: the fields, where the first field ended, the
    input behind `(`, the input behind `(` + whitespace and comments -/
structure ParenList where
  fields : List Field
  firstEnd : Option Str
  afterOpen : Str
  content : Str

/-- `(` `wsc` and the field list of `paren_type` -/
def parenList (k : Knot) : P ParenList :=
  seq (pchar '(') (withInput fun afterOpen =>
    seq wsc (withInput fun content =>
      pmap (sepList0Pos commaWsc (fieldType k)) fun r => ⟨r.1, r.2, afterOpen, content⟩))

/-- `preceded(opt(pair(wsc, char(','))), pair(wsc, char(')')))` -/
def closeParen : P Unit := seq (opt (seq wsc (pchar ','))) (seq wsc (pchar ')'))

def isPartialFields (fs : List Field) : Bool := fs.isEmpty || fs.any Field.isNamed

def headIs (c : Char) : Str → Bool
  | d :: _ => d = c
  | [] => false

/-- the grouping decision of `paren_type`: a single positional field, separated from the
    parentheses by whitespace only (or by comments in front of a leading `|`), no trailing comma -/
def groupDecision (i : Str) (l : Option ParenList) : Res Ty :=
  match l with
  | some ⟨[Field.field none t], some firstEnd, afterOpen, content⟩ =>
    if (afterOpen.dropWhile isMultispace).length = content.length || headIs '|' content then
      match seq ws0 (pchar ')') firstEnd with
      | .ok _ rest => .ok t rest
      | _ => .err i .verify
    else .err i .verify
  | _ => .err i .verify

/-- the decisions of `paren_type` behind the partial-type test, in the order of the alternatives of
    the caller: `base_type` tries the process form before the grouping (`groupFirst = false`),
    `function_input_type` / `function_output_type` the grouping first -/
def parenAfterPartial (groupFirst : Bool) (i : Str) (l : Option ParenList) (q : Res Ty) : Res Ty :=
  if groupFirst then
    match groupDecision i l with
    | .ok t r => .ok t r
    | _ =>
      match q with
      | .ok t r => .ok t r
      | .out => .out
      | .err _ _ => .err i .verify
  else
    match q with
    | .ok t r => .ok t r
    | .out => .out
    | .err _ _ => groupDecision i l

/-- `paren_type(input, group_before_process)` -/
def parenType (groupFirst : Bool) (k : Knot) : P Ty := fun i =>
  match parenList k i with
  | .out => .out
  | .err _ _ => parenAfterPartial groupFirst i none (parenProcessType k i)
  | .ok l position =>
    match closeParen position with
    | .ok _ rest =>
      if isPartialFields l.fields then .ok (.tuple none l.fields true) rest
      else parenAfterPartial groupFirst i (some l) (parenProcessType k i)
    | _ => parenAfterPartial groupFirst i (some l) (parenProcessType k i)

/-- the patched `function_input_type` / `function_output_type` -/
def functionIoTypeF (k : Knot) : P Ty :=
  alt (namedPartialType k)
  (alt (parenType true k)
  (alt (tupleType k)
  (alt resourceType
  (alt typeCycle
  (alt (atProcessType k)
  (alt (moduleType k)
  (alt (typeIdentifier k)
       (selfDefaultType k))))))))

def functionTypeF (k : Knot) : P Ty :=
  seq (pchar '#')
    (bind (functionIoTypeF k) fun a => seq arrow (pmap (functionIoTypeF k) fun b => Ty.func a b))

/-- the patched `base_type` -/
def baseTypeF (k : Knot) : P Ty :=
  alt (tupleType k)
  (alt (namedPartialType k)
  (alt (parenType false k)
  (alt resourceType
  (alt typeCycle
  (alt (atProcessType k)
  (alt typeParameter
  (alt (moduleType k)
  (alt (typeIdentifier k)
       (selfDefaultType k)))))))))

def typeDefinitionF (k : Knot) (bt : P Ty) : P Ty :=
  alt (functionTypeF k)
    (seq (opt (barOp '|'))
      (bind (intersectionType bt) fun first =>
        pmap (many0 (seq (barOp '|') (intersectionType bt))) fun rest =>
          if rest.isEmpty then first else Ty.union (first :: rest)))

def Knot.stepF (k : Knot) : Knot :=
  { bt := baseTypeF k, td := typeDefinitionF k (baseTypeF k) }

/-- the patched grammar with a given fuel -/
def knotF : Nat → Knot
  | 0 => { td := fun _ => .out, bt := fun _ => .out }
  | n + 1 => (knotF n).stepF

/-- the patched `type_definition(input)` -/
def parseTypeF : P Ty := fun i => (knotF (i.length + 1)).td i

/-! ### The grammar since /repo 1d93429 (repair of the fifth exponential form, notes/C18-fixes/04) — THE
MODEL OF THE CODE: as the left-factored grammar above, but the parenthesised process forms `(@-> t)` /
`(@t -> t)` are continued from the first field that `paren_type` has already read, instead of being
parsed by a separate alternative. `Theorems/C18Types.lean: receive_factored_eq` proves that it is the
same function of the input (`Lemmas/Parse/Receive.lean`). -/

/-- `paren_process_from_first` (/repo 1d93429): the parenthesised process forms `(@-> t)` /
    `(@t -> t)`, continued from the first field that `paren_type` has already read -/
def parenProcessFromFirst (k : Knot) (i : Str) (l : Option ParenList) : Res Ty :=
  match l with
  | some ⟨Field.field none (Ty.proc recv none) :: _, some firstEnd, afterOpen, _⟩ =>
    if headIs '@' afterOpen then
      match (match recv with
             | none => seq ws0 (seq (ptag ['-', '>']) ws1)
             | some _ => arrow) firstEnd with
      | .ok _ r1 =>
        match k.bt r1 with
        | .ok ret r2 =>
          match pchar ')' r2 with
          | .ok _ rest => .ok (.proc recv (some ret)) rest
          | _ => .err i .verify
        | .err _ _ => .err i .verify
        | .out => .out
      | _ => .err i .verify
    else .err i .verify
  | _ => .err i .verify

/-- `paren_type(input, group_before_process)` since 1d93429 -/
def parenTypeG (groupFirst : Bool) (k : Knot) : P Ty := fun i =>
  match parenList k i with
  | .out => .out
  | .err _ _ => parenAfterPartial groupFirst i none (.err i .verify)
  | .ok l position =>
    match closeParen position with
    | .ok _ rest =>
      if isPartialFields l.fields then .ok (.tuple none l.fields true) rest
      else parenAfterPartial groupFirst i (some l) (parenProcessFromFirst k i (some l))
    | _ => parenAfterPartial groupFirst i (some l) (parenProcessFromFirst k i (some l))

def functionIoTypeG (k : Knot) : P Ty :=
  alt (namedPartialType k)
  (alt (parenTypeG true k)
  (alt (tupleType k)
  (alt resourceType
  (alt typeCycle
  (alt (atProcessType k)
  (alt (moduleType k)
  (alt (typeIdentifier k)
       (selfDefaultType k))))))))

def functionTypeG (k : Knot) : P Ty :=
  seq (pchar '#')
    (bind (functionIoTypeG k) fun a => seq arrow (pmap (functionIoTypeG k) fun b => Ty.func a b))

def baseTypeG (k : Knot) : P Ty :=
  alt (tupleType k)
  (alt (namedPartialType k)
  (alt (parenTypeG false k)
  (alt resourceType
  (alt typeCycle
  (alt (atProcessType k)
  (alt typeParameter
  (alt (moduleType k)
  (alt (typeIdentifier k)
       (selfDefaultType k)))))))))

def typeDefinitionG (k : Knot) (bt : P Ty) : P Ty :=
  alt (functionTypeG k)
    (seq (opt (barOp '|'))
      (bind (intersectionType bt) fun first =>
        pmap (many0 (seq (barOp '|') (intersectionType bt))) fun rest =>
          if rest.isEmpty then first else Ty.union (first :: rest)))

def Knot.stepG (k : Knot) : Knot :=
  { bt := baseTypeG k, td := typeDefinitionG k (baseTypeG k) }

def knotG : Nat → Knot
  | 0 => { td := fun _ => .out, bt := fun _ => .out }
  | n + 1 => (knotG n).stepG


/-- the patched `type_definition(input)` -/
def parseTypeG : P Ty := fun i => (knotG (i.length + 1)).td i

/-- One unfolding of the grammar: the new `base_type` calls the old knot only after consuming a
    character; the new `type_definition` uses the new `base_type` at the same position. -/
def Knot.step (k : Knot) : Knot :=
  { bt := baseTypeWith k, td := typeDefinitionWith k (baseTypeWith k) }

def knot : Nat → Knot
  | 0 => { td := fun _ => .out, bt := fun _ => .out }
  | n + 1 => (knot n).step

/-- `type_definition` with a given fuel -/
def typeDefinition (fuel : Nat) : P Ty := (knot fuel).td

/-- `type_definition(input)`: fuel `length + 1` is always enough (`knot_total`). -/
def parseType : P Ty := fun i => typeDefinition (i.length + 1) i

/-- `base_type(input)` -/
def parseBaseType : P Ty := fun i => (knot (i.length + 1)).bt i

/-- `function_input_type(input)` -/
def parseFunctionIoType : P Ty := fun i => functionIoType (knot (i.length + 1)) i

/-- the patched `base_type(input)` -/
def parseBaseTypeF : P Ty := fun i => (knotF (i.length + 1)).bt i

/-- `base_type(input)` of the code (1d93429) -/
def parseBaseTypeG : P Ty := fun i => (knotG (i.length + 1)).bt i

/-- `function_input_type(input)` of the code (1d93429) -/
def parseFunctionIoTypeG : P Ty := fun i => functionIoTypeG (knotG (i.length + 1)) i

/-- the patched `function_input_type(input)` -/
def parseFunctionIoTypeF : P Ty := fun i => functionIoTypeF (knotF (i.length + 1)) i

/-- `inline_type_expression` (a type in pattern position: `=T`, `(T)x`): a parenthesised type
    (with `wsc`, unlike the grouping of `base_type`), a module type, a type name, `'`, or a partial
    type (the unchanged `partial_type`) -/
def inlineTypeExpression (k : Knot) : P Ty :=
  alt (delimited (seq (pchar '(') wsc) k.td (seq wsc (pchar ')')))
  (alt (moduleType k)
  (alt (typeIdentifier k)
  (alt (selfDefaultType k)
       (partialType k))))

/-- `inline_type_expression(input)` -/
def parseInlineTypeF : P Ty := fun i => inlineTypeExpression (knotF (i.length + 1)) i

/-- `inline_type_expression(input)` of the code (1d93429) -/
def parseInlineTypeG : P Ty := fun i => inlineTypeExpression (knotG (i.length + 1)) i

/-- `type_alias` (over the `type_definition` of the code, which is the same function as the original
    one: `partial_or_group_factored_eq`, `receive_factored_eq`) -/
def typeAlias : P Alias :=
  bind (seq (pchar '\'') (opt identifier)) fun name =>
    bind (opt (delimited (pchar '<') (sepList1 commaWs0 typeName) (pchar '>'))) fun ps =>
      seq (seq ws0 (seq (pchar '=') ws0)) (pmap parseTypeG fun t => ⟨name, ps.getD [], t⟩)

/-! ### The tail of `program` after a leading alias

`program = delimited(ws_with_comments, terminated(separated_list0(seq_sep, top_level_item),
opt(seq_sep)), pair(ws_with_comments, eof))`, `top_level_item = alt((type_alias, sequence))`.
Only `type_alias` is modelled, so the verdict says what `parse` must return as far as that determines
it. -/

/-- `line_ending`: `\n` or `\r\n` -/
def lineEnding : P Unit := fun i =>
  match i with
  | '\n' :: r => .ok () r
  | '\r' :: '\n' :: r => .ok () r
  | _ => .err i .crlf

/-- `many0(alt((space1, comment)))`, the leading part of `seq_sep` -/
def skipHspaceComments (inComment : Bool) : Str → Str
  | [] => []
  | c :: r =>
    if inComment then
      if c = '\n' || c = '\r' then c :: r else skipHspaceComments true r
    else if isHspace c then skipHspaceComments false r
    else
      match c, r with
      | '/', '/' :: r' => skipHspaceComments true r'
      | _, _ => c :: r

/-- the trailing part of `seq_sep`: `many0(alt((multispace1, comment, char(','))))` -/
def skipSepTail (inComment : Bool) : Str → Str
  | [] => []
  | c :: r =>
    if inComment then
      if c = '\n' || c = '\r' then skipSepTail false r else skipSepTail true r
    else if isMultispace c || c = ',' then skipSepTail false r
    else
      match c, r with
      | '/', '/' :: r' => skipSepTail true r'
      | _, _ => c :: r

/-- `seq_sep` -/
def seqSep : P Unit := fun i =>
  let i1 := skipHspaceComments false i
  match alt (pchar ',') lineEnding i1 with
  | .ok _ i2 => .ok () (skipSepTail false i2)
  | .err e c => .err e c
  | .out => .out

/-- What `parse(source)` must do, as far as the alias grammar decides it. -/
inductive Verdict where
  /-- `Ok(Program { statements: [TypeAlias a] })` -/
  | aliasOnly (a : Alias)
  /-- `Err` with nom code `Eof` exactly at `pos` (nothing can follow the alias there) -/
  | aliasThenErr (a : Alias) (pos : Str)
  /-- a separator follows the alias; the next top-level item starts at `pos`: `Ok` with first
      statement `a`, or `Err` at or after `pos` -/
  | aliasThenMore (a : Alias) (pos : Str)
  /-- `type_alias` fails at the start (`sequence` decides; the result never starts with an alias) -/
  | notAlias (pos : Str) (code : Code)
  | fuelOut

/-- `program` on a source whose first item is tried as a type alias. -/
def programVerdict (source : Str) : Verdict :=
  let i0 := skipWsc false source
  match typeAlias i0 with
  | .out => .fuelOut
  | .err e c => .notAlias e c
  | .ok a rest =>
    match seqSep rest with
    | .ok _ r1 => if r1.isEmpty then .aliasOnly a else .aliasThenMore a r1
    | _ =>
      let r2 := skipWsc false rest
      if r2.isEmpty then .aliasOnly a else .aliasThenErr a r2

/-! ### The printer (format.rs, "Types") -/

def sepBy (sep : Str) : List Str → Str
  | [] => []
  | [x] => x
  | x :: xs => x ++ sep ++ sepBy sep xs

/-- Rust `{}` of a `usize` -/
def natDigits (n : Nat) : Str :=
  if h : n < 10 then [Char.ofNat (48 + n)]
  else natDigits (n / 10) ++ [Char.ofNat (48 + n % 10)]
decreasing_by omega

def startsLower : Str → Bool
  | c :: _ => isLower c
  | [] => false

/-- `matches!(name.as_str(), "int" | "bin" | "ref")` -/
def isPrimName (n : Str) : Bool :=
  n = ['i', 'n', 't'] || n = ['b', 'i', 'n'] || n = ['r', 'e', 'f']

/-- the parentheses of `render_type_atom`: around an intersection or a function type, and around the
    `<'int>` reference form (not accepted bare as a function input/output) -/
def atomWrap (t : Ty) (s : Str) : Str :=
  match t with
  | .inter _ | .func _ _ => '(' :: s ++ [')']
  | .ident n [] => if isPrimName n then '(' :: s ++ [')'] else s
  | _ => s

/-- the parentheses of `render_union_member`: around a function type -/
def memberWrap (t : Ty) (s : Str) : Str :=
  match t with
  | .func _ _ => '(' :: s ++ [')']
  | _ => s

/-- `<a, b>` for a non-empty list of rendered arguments, otherwise empty -/
def angle (xs : List Str) : Str :=
  if xs.isEmpty then [] else '<' :: sepBy [',', ' '] xs ++ ['>']

mutual
/-- `render_type` -/
def printTy : Ty → Str
  | .prim .int => ['\'', 'i', 'n', 't']
  | .prim .bin => ['\'', 'b', 'i', 'n']
  | .prim .ref => ['\'', 'r', 'e', 'f']
  | .ident n args =>
    -- a reference named like a primitive keeps the `<'…>` form (it would read back as the primitive)
    if args.isEmpty && isPrimName n then '<' :: '\'' :: n ++ ['>']
    else '\'' :: n ++ angle (printTys args)
  | .tuple name fields isPartial =>
    -- `render_tuple_type`
    let nm : Str := match name with
      | some n => if startsLower n then '\'' :: n else n
      | none => []
    match fields with
    | [] => if isPartial then nm ++ ['(', ')'] else if name.isSome then nm else ['[', ']']
    | f :: fs =>
      if isPartial then nm ++ '(' :: sepBy [',', ' '] (printFieldsL (f :: fs)) ++ [')']
      else nm ++ '[' :: sepBy [',', ' '] (printFieldsL (f :: fs)) ++ [']']
  | .func i o => '#' :: atomWrap i (printTy i) ++ [' ', '-', '>', ' '] ++ atomWrap o (printTy o)
  | .union ts => '(' :: sepBy [' ', '|', ' '] (printMembersL ts) ++ [')']
  | .inter ts => sepBy [' ', '&', ' '] (printAtomsL ts)
  | .cycle none => ['^']
  | .cycle (some n) => '^' :: natDigits n
  | .proc (some a) none => '@' :: atomWrap a (printTy a)
  | .proc none none => ['@']
  | .proc none (some r) => ['(', '@', '-', '>', ' '] ++ atomWrap r (printTy r) ++ [')']
  | .proc (some a) (some r) =>
    '(' :: '@' :: atomWrap a (printTy a) ++ [' ', '-', '>', ' '] ++ atomWrap r (printTy r) ++ [')']
  | .resource n => '\\' :: n
  | .modty m mem args =>
    '\'' :: '%' :: sepBy ['/'] m ++ (match mem with | some x => '.' :: x | none => []) ++
      angle (printTys args)
  | .selfDefault args => '\'' :: angle (printTys args)
/-- `.map(render_type)` -/
def printTys : List Ty → List Str
  | [] => []
  | t :: ts => printTy t :: printTys ts
/-- `.map(render_type_atom)` -/
def printAtomsL : List Ty → List Str
  | [] => []
  | t :: ts => atomWrap t (printTy t) :: printAtomsL ts
/-- `.map(render_union_member)` -/
def printMembersL : List Ty → List Str
  | [] => []
  | t :: ts => memberWrap t (printTy t) :: printMembersL ts
/-- `render_field_type` -/
def printField : Field → Str
  | .field (some n) t => n ++ ':' :: ' ' :: printTy t
  | .field none t => printTy t
  | .spread none _ => ['.', '.', '.']
  | .spread (some id) args => '.' :: '.' :: '.' :: '\'' :: id ++ angle (printTys args)
/-- `.map(render_field_type)` -/
def printFieldsL : List Field → List Str
  | [] => []
  | f :: fs => printField f :: printFieldsL fs
end

/-- `render_type_atom` -/
def printAtom (t : Ty) : Str := atomWrap t (printTy t)
/-- `render_union_member` -/
def printMember (t : Ty) : Str := memberWrap t (printTy t)
/-- the members of a union joined by `" | "` (a bare union, as on the right of an alias) -/
def printMembers (ts : List Ty) : Str := sepBy [' ', '|', ' '] (printMembersL ts)

/-- `render_type_parameters` -/
def printParams (ps : List Str) : Str :=
  if ps.isEmpty then [] else '<' :: sepBy [',', ' '] (ps.map ('\'' :: ·)) ++ ['>']

/-- the left-hand side of an alias: `'name<'a, 'b> =` -/
def aliasLhs (name : Option Str) (ps : List Str) : Str :=
  '\'' :: (name.getD []) ++ printParams ps ++ [' ', '=']

/-- the flat (single-line) text of an alias statement: what `statement_doc` lays out when the line
    fits (a union right-hand side is written bare, its members by `render_union_member`). -/
def printAlias (a : Alias) : Str :=
  match a.ty with
  | .union ts => aliasLhs a.name a.params ++ ' ' :: printMembers ts
  | t => aliasLhs a.name a.params ++ ' ' :: printTy t

/-- what the broken layout of a union alias puts in front of every member -/
def brkSep : Str := ['\n', ' ', ' ', '|', ' ']

/-- the members of a union alias in the broken layout (behind `'name =`) -/
def brokenMembers (ts : List Ty) : Str := (ts.map (brkSep ++ printMember ·)).flatten

/-- the broken layout of a union alias, one member per line (without the final newline):
    `'name<'a> =⏎  | m1⏎  | m2 …`. `Theorems/C18Types.lean: alias_statement_layouts`: `fmtAlias` is
    `printAlias` or this. -/
def brokenAlias (name : Option Str) (ps : List Str) (ts : List Ty) : Str :=
  aliasLhs name ps ++ brokenMembers ts

/-- the parts of `union_alias_doc`: per member a `line`, `leading_bar(index == 0)`, the member text -/
def unionAliasParts (first : Bool) : List Ty → List Doc
  | [] => []
  | t :: rest =>
    Doc.line ::
    (if first then Doc.ifBreak (.text ['|', ' ']) .nil else Doc.text ['|', ' ']) ::
    Doc.text (printMember t) :: unionAliasParts false rest

/-- `union_alias_doc` -/
def unionAliasDoc (ts : List Ty) : Doc :=
  Doc.mkGroup (.nest 2 (.concat (unionAliasParts true ts)))

/-- the `Statement::TypeAlias` arm of `statement_doc` (no trivia) -/
def aliasDoc (a : Alias) : Doc :=
  let body := match a.ty with
    | .union ts => Doc.concat [.text (aliasLhs a.name a.params), unionAliasDoc ts]
    | t => Doc.text (aliasLhs a.name a.params ++ ' ' :: printTy t)
  .concat [.nil, body, .nil]

/-- `format_program` on a program that consists of this one alias and has no trivia: layout at width
    100, `collapse_blanks`, `expand_literals` (no literals). -/
def fmtAlias (a : Alias) : Str :=
  match QM.Text.expandLiterals
      (QM.Text.collapseBlanks (QM.Text.print (Doc.join .hardline [aliasDoc a]) 100)) [] with
  | some out => out
  | none => []

/-! ### Well-formed type ASTs (what the parser can produce) -/

/-- `identifier`'s language: `[a-z][A-Za-z0-9_]*\??!?` -/
def isIdentStr : Str → Bool
  | [] => false
  | c :: r =>
    isLower c &&
      (let r1 := r.dropWhile isIdentBody
       r1 = [] || r1 = ['?'] || r1 = ['!'] || r1 = ['?', '!'])

/-- `tuple_name`'s language: `[A-Z][A-Za-z0-9_]*` -/
def isTupleNameStr : Str → Bool
  | [] => false
  | c :: r => isUpper c && r.all isIdentBody

def Field.isBareSpread : Field → Bool
  | .spread none _ => true
  | _ => false

mutual
/-- Decidable well-formedness: every AST returned by `parseType` satisfies it (`parseType_wf`), and
    every AST satisfying it is re-read from its printed form (`roundtrip`). -/
def Ty.wf : Ty → Bool
  | .prim _ => true
  | .tuple name fields isPartial =>
    Field.wfList fields &&
    (match name with
     | none => !isPartial || fields.isEmpty || fields.any Field.isNamed
     | some n =>
       isTupleNameStr n ||
         (isIdentStr n && !isPartial && fields.any Field.isSpread && !fields.any Field.isBareSpread))
  | .func i o => i.wf && o.wf
  | .union ts => decide (2 ≤ ts.length) && Ty.wfList ts
  | .inter ts => decide (2 ≤ ts.length) && Ty.wfList ts
  | .ident n args => isIdentStr n && Ty.wfList args
  | .cycle none => true
  | .cycle (some n) => decide (n < 2 ^ 64)
  | .proc a r => Ty.wfOpt a && Ty.wfOpt r
  | .resource n => isTupleNameStr n
  | .modty m mem args =>
    !m.isEmpty && m.all isIdentStr && (match mem with | some x => isIdentStr x | none => true) &&
      Ty.wfList args
  | .selfDefault args => Ty.wfList args
def Ty.wfList : List Ty → Bool
  | [] => true
  | t :: ts => t.wf && Ty.wfList ts
def Ty.wfOpt : Option Ty → Bool
  | none => true
  | some t => t.wf
def Field.wf : Field → Bool
  | .field none t => t.wf
  | .field (some n) t => isIdentStr n && t.wf
  | .spread none args => args.isEmpty
  | .spread (some id) args => isIdentStr id && Ty.wfList args
def Field.wfList : List Field → Bool
  | [] => true
  | f :: fs => f.wf && Field.wfList fs
end

/-- The well-formedness predicate of the round-trip theorems. -/
def WFType (t : Ty) : Prop := t.wf = true
instance (t : Ty) : Decidable (WFType t) := inferInstanceAs (Decidable (t.wf = true))

def Alias.wf (a : Alias) : Bool :=
  (match a.name with | some n => isIdentStr n | none => true) && a.params.all isIdentStr && a.ty.wf

end QM.Parse
