/-
M-Text, part 4 — the FRAGMENT PORT: for a fragment of the language both directions of the formatter are
modelled,

  * AST → `Doc`: the builders of `quiver-compiler/src/format.rs` on that fragment, on top of the `Doc`
    engine of Core/Text/Doc (`format_program` → `statement_doc` → `sequence_doc_with` → `chain_doc` →
    `term_doc` → `tuple_doc` → `bracketed` → `field_doc` → `chain_doc` …), and
  * text → AST: the productions of `quiver-compiler/src/parser.rs` that the fragment reaches
    (`program`, `sequence`, `seq_sep`, `tuple_term`, `tuple_field_list`, `tuple_field`, `identifier`,
    `tuple_name`), written with the nom combinator layer of Core/Parse/Type (`wsc`, `commaWsc`,
    `seqSep`, `sepList0/1`, `delimited`, … — the same token/white-space layer as the type-grammar port,
    not a second one),

so that "format, then parse, gives the program back" is a statement about two models that are both
tied to the implementation by the differential of `harness/src/bin/c17` (requests `frag-*`).

The fragment (after step 3): ONE statement that is a sequence of one or more steps ("tall" steps set
off by blank lines); each step and each field value a CHAIN of one or more terms (juxtaposition
`[x, y] f`, pipelines `a ~> f`, chains ending in a container); a term is a bare identifier, a bare tuple
name `A`, an integer or binary literal, a single-line string without holes, or a tuple `[…]` / `A[…]`
with unnamed or named (`x: t`) fields; no trivia.

Rust (format.rs)                          here
----------------                          ----
break_if_wider_than                       `breakIfWiderThan`
bracketed(open, close, items, true)       `bracketed`
tuple_doc                                 `termDoc (.tup name fs)`  (`[]` / `A` when there is no field)
render_access (a bare identifier)         `termDoc (.leaf n)`
field_doc (no trivia)                     `fieldDocOf`  = concat [nil, value, nil], value = chain_doc or
                                          concat [text "x: ", chain_doc]
chain_doc (no pattern, one term)          `chainDoc`   = concat [nil, group (break_if_wider_than …)]
chain_doc (several terms), chain_terms_doc `multiChainDoc`, `chainParts` (flattened head before a container,
                                          else group; `line` + `ifBreak("~> ")` after a call-ender)
render_literal, single_line_string_doc    `intText`, `binText`, `strText`
is_tall_step, sequence_doc_with           `isTall`, `restDocs`, `sequenceDoc` = group (concat [first,
                                          nest 0 (concat rest)]), separator `seqSepDoc` = concat
                                          [ifBreak(nil, ","), line] or two hard lines around a tall step
format_program (one statement)            `programDoc`, `fmtFrag`

Rust (parser.rs)                          here
----------------                          ----
tuple_field                               `fieldP`   (named alternative | chain)
tuple_field_list in brackets              `bracketsP`
tuple_term (three alternatives)           `tupleP`
string_term, literal                      `stringP`, `literalP` (`integerP`, `binaryP`)
primary → string | literal | tuple |      `termP`
  access (identifier)
chain_inner                               `chainP` (`chainSep` = alt((ws1 "~>" ws1), hspace1))
sequence                                  `sequenceP`
program                                   `programP`

The productions that the fragment cannot reach (spreads — fail at the first character; the speculative
`pattern =` alternative of `chain` — fails at the `=`; type alias — fails at the first character; the
other primaries) are left out of the fragment parser; that it agrees with the real parser on the
fragment's texts is what the differential checks.
-/
import QuiverModel.Core.Prelude
import QuiverModel.Core.Parse.Type
import QuiverModel.Core.Text.Doc
import QuiverModel.Core.Text.Scan
namespace QM.Text

/-- `format.rs::break_if_wider_than` -/
def breakIfWiderThan (inner : Doc) (threshold : Nat) : Doc :=
  match flatWidth inner threshold with
  | some _ => inner
  | none => .concat [inner, .breakParent]

/-- `format.rs::bracketed(open, "]", items, trailing = true)` -/
def bracketed (opn : List Char) (items : List Doc) : Doc :=
  Doc.mkGroup (.concat [
    .text opn,
    .nest 2 (.concat [.softline, Doc.join (.concat [.text [','], .line]) items,
      .ifBreak (.text [',']) .nil]),
    .softline,
    .text [']']])

end QM.Text

namespace QM.Frag
open QM.Text QM.Parse

/-- `AccessPath`: `.field` or `.index` behind an access -/
inductive Acc where
  | field (name : Str)
  | index (i : Nat)
  deriving Repr, Inhabited

mutual
/-- The fragment: `Term::Access` of a bare identifier, and `Term::Tuple`s — anonymous `[…]`, named
    `A[…]`, or the bare tuple name `A` (no fields) — whose fields are one-term chains of the fragment,
    unnamed or named (`x: t`). -/
inductive T where
  | leaf (name : Str)
  /-- `Term::Access` of an identifier with accessors: `name.field.0` (`path` non-empty) -/
  | acc (name : Str) (path : List Acc)
  /-- `Term::Literal(Literal::Integer(i))` -/
  | int (i : Int)
  /-- `Term::Literal(Literal::Binary(bytes))` -/
  | bin (bytes : List Nat)
  /-- `Term::String(StringStyle::Single, segments, _)` without holes: no segment for the empty
      string, else one `Text` segment with the UTF-8 bytes of `value` -/
  | str (value : Str)
  | tup (name : Option Str) (fields : List F)
  /-- a chain of SEVERAL terms `first more…` (`Chain { terms }`, `more` non-empty). A chain of one term
      is represented by that term itself: fields and steps hold a `T` that is either a term or a
      `chain`; the terms of a chain are never chains (`T.WF`). -/
  | chain (first : T) (more : List T)
inductive F where
  | mk (label : Option Str) (value : T)
end

instance : Inhabited T := ⟨.leaf []⟩
instance : Inhabited F := ⟨.mk none default⟩

/-- a term (`primary`), not a chain of several terms -/
def isPrim : T → Bool
  | .chain _ _ => false
  | _ => true

/-- `is_call_ender`: `Term::Access` (a bare identifier here) -/
def isIdent : T → Bool
  | .leaf _ => true
  | .acc _ _ => true
  | _ => false

/-- `is_breakable_container`: a tuple with fields -/
def isContainer : T → Bool
  | .tup _ (_ :: _) => true
  | _ => false

/-- an optional name is in the language of the given lexical class -/
def optOk (ok : Str → Bool) : Option Str → Prop
  | none => True
  | some n => ok n = true

mutual
/-- every leaf and field label is an `identifier`, every tuple name a `tuple_name` of the language -/
def T.WF : T → Prop
  | .leaf n => isIdentStr n = true
  | .acc n p => isIdentStr n = true ∧ p ≠ [] ∧
      ∀ a ∈ p, match a with
        | .field f => isIdentStr f = true
        | .index i => i < 2 ^ 64
  | .int _ => True
  | .bin bs => ∀ b ∈ bs, b < 256
  | .str _ => True
  | .tup name fs => optOk isTupleNameStr name ∧ F.WFList fs
  | .chain t more => more ≠ [] ∧ isPrim t = true ∧ T.WF t ∧ T.WFTerms more
/-- the further terms of a chain: terms, well-formed -/
def T.WFTerms : List T → Prop
  | [] => True
  | t :: ts => (isPrim t = true ∧ T.WF t) ∧ T.WFTerms ts
def F.WF : F → Prop
  | .mk l t => optOk isIdentStr l ∧ T.WF t
def F.WFList : List F → Prop
  | [] => True
  | f :: fs => F.WF f ∧ F.WFList fs
end

/-! ### AST → Doc (format.rs) -/

/-- one accessor as `render_access` writes it -/
def accText : Acc → Str
  | .field f => '.' :: f
  | .index i => '.' :: Parse.natDigits i

def pathText : List Acc → Str
  | [] => []
  | a :: p => accText a ++ pathText p

/-- `render_access` of an identifier with accessors -/
def accessText (name : Str) (path : List Acc) : Str := name ++ pathText path

/-- `BigInt::to_string` -/
def intText (i : Int) : Str := if i < 0 then '-' :: Parse.natDigits i.natAbs else Parse.natDigits i.natAbs

/-- `hex::encode`: two lower-case digits per byte -/
def hexText : List Nat → Str
  | [] => []
  | b :: bs => QM.hexChar (b / 16) :: QM.hexChar (b % 16) :: hexText bs

/-- `render_literal` of a binary: `0x` and the hex digits -/
def binText (bs : List Nat) : Str := '0' :: 'x' :: hexText bs

/-- `single_line_string_doc` of a string without holes: the re-escaped text between quotes -/
def strText (v : Str) : Str := '"' :: (escapeSingle v ++ ['"'])

/-- `CHAIN_SOFT_WIDTH` -/
def chainSoftWidth : Nat := 50
/-- `WIDTH` -/
def pageWidth : Nat := 100

/-- `chain_doc` of a chain without pattern and with the single term whose doc is `term` -/
def chainDoc (term : Doc) : Doc :=
  .concat [.nil, Doc.mkGroup (breakIfWiderThan (.concat [term]) chainSoftWidth)]

/-- the parts of `chain_terms_doc` after the first term: after a call-ender a `line` and the `~> ` that
    shows only when the chain is broken, else a space; `prev` = the previous term is a call-ender -/
def chainParts : Bool → List Bool → List Doc → List Doc
  | prev, e :: es, d :: ds =>
    (if prev then [.line, .ifBreak (.text ['~', '>', ' ']) .nil] else [.text [' ']]) ++ d :: chainParts e es ds
  | _, _, _ => []

/-- `[..].join(" ")` -/
def joinSp : List Str → Str
  | [] => []
  | [s] => s
  | s :: ss => s ++ ' ' :: joinSp ss

/-- `chain_doc` of a chain of several terms without pattern: `enders` = `is_call_ender` per term,
    `lastContainer` = `is_breakable_container(last)`, `docs` = `term_doc` per term. A chain ending in a
    container keeps its head flat on one line (unless a head term forces a break); otherwise
    `group(break_if_wider_than(chain_terms_doc, 50))`. -/
def multiChainDoc (enders : List Bool) (lastContainer : Bool) (docs : List Doc) : Doc :=
  match enders, docs with
  | e :: es, d :: ds =>
    if lastContainer && !(docs.dropLast.any forcesBreak) then
      .concat [.nil, .text (joinSp (docs.dropLast.map flatten)), .text [' '], docs.getLastD d]
    else
      .concat [.nil, Doc.mkGroup (breakIfWiderThan (.concat (d :: chainParts e es ds)) chainSoftWidth)]
  | _, _ => .nil

/-- `field_doc` without trivia around the field's value doc -/
def fieldDoc (value : Doc) : Doc := .concat [.nil, value, .nil]

/-- the text in front of the fields: the tuple name (if any) and `[` -/
def openText (name : Option Str) : Str := name.getD [] ++ ['[']

/-- a tuple without fields: `[]`, or the bare name -/
def emptyText : Option Str → Str
  | none => ['[', ']']
  | some n => n

mutual
/-- `term_doc` (`render_access` of a bare identifier; `tuple_doc`) -/
def termDoc : T → Doc
  | .leaf n => .text n
  | .acc n p => .text (accessText n p)
  | .int i => .text (intText i)
  | .bin bs => .text (binText bs)
  | .str v => .text (strText v)
  | .tup name fs => if fs.isEmpty then .text (emptyText name) else bracketed (openText name) (fieldDocs fs)
  | .chain t more =>
    multiChainDoc (isIdent t :: more.map isIdent) (isContainer ((t :: more).getLastD t))
      (termDoc t :: termDocs more)
def termDocs : List T → List Doc
  | [] => []
  | t :: ts => termDoc t :: termDocs ts
/-- `field_doc`: `chain_doc`, behind `name: ` for a named field -/
def fieldDocOf : F → Doc
  | .mk none t => fieldDoc (if isPrim t then chainDoc (termDoc t) else termDoc t)
  | .mk (some l) t =>
    fieldDoc (.concat [.text (l ++ [':', ' ']), if isPrim t then chainDoc (termDoc t) else termDoc t])
def fieldDocs : List F → List Doc
  | [] => []
  | f :: fs => fieldDocOf f :: fieldDocs fs
end

/-- `chain_doc` of a field value or step: of the one-term chain `t`, or of the chain `t` is -/
def chainDocOf (t : T) : Doc := if isPrim t then chainDoc (termDoc t) else termDoc t

/-- `is_tall_step`: a pipeline (a call-ender before the last term) that does not end in a container
    and whose doc forces a break -/
def isTall (t : T) (body : Doc) : Bool :=
  match t with
  | .chain f more =>
    !isContainer ((f :: more).getLastD f) && ((f :: more).dropLast.any isIdent) && forcesBreak body
  | _ => false

/-- the step separator of `sequence_doc_with`: `, ` inline, a bare newline when the sequence is broken
    (comma and newline are synonyms) -/
def seqSepDoc : Doc := .concat [.ifBreak .nil (.text [',']), .line]

/-- the `rest` of `sequence_doc_with`: separator and item for every step after the first; a "tall"
    step is set off from its neighbours by a blank line (two hard lines) instead. No step of the
    fragment starts with `(` (`glued`) or with a block (`needs_explicit_comma`). `prevTall` = the
    previous step is tall. -/
def restDocs : Bool → List T → List Doc
  | _, [] => []
  | prevTall, t :: ts =>
    let tall := isTall t (chainDocOf t)
    (if prevTall || tall then [.hardline, .hardline] else [seqSepDoc]) ++
      fieldDoc (chainDocOf t) :: restDocs tall ts

/-- `sequence_doc_with` without trivia: `group(concat [first, nest(0, concat rest)])` -/
def sequenceDoc : List T → Doc
  | [] => Doc.mkGroup (.concat [.nil, .nest 0 (.concat [])])
  | t :: ts =>
    Doc.mkGroup (.concat [fieldDoc (chainDocOf t), .nest 0 (.concat (restDocs (isTall t (chainDocOf t)) ts))])

/-- the `Doc` of `format_program` for the program whose only statement is the sequence of the one-term
    chains `ts` (the parser makes ONE sequence of all the comma/newline-separated expressions) -/
def programDoc (ts : List T) : Doc := .concat [sequenceDoc ts]

/-- a program of the fragment: at least one step, all well-formed -/
def WFProg (ts : List T) : Prop := ts ≠ [] ∧ ∀ t ∈ ts, T.WF t

/-- `format_program` on the fragment: lay out at `WIDTH`, collapse blank lines, expand the (absent)
    literal placeholders. -/
def fmtFrag (ts : List T) : List Char :=
  match expandLiterals (collapseBlanks (print (programDoc ts) pageWidth)) [] with
  | some out => out
  | none => "<panic: literal index out of range>".toList

/-! ### text → AST (parser.rs) -/

/-- `hspace1` -/
def hspace1 : P Unit := fun i =>
  match i with
  | c :: r => if Parse.isHspace c then .ok () (r.dropWhile Parse.isHspace) else .err i .space
  | [] => .err i .space

/-- the separator of `chain_inner`: `alt((tuple((ws1, tag("~>"), ws1)), hspace1))` -/
def chainSep : P Unit := alt (seq ws1 (seq (ptag ['~', '>']) ws1)) hspace1

/-- `chain` = `chain_inner` = `separated_list1(chainSep, primary)` (the speculative `pattern =`
    alternative fails at the `=`); one term is that term, several are a `chain` -/
def chainP (term : P T) : P T :=
  pmap (sepList1 chainSep term) fun
    | [t] => t
    | t :: ts => .chain t ts
    | [] => default

/-- `tuple_field`: `separated_pair(identifier, (char(':'), ws1), chain)` for a named field, else the
    chain (the two spread alternatives in between fail at the first character on fragment texts). -/
def fieldP (term : P T) : P F :=
  alt
    (bind identifier fun n => seq (pchar ':') (seq ws1 (pmap term (F.mk (some n)))))
    (pmap term (F.mk none))

/-- `delimited(pair(char('['), wsc), tuple_field_list, pair(wsc, char(']')))` with
    `tuple_field_list = terminated(separated_list0(tuple((wsc, char(','), wsc)), tuple_field),
    opt(pair(wsc, char(','))))` -/
def bracketsP (field : P F) : P (List F) :=
  delimited (seq (pchar '[') wsc)
    (before (sepList0 commaWsc field) (opt (seq wsc (pchar ','))))
    (seq wsc (pchar ']'))

/-- `tuple_term`: `Name[…]`, `[…]`, or a bare `Name` not followed by `(` (which would make it a
    partial pattern/type). -/
def tupleP (field : P F) : P T :=
  alt (bind tupleName fun n => pmap (bracketsP field) (T.tup (some n)))
    (alt (pmap (bracketsP field) (T.tup none))
      (bind tupleName fun n => pmap (peekNot (seq ws0 (pchar '('))) (fun _ => T.tup (some n) [])))

/-- `digit1` -/
def digit1 : P Str := fun i =>
  let ds := i.takeWhile isDigit
  if ds.isEmpty then .err i .digit else .ok ds (i.dropWhile isDigit)

/-- `integer_literal`: `pair(opt(char('-')), map_res(digit1, parse::<BigInt>))` (a `BigInt` never
    overflows) -/
def integerP : P Int :=
  bind (opt (pchar '-')) fun sign =>
    pmap digit1 fun ds => if sign.isSome then -(digitsVal ds : Int) else (digitsVal ds : Int)

def isHexDigit (c : Char) : Bool := (QM.hexDigit c).isSome

/-- `binary_literal`: `preceded(tag("0x"), take_while(is_ascii_hexdigit))`, then `hex::decode`. (An odd
    number of digits is a nom `Failure` in the Rust; the model has no hard failures and answers a
    plain error — fragment texts never get there.) -/
def binaryP : P (List Nat) :=
  seq (ptag ['0', 'x']) fun i =>
    match QM.parseHexNat (i.takeWhile isHexDigit) with
    | some bs => .ok bs (i.dropWhile isHexDigit)
    | none => .err i .verify

/-- `literal` = `alt((binary_literal, integer_literal))` -/
def literalP : P T := alt (pmap binaryP T.bin) (pmap integerP T.int)

/-- `string_term` for a single-line string without holes: `"""` goes to the multi-line alternative
    (outside the fragment: plain error here); else `string_segments` after the opening quote must reach
    the closing quote without meeting an unescaped `{` (hole), a bad escape or the end of the input
    (nom `Failure`s in the Rust, plain errors in the model). -/
def stringP : P T := fun i =>
  match i with
  | '"' :: body =>
    if startsTripleQuote i then .err i .tag
    else
      match stringSegments body with
      | .closed text rest => .ok (.str text) rest
      | _ => .err i .verify
  | _ => .err i .char

/-- `accessor`: an index (`usize`) or a field name -/
def accessorP : P Acc := alt (pmap usize Acc.index) (pmap identifier Acc.field)

/-- `access` with an identifier as its source: the identifier, then `many0(preceded('.', accessor))` -/
def accessP : P T :=
  bind identifier fun n =>
    pmap (many0 (seq (pchar '.') accessorP)) fun p => if p.isEmpty then .leaf n else .acc n p

/-- `primary` restricted to the fragment (string | literal | tuple | access of a bare identifier — in the order
    of the Rust `alt`; `decimal_term` / `fraction_term`, tried before `literal`, fail when the digits are
    not followed by `.` / `/`, which `Stop` excludes); the recursion through
    `tuple_field` → `chain` → `primary` is tied by fuel as in Core/Parse/Type (`Res.out` = fuel
    exhausted). -/
def termP : Nat → P T
  | 0 => fun _ => .out
  | n + 1 => alt stringP (alt literalP (alt (tupleP (fieldP (chainP (termP n)))) accessP))

/-- `eof` -/
def peof : P Unit := fun i =>
  match i with
  | [] => .ok () []
  | _ :: _ => .err i .eof

/-- `sequence` = `terminated(separated_list1(seq_sep, chain), opt(seq_sep))`; a chain of the
    fragment is one `primary` (the speculative `pattern =` alternative of `chain` fails at the `=`). -/
def sequenceP (n : Nat) : P (List T) := before (sepList1 seqSep (chainP (termP n))) (opt seqSep)

/-- `program` = `delimited(ws_with_comments, terminated(separated_list0(seq_sep, top_level_item),
    opt(seq_sep)), pair(ws_with_comments, eof))`; `top_level_item` = type alias (fails at the first
    character on fragment texts) or `sequence`. The result lists the statements (sequences). -/
def programP : P (List (List T)) := fun i =>
  seq wsc (before (before (sepList0 seqSep (sequenceP (i.length + 1))) (opt seqSep)) (seq wsc peof)) i

end QM.Frag
