/-
M-Text, part 1 — the `Doc` layout algebra of `quiver-compiler/src/pretty.rs`, mirrored node for node
and loop for loop (import-free: core Lean only).

Rust                                   here
----                                   ----
enum Mode {Flat, Break}                `Mode`
enum Doc {Nil, Text, Line, SoftLine,   `Doc` (same eleven constructors; `Text` carries the list of
  HardLine, Concat, Nest, Group,        `char`s of the Rust `String`, so `s.chars().count()` is
  IfBreak, LineSuffix, BreakParent}     `List.length`)
group / join                           `Doc.mkGroup`, `Doc.join`
forces_break                           `forcesBreak`
type Frame = (usize, Mode, &Doc)       `Frame`
print (loop over stack + suffixes)     `printLoop` (one equation per `match` arm of the Rust loop);
                                        the output `String` is produced as a list of `Piece`s
                                        (`out.push_str(s)` = `.atom s`, `out.push(' ')` = `.sp`,
                                        `newline(&mut out, indent)` = `.nl indent`) and rendered by
                                        `renderPieces`; `print` = `strip_trailing_whitespace` of it
fits                                   `fitsLoop` (`remaining as isize` = `toIsize`)
flatten / flat_width                   `flattenLoop` / `flatWidthLoop` (the explicit `Vec<&Doc>` stack)
strip_trailing_whitespace              `stripTrailingWhitespace` (`str::lines` + `trim_end` + join)

Termination of the three loops is by a size measure on the pending stack (+ the buffered line
suffixes for `print`): no fuel anywhere.

Machine integers: `usize`/`isize` are 64 bit. The only place where the width is observable is
`fits`' `remaining as isize` (a width ≥ 2^63 wraps to a negative number and every group breaks):
mirrored by `toIsize`. `indent + extra`, `col += …` and `width += …` are modelled in `Nat`
(an overflow needs ≥ 2^64 columns of text or nesting).
-/
namespace QM.Text

inductive Mode where
  | flat
  | brk
  deriving DecidableEq, Repr, Inhabited

inductive Doc where
  | nil
  | text (s : List Char)
  | line
  | softline
  | hardline
  | concat (ds : List Doc)
  | nest (extra : Nat) (d : Doc)
  | group (d : Doc) (shouldBreak : Bool)
  | ifBreak (broken flat : Doc)
  | lineSuffix (d : Doc)
  | breakParent
  deriving Repr, Inhabited

/-! ### Size measure (termination of the loops) -/

mutual
/-- `lineSuffix` weighs 2 so that moving its content to the suffix buffer (weight `size + 1`) and
    later back onto the stack (weight `size`) both decrease the measure. -/
def Doc.size : Doc → Nat
  | .concat ds => 1 + Doc.sizeList ds
  | .nest _ d => 1 + d.size
  | .group d _ => 1 + d.size
  | .ifBreak b f => 1 + b.size + f.size
  | .lineSuffix d => 2 + d.size
  | .nil | .text _ | .line | .softline | .hardline | .breakParent => 1
def Doc.sizeList : List Doc → Nat
  | [] => 0
  | d :: ds => d.size + Doc.sizeList ds
end

theorem Doc.size_pos (d : Doc) : 0 < d.size := by
  cases d <;> simp [Doc.size] <;> omega

theorem Doc.sizeList_append (a b : List Doc) :
    Doc.sizeList (a ++ b) = Doc.sizeList a + Doc.sizeList b := by
  induction a with
  | nil => simp [Doc.sizeList]
  | cons d ds ih => simp [Doc.sizeList, ih]; omega

/-! ### `forces_break`, `group`, `join` -/

mutual
def forcesBreak : Doc → Bool
  | .hardline | .breakParent => true
  | .concat ds => forcesBreakAny ds
  | .nest _ d => forcesBreak d
  | .group _ sb => sb
  | .ifBreak _ f => forcesBreak f
  | .nil | .text _ | .line | .softline | .lineSuffix _ => false
/-- `docs.iter().any(forces_break)` -/
def forcesBreakAny : List Doc → Bool
  | [] => false
  | d :: ds => forcesBreak d || forcesBreakAny ds
end

/-- `pretty::group`: the flag is precomputed from the content. -/
def Doc.mkGroup (d : Doc) : Doc := .group d (forcesBreak d)

/-- `pretty::join` -/
def Doc.joinList (sep : Doc) : List Doc → List Doc
  | [] => []
  | [d] => [d]
  | d :: ds => d :: sep :: Doc.joinList sep ds

def Doc.join (sep : Doc) (ds : List Doc) : Doc := .concat (Doc.joinList sep ds)

/-! ### Frames -/

structure Frame where
  indent : Nat
  mode : Mode
  doc : Doc
  deriving Repr, Inhabited

def framesSize : List Frame → Nat
  | [] => 0
  | f :: fs => f.doc.size + framesSize fs

/-- Weight of the buffered line suffixes: one more than their size each. -/
def sufSize : List Frame → Nat
  | [] => 0
  | f :: fs => f.doc.size + 1 + sufSize fs

theorem framesSize_append (a b : List Frame) :
    framesSize (a ++ b) = framesSize a + framesSize b := by
  induction a with
  | nil => simp [framesSize]
  | cons f fs ih => simp [framesSize, ih]; omega

/-- `for child in docs.iter().rev() { stack.push((indent, mode, child)) }`: the children as
    frames, first child on top. -/
def mkFrames (i : Nat) (m : Mode) : List Doc → List Frame
  | [] => []
  | d :: ds => ⟨i, m, d⟩ :: mkFrames i m ds

theorem framesSize_map (i : Nat) (m : Mode) (ds : List Doc) :
    framesSize (mkFrames i m ds) = Doc.sizeList ds := by
  induction ds with
  | nil => simp [framesSize, Doc.sizeList, mkFrames]
  | cons d ds ih => simp [framesSize, Doc.sizeList, mkFrames, ih]

theorem sufSize_append (a b : List Frame) : sufSize (a ++ b) = sufSize a + sufSize b := by
  induction a with
  | nil => simp [sufSize]
  | cons f fs ih => simp [sufSize, ih]; omega

theorem sufSize_eq (s : List Frame) : sufSize s = framesSize s + s.length := by
  induction s with
  | nil => simp [sufSize, framesSize]
  | cons f fs ih => simp [sufSize, framesSize, ih]; omega

/-! ### `fits` -/

/-- `n as isize` for a `usize` `n` (two's complement, 64 bit). -/
def toIsize (n : Nat) : Int :=
  if n % 2 ^ 64 < 2 ^ 63 then ((n % 2 ^ 64 : Nat) : Int) else ((n % 2 ^ 64 : Nat) : Int) - 2 ^ 64

/-- `local.pop().or_else(|| rest[rest_top - 1])`: the next frame of `fits`, from the local stack
    first and then from the continuation (which is only read). -/
def popFrame : List Frame → List Frame → Option (Frame × List Frame × List Frame)
  | f :: loc, rest => some (f, loc, rest)
  | [], f :: rest => some (f, [], rest)
  | [], [] => none

theorem popFrame_size {loc rest : List Frame} {f : Frame} {loc' rest' : List Frame}
    (h : popFrame loc rest = some (f, loc', rest')) :
    f.doc.size + framesSize loc' + framesSize rest' = framesSize loc + framesSize rest := by
  cases loc with
  | cons g l => simp [popFrame] at h; obtain ⟨rfl, rfl, rfl⟩ := h; simp [framesSize]
  | nil =>
    cases rest with
    | nil => simp [popFrame] at h
    | cons g r => simp [popFrame] at h; obtain ⟨rfl, rfl, rfl⟩ := h; simp [framesSize]

set_option linter.unusedVariables false in
/-- The `while remaining >= 0` loop of `fits`. `loc` is the local stack (head = top), `rest` the
    continuation (the print stack, head = top, read top first and never modified). -/
def fitsLoop (remaining : Int) (loc rest : List Frame) : Bool :=
  if remaining < 0 then false
  else
    match h : popFrame loc rest with
    | none => true
    | some (f, loc', rest') =>
      match hd : f.doc with
      | .nil => fitsLoop remaining loc' rest'
      | .text s => fitsLoop (remaining - (s.length : Int)) loc' rest'
      | .concat ds => fitsLoop remaining (mkFrames f.indent f.mode ds ++ loc') rest'
      | .nest extra d => fitsLoop remaining (⟨f.indent + extra, f.mode, d⟩ :: loc') rest'
      | .line =>
        match f.mode with
        | .flat => fitsLoop (remaining - 1) loc' rest'
        | .brk => true
      | .softline =>
        match f.mode with
        | .flat => fitsLoop remaining loc' rest'
        | .brk => true
      | .hardline => true
      | .lineSuffix _ => fitsLoop remaining loc' rest'
      | .breakParent => fitsLoop remaining loc' rest'
      | .ifBreak b fl =>
        match f.mode with
        | .brk => fitsLoop remaining (⟨f.indent, .brk, b⟩ :: loc') rest'
        | .flat => fitsLoop remaining (⟨f.indent, .flat, fl⟩ :: loc') rest'
      | .group d sb => fitsLoop remaining (⟨f.indent, if sb then .brk else .flat, d⟩ :: loc') rest'
termination_by framesSize loc + framesSize rest
decreasing_by
  all_goals
    have hsz := popFrame_size h
    simp only [hd, Doc.size, framesSize, framesSize_append, framesSize_map] at hsz ⊢
    try split
    all_goals omega

/-- `fits(remaining, indent, group_inner, rest)` -/
def fits (remaining : Nat) (indent : Nat) (inner : Doc) (rest : List Frame) : Bool :=
  fitsLoop (toIsize remaining) [⟨indent, .flat, inner⟩] rest

/-! ### `print` -/

/-- What `print` appends to `out`: `push_str(s)` of a `Text`, a single space (flat `Line`), or
    `newline(out, indent)`. -/
inductive Piece where
  | atom (s : List Char)
  | sp
  | nl (indent : Nat)
  deriving Repr, DecidableEq, Inhabited

def Piece.render : Piece → List Char
  | .atom s => s
  | .sp => [' ']
  | .nl n => '\n' :: List.replicate n ' '

def renderPieces : List Piece → List Char
  | [] => []
  | p :: ps => p.render ++ renderPieces ps

set_option linter.unusedVariables false in
set_option linter.unusedSimpArgs false in
/-- The main `loop` of `print`: `stack` has its top at the head; `suffixes` is in push order
    (`suffixes.push` appends; `stack.extend(suffixes.drain(..).rev())` puts the first one on top).
    Returns the pieces appended to `out` from this state on. -/
def printLoop (width : Nat) (col : Nat) (stack suffixes : List Frame) : List Piece :=
  match stack with
  | [] =>
    match suffixes with
    | [] => []
    | s :: ss => printLoop width col (s :: ss) []
  | f :: st =>
    match hd : f.doc with
    | .nil => printLoop width col st suffixes
    | .breakParent => printLoop width col st suffixes
    | .text s => .atom s :: printLoop width (col + s.length) st suffixes
    | .concat ds => printLoop width col (mkFrames f.indent f.mode ds ++ st) suffixes
    | .nest extra d => printLoop width col (⟨f.indent + extra, f.mode, d⟩ :: st) suffixes
    | .lineSuffix d => printLoop width col st (suffixes ++ [⟨f.indent, f.mode, d⟩])
    | .line =>
      match f.mode with
      | .flat => .sp :: printLoop width (col + 1) st suffixes
      | .brk =>
        match suffixes with
        | [] => .nl f.indent :: printLoop width f.indent st []
        | s :: ss => printLoop width col ((s :: ss) ++ f :: st) []
    | .softline =>
      match f.mode with
      | .flat => printLoop width col st suffixes
      | .brk =>
        match suffixes with
        | [] => .nl f.indent :: printLoop width f.indent st []
        | s :: ss => printLoop width col ((s :: ss) ++ f :: st) []
    | .hardline =>
      match suffixes with
      | [] => .nl f.indent :: printLoop width f.indent st []
      | s :: ss => printLoop width col ((s :: ss) ++ f :: st) []
    | .ifBreak b fl =>
      match f.mode with
      | .brk => printLoop width col (⟨f.indent, .brk, b⟩ :: st) suffixes
      | .flat => printLoop width col (⟨f.indent, .flat, fl⟩ :: st) suffixes
    | .group d sb =>
      let mode := if sb || !fits (width - col) f.indent d st then Mode.brk else Mode.flat
      printLoop width col (⟨f.indent, mode, d⟩ :: st) suffixes
termination_by framesSize stack + sufSize suffixes
decreasing_by
  all_goals
    simp only [framesSize, sufSize, framesSize_append, framesSize_map,
      sufSize_append, sufSize_eq, List.length_cons, List.length_append, List.length_nil]
    try simp only [hd]
    try simp only [Doc.size]
    try split
    all_goals omega

/-! ### `strip_trailing_whitespace` -/

/-- `char::is_whitespace` (Unicode `White_Space`). -/
def isWhitespace (c : Char) : Bool :=
  let n := c.toNat
  (0x09 ≤ n && n ≤ 0x0D) || n == 0x20 || n == 0x85 || n == 0xA0 || n == 0x1680 ||
  (0x2000 ≤ n && n ≤ 0x200A) || n == 0x2028 || n == 0x2029 || n == 0x202F || n == 0x205F ||
  n == 0x3000

/-- `str::trim_end` -/
def trimEnd (cs : List Char) : List Char := (cs.reverse.dropWhile isWhitespace).reverse

/-- `str::lines`: split after every `\n`; the `\n` and a `\r` directly before it are not part of the
    line; a final piece without `\n` is a line if it is non-empty (and keeps a trailing `\r`). -/
def rustLinesAux (cur : List Char) : List Char → List (List Char)
  | [] => if cur.isEmpty then [] else [cur.reverse]
  | c :: rest =>
    if c = '\n' then
      (match cur with
       | '\r' :: cur' => cur'.reverse
       | _ => cur.reverse) :: rustLinesAux [] rest
    else rustLinesAux (c :: cur) rest

def rustLines (cs : List Char) : List (List Char) := rustLinesAux [] cs

/-- `[..].join("\n")` -/
def joinNl : List (List Char) → List Char
  | [] => []
  | [l] => l
  | l :: ls => l ++ '\n' :: joinNl ls

def stripTrailingWhitespace (cs : List Char) : List Char :=
  joinNl ((rustLines cs).map trimEnd)

/-- The raw `out` string of `print` before `strip_trailing_whitespace`. -/
def printPieces (d : Doc) (width : Nat) : List Piece :=
  printLoop width 0 [⟨0, .brk, d⟩] []

/-- `pretty::print(doc, width)` -/
def print (d : Doc) (width : Nat) : List Char :=
  stripTrailingWhitespace (renderPieces (printPieces d width))

/-! ### `flatten`, `flat_width` -/

set_option linter.unusedVariables false in
/-- The `while let Some(doc) = stack.pop()` loop of `flatten` (head = top of stack). -/
def flattenLoop (stack : List Doc) : List Char :=
  match stack with
  | [] => []
  | d :: st =>
    match hd : d with
    | .nil => flattenLoop st
    | .softline => flattenLoop st
    | .breakParent => flattenLoop st
    | .text s => s ++ flattenLoop st
    | .line => ' ' :: flattenLoop st
    | .hardline => '\n' :: flattenLoop st
    | .concat ds => flattenLoop (ds ++ st)
    | .nest _ inner => flattenLoop (inner :: st)
    | .group inner _ => flattenLoop (inner :: st)
    | .lineSuffix inner => flattenLoop (inner :: st)
    | .ifBreak _ fl => flattenLoop (fl :: st)
termination_by Doc.sizeList stack
decreasing_by
  all_goals
    simp only [Doc.size, Doc.sizeList, Doc.sizeList_append] at *
    omega

/-- `pretty::flatten(doc)` -/
def flatten (d : Doc) : List Char := stripTrailingWhitespace (flattenLoop [d])

set_option linter.unusedVariables false in
/-- The loop of `flat_width`: `none` on a `HardLine`/`BreakParent` or as soon as `width > max`. -/
def flatWidthLoop (max : Nat) (width : Nat) (stack : List Doc) : Option Nat :=
  match stack with
  | [] => some width
  | d :: st =>
    match hd : d with
    | .nil => if width > max then none else flatWidthLoop max width st
    | .softline => if width > max then none else flatWidthLoop max width st
    | .lineSuffix _ => if width > max then none else flatWidthLoop max width st
    | .text s => if width + s.length > max then none else flatWidthLoop max (width + s.length) st
    | .line => if width + 1 > max then none else flatWidthLoop max (width + 1) st
    | .hardline => none
    | .breakParent => none
    | .concat ds => if width > max then none else flatWidthLoop max width (ds ++ st)
    | .nest _ inner => if width > max then none else flatWidthLoop max width (inner :: st)
    | .group inner _ => if width > max then none else flatWidthLoop max width (inner :: st)
    | .ifBreak _ fl => if width > max then none else flatWidthLoop max width (fl :: st)
termination_by Doc.sizeList stack
decreasing_by
  all_goals
    simp only [Doc.size, Doc.sizeList, Doc.sizeList_append] at *
    omega

/-- `pretty::flat_width(doc, max)` -/
def flatWidth (d : Doc) (max : Nat) : Option Nat := flatWidthLoop max 0 [d]

end QM.Text
