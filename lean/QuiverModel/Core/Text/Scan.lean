/-
M-Text, part 3 — the escape-aware scanners for the closing delimiter of a string literal, source
span arithmetic, and `detect_error_kind` (all from `parser.rs`; core Lean only).

Rust                                         here
----                                         ----
single_line_string  (scan for closing `"`)   `scanCloseSingle`
multiline_string_raw (scan for `"""`)        `scanCloseMulti`
SourceSpan / from_span (nom_locate)          `SourceSpan`, `spanOfSuffix`, `lineOf`, `columnOf`
detect_error_kind                            `detectErrorKind`
single_line_string / multiline_string        `singleLinePattern`, `multilinePattern` (scan + decode)

A `&str` is a `List Char`; an index returned by `char_indices` is the UTF-8 length of the prefix.
-/
import QuiverModel.Core.Text.Escape
namespace QM.Text

/-! ### Closing-delimiter scanners -/

/-- The `while let Some((idx, ch)) = iter.next()` loop of `single_line_string`: `idx` is the byte
    index of `ch`; a backslash consumes the following character as well. -/
def scanCloseSingleAux (idx : Nat) : List Char → Option Nat
  | [] => none
  | c :: rest =>
    if c = '\\' then
      match rest with
      | [] => none
      | e :: rest' => scanCloseSingleAux (idx + c.utf8Size + e.utf8Size) rest'
    else if c = '"' then some idx
    else scanCloseSingleAux (idx + c.utf8Size) rest

/-- Byte index (relative to the fragment after the opening quote) of the closing `"`. -/
def scanCloseSingle (frag : List Char) : Option Nat := scanCloseSingleAux 0 frag

/-- `frag[idx..].starts_with("\"\"\"")` for `frag[idx..] = c :: rest` with `c = '"'`. -/
def startsTripleQuote : List Char → Bool
  | '"' :: '"' :: '"' :: _ => true
  | _ => false

/-- The loop of `multiline_string_raw`. -/
def scanCloseMultiAux (idx : Nat) : List Char → Option Nat
  | [] => none
  | c :: rest =>
    if c = '\\' then
      match rest with
      | [] => none
      | e :: rest' => scanCloseMultiAux (idx + c.utf8Size + e.utf8Size) rest'
    else if c = '"' && startsTripleQuote (c :: rest) then some idx
    else scanCloseMultiAux (idx + c.utf8Size) rest

def scanCloseMulti (frag : List Char) : Option Nat := scanCloseMultiAux 0 frag

/-- `&s[..idx]` for a byte index on a character boundary (`none` otherwise — Rust would panic). -/
def takeBytes : Nat → List Char → Option (List Char)
  | 0, _ => some []
  | _ + 1, [] => none
  | n + 1, c :: rest =>
    if c.utf8Size ≤ n + 1 then (takeBytes (n + 1 - c.utf8Size) rest).map (c :: ·) else none

/-- `&s[idx..]` -/
def dropBytes : Nat → List Char → Option (List Char)
  | 0, cs => some cs
  | _ + 1, [] => none
  | n + 1, c :: rest => if c.utf8Size ≤ n + 1 then dropBytes (n + 1 - c.utf8Size) rest else none

/-- Outcome of a pattern-position string literal. -/
inductive LitResult where
  | ok (value : List Char) (rest : List Char)
  /-- no closing delimiter: nom `Eof` failure -/
  | unterminated
  /-- bad escape / bad indentation: nom `MapRes` failure -/
  | malformed
  /-- a slice at a non-boundary index: would be a Rust panic (never produced, see `C18`) -/
  | panic
  deriving Repr, DecidableEq

/-- `single_line_string` on the input after the opening `"`. -/
def singleLinePattern (body : List Char) : LitResult :=
  match scanCloseSingle body with
  | none => .unterminated
  | some idx =>
    match takeBytes idx body, dropBytes (idx + 1) body with
    | some content, some rest =>
      match decodeSingle content with
      | .ok v => .ok v rest
      | .error _ => .malformed
    | _, _ => .panic

/-- `multiline_string` on the input after the opening `"""`. -/
def multilinePattern (body : List Char) : LitResult :=
  match scanCloseMulti body with
  | none => .unterminated
  | some idx =>
    match takeBytes idx body, dropBytes (idx + 3) body with
    | some raw, some rest =>
      match processMultilineString raw with
      | some v => .ok v rest
      | none => .malformed
    | _, _ => .panic

/-! ### Source spans -/

structure SourceSpan where
  offset : Nat
  line : Nat
  column : Nat
  length : Nat
  deriving Repr, DecidableEq

/-- Walk `input` up to byte `offset`, tracking nom_locate's line (1-based, counts `\n`) and column
    (1-based, in bytes since the last `\n`). -/
def lineColAux (line col : Nat) : Nat → List Char → Nat × Nat
  | 0, _ => (line, col)
  | _ + 1, [] => (line, col)
  | n + 1, c :: rest =>
    if c = '\n' then lineColAux (line + 1) 1 (n + 1 - c.utf8Size) rest
    else lineColAux line (col + c.utf8Size) (n + 1 - c.utf8Size) rest

def lineOf (input : List Char) (offset : Nat) : Nat := (lineColAux 1 1 offset input).1
def columnOf (input : List Char) (offset : Nat) : Nat := (lineColAux 1 1 offset input).2

/-- `SourceSpan::from_span(e.input)` for a remaining-input span that starts at byte `offset`: its
    fragment is the rest of the input. -/
def spanOfSuffix (input : List Char) (offset : Nat) : SourceSpan :=
  { offset := offset, line := lineOf input offset, column := columnOf input offset,
    length := utf8Len input - offset }

/-- `span_between(start, end)` / `token_span`: a span of `length` bytes at `offset`. -/
def spanAt (input : List Char) (offset length : Nat) : SourceSpan :=
  { offset := offset, line := lineOf input offset, column := columnOf input offset, length := length }

/-! ### `detect_error_kind` -/

inductive DetectedKind where
  | unterminatedString | unterminatedTuple | invalidFunctionBody | unterminatedBlock
  | missingClosingParen | expectedPipe | unexpectedEndOfInput
  deriving Repr, DecidableEq

def DetectedKind.name : DetectedKind → String
  | .unterminatedString => "UnterminatedString"
  | .unterminatedTuple => "UnterminatedTuple"
  | .invalidFunctionBody => "InvalidFunctionBody"
  | .unterminatedBlock => "UnterminatedBlock"
  | .missingClosingParen => "MissingClosingParen"
  | .expectedPipe => "ExpectedPipe"
  | .unexpectedEndOfInput => "UnexpectedEndOfInput"

/-- `analyzed.matches(c).count()` -/
def countChar (c : Char) (cs : List Char) : Nat := (cs.filter (· = c)).length

/-- the quote-parity loop: `(in_string, escaped)` -/
def quoteParity (inString escaped : Bool) : List Char → Bool
  | [] => inString
  | c :: rest =>
    if escaped then quoteParity inString false rest
    else if c = '\\' then quoteParity inString true rest
    else if c = '"' then quoteParity (!inString) false rest
    else quoteParity inString false rest

/-- `analyzed.contains("=>")` -/
def containsArrow : List Char → Bool
  | '=' :: '>' :: _ => true
  | _ :: rest => containsArrow rest
  | [] => false

/-- `analyzed.split("=>").last()`: the text after the last `=>` (the whole text if there is none). -/
def afterLastArrow (cs : List Char) : List Char :=
  let rec go (cur : List Char) : List Char → List Char
    | '=' :: '>' :: rest => go rest rest
    | _ :: rest => go cur rest
    | [] => cur
  go cs cs

/-- `str::trim_start` -/
def trimStart (cs : List Char) : List Char := cs.dropWhile isWhitespace

/-- `s.ends_with("=>")` / `"~>"` -/
def endsWith2 (a b : Char) (cs : List Char) : Bool :=
  match cs.reverse with
  | y :: x :: _ => x = a && y = b
  | _ => false

def detectErrorKind (source : List Char) : DetectedKind :=
  let openBrackets := countChar '[' source
  let closeBrackets := countChar ']' source
  let openBraces := countChar '{' source
  let closeBraces := countChar '}' source
  let openParens := countChar '(' source
  let closeParens := countChar ')' source
  if quoteParity false false source then .unterminatedString
  else if openBrackets > closeBrackets then .unterminatedTuple
  else if openBraces > closeBraces then
    if containsArrow source then .invalidFunctionBody else .unterminatedBlock
  else if openParens > closeParens then .missingClosingParen
  else
    let afterTrimmed := trimEnd (trimStart (afterLastArrow source))
    if containsArrow source && (afterTrimmed.isEmpty || afterTrimmed.head? = some '}') then
      .invalidFunctionBody
    else
      let trimmed := trimEnd source
      if endsWith2 '=' '>' trimmed then .invalidFunctionBody
      else if endsWith2 '~' '>' trimmed then .expectedPipe
      else .unexpectedEndOfInput

end QM.Text
