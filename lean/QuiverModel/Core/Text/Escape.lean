/-
M-Text, part 2 — the string-literal functions of `parser.rs` and `format.rs` over `List Char`
(import-free).

Rust                                            here
----                                            ----
parser.rs  parse_string_content                 `decodeSingle`
parser.rs  string_segments (text part)          `stringSegments` (stops at the first hole)
parser.rs  is_hspace                            `isHspace`
parser.rs  multiline_dedent                     `multilineDedent`
parser.rs  process_multiline_string             `processMultilineString`
parser.rs  process_multiline_segments (text)    `processMultilineSegments` (stops at the first hole)
format.rs  escape_single_line_text              `escapeSingle`
format.rs  escape_multiline_text                `escapeMultiText`
format.rs  protect_trailing_spaces              `protectTrailingSpaces`
format.rs  multiline_string_doc (text only)     `multilineLines` (the escaped, protected lines), `multilineDoc`
format.rs  literal_placeholder / expand_literals `literalPlaceholder`, `expandLiterals`
format.rs  collapse_blanks                      `collapseBlanks`  (needs `rustLines`/`isWhitespace`, so
                                                  it lives in Doc-dependent `Layout` section below)

A Rust `&str`/`String` is a `List Char`; byte offsets are sums of `Char.utf8Size`.
-/
import QuiverModel.Core.Text.Doc
namespace QM.Text

/-- UTF-8 length in bytes (`str::len`). -/
def utf8Len : List Char → Nat
  | [] => 0
  | c :: cs => c.utf8Size + utf8Len cs

/-! ### `parse_string_content` (pattern position, after the closing quote has been located) -/

/-- The error value of `parse_string_content`: byte offset of the backslash relative to the start of
    the literal's content, the `length` field of the reported span (2 = backslash + character, 1 = a
    lone backslash at the end) and the offending escape text. -/
structure EscapeError where
  escapeOffset : Nat
  length : Nat
  escape : List Char
  deriving Repr, DecidableEq

/-- The escape table shared by `parse_string_content` and `string_segments` (the `match` on the
    character after the backslash): `\"`, `\\`, `\n`, `\r`, `\t`, `\{`; anything else is invalid. -/
def singleEscape (e : Char) : Option Char :=
  if e = '"' then some '"'
  else if e = '\\' then some '\\'
  else if e = 'n' then some '\n'
  else if e = 'r' then some '\r'
  else if e = 't' then some '\t'
  else if e = '{' then some '{'
  else none

/-- `parse_string_content`: `offset` is the running byte offset (the code adds `1` for the escaped
    character of a valid escape — they are all ASCII). -/
def decodeSingleAux (offset : Nat) : List Char → Except EscapeError (List Char)
  | [] => .ok []
  | c :: rest =>
    if c = '\\' then
      match rest with
      | [] => .error ⟨offset, 1, ['\\']⟩
      | e :: rest' =>
        match singleEscape e with
        | some d => (decodeSingleAux (offset + 2) rest').map (d :: ·)
        | none => .error ⟨offset, 2, ['\\', e]⟩
    else (decodeSingleAux (offset + c.utf8Size) rest).map (c :: ·)

def decodeSingle (cs : List Char) : Except EscapeError (List Char) := decodeSingleAux 0 cs

/-! ### `string_segments` (term position): scan and decode in one pass, up to the first hole -/

inductive SegResult where
  /-- closing quote found: decoded text of the (only) text segment, and the input after the quote -/
  | closed (text : List Char) (rest : List Char)
  /-- an unescaped `{` opens an interpolation hole: decoded text so far and the input from the `{` -/
  | hole (text : List Char) (rest : List Char)
  /-- end of input before the closing quote (nom `Eof` failure located at the opening quote) -/
  | unterminated
  /-- invalid escape (nom `MapRes` failure located at the opening quote) -/
  | badEscape
  deriving Repr, DecidableEq

/-- `text.extend_from_slice(d)` before the rest of the scan -/
def SegResult.push (d : Char) : SegResult → SegResult
  | .closed t r => .closed (d :: t) r
  | .hole t r => .hole (d :: t) r
  | .unterminated => .unterminated
  | .badEscape => .badEscape

/-- The loop of `string_segments` on the input after the opening quote. -/
def stringSegments : List Char → SegResult
  | [] => .unterminated
  | c :: rest =>
    if c = '"' then .closed [] rest
    else if c = '{' then .hole [] (c :: rest)
    else if c = '\\' then
      match rest with
      | [] => .unterminated
      | e :: rest' =>
        match singleEscape e with
        | some d => (stringSegments rest').push d
        | none => .badEscape
    else (stringSegments rest).push c

/-! ### `multiline_dedent` -/

/-- `is_hspace` -/
def isHspace (c : Char) : Bool := c = ' ' || c = '\t'

/-- `raw.replace("\r\n", "\n").replace('\r', "\n")` -/
def normalizeNewlines : List Char → List Char
  | [] => []
  | '\r' :: '\n' :: rest => '\n' :: normalizeNewlines rest
  | '\r' :: rest => '\n' :: normalizeNewlines rest
  | c :: rest => c :: normalizeNewlines rest

/-- `str::split_once('\n')` -/
def splitOnceNl : List Char → Option (List Char × List Char)
  | [] => none
  | c :: rest =>
    if c = '\n' then some ([], rest)
    else
      match splitOnceNl rest with
      | some (a, b) => some (c :: a, b)
      | none => none

/-- `str::split('\n')` (always at least one piece) -/
def splitNl : List Char → List (List Char)
  | [] => [[]]
  | c :: rest =>
    if c = '\n' then [] :: splitNl rest
    else
      match splitNl rest with
      | l :: ls => (c :: l) :: ls
      | [] => [[c]]

/-- `str::rsplit_once('\n')`: everything before the last newline, and what follows it. -/
def rsplitOnceNl (cs : List Char) : Option (List Char × List Char) :=
  match (splitNl cs).reverse with
  | [] => none
  | [_] => none
  | last :: revInit => some (joinNl revInit.reverse, last)

/-- `str::strip_prefix` -/
def stripPrefix : List Char → List Char → Option (List Char)
  | [], cs => some cs
  | _ :: _, [] => none
  | p :: ps, c :: cs => if p = c then stripPrefix ps cs else none

/-- The loop over `body.split('\n')` of `multiline_dedent`: `none` when a non-blank line is indented
    less than the margin. Lines are joined with `\n`. -/
def dedentLines (margin : List Char) : List (List Char) → Option (List (List Char))
  | [] => some []
  | line :: rest =>
    match dedentLines margin rest with
    | none =>
      -- the Rust loop returns at the *first* offending line; the result is `None` either way
      none
    | some out =>
      if line.all isHspace then some ([] :: out)
      else
        match stripPrefix margin line with
        | some l => some (l :: out)
        | none => none

def multilineDedent (raw : List Char) : Option (List Char) :=
  let normalized := normalizeNewlines raw
  match splitOnceNl normalized with
  | none => none
  | some (first, afterOpen) =>
    if !first.all isHspace then none
    else
      let (body, margin) :=
        match rsplitOnceNl afterOpen with
        | some (b, m) => (b, m)
        | none => ([], afterOpen)
      if !margin.all isHspace then none
      else
        match dedentLines margin (splitNl body) with
        | some ls => some (joinNl ls)
        | none => none

/-! ### `process_multiline_string` / `process_multiline_segments` -/

def dropHspace : List Char → List Char
  | [] => []
  | c :: rest => if isHspace c then dropHspace rest else c :: rest

theorem dropHspace_length_le (cs : List Char) : (dropHspace cs).length ≤ cs.length := by
  induction cs with
  | nil => simp [dropHspace]
  | cons c rest ih => simp only [dropHspace]; split <;> simp <;> omega

/-- The escape table of the multi-line forms: the single-line set plus `\s` (a strip-proof space).
    (`\<newline>`, the line continuation, is handled separately.) -/
def multiEscape (e : Char) : Option Char :=
  if e = '"' then some '"'
  else if e = '\\' then some '\\'
  else if e = 'n' then some '\n'
  else if e = 'r' then some '\r'
  else if e = 't' then some '\t'
  else if e = 's' then some ' '
  else if e = '{' then some '{'
  else none

/-- The escape/strip/continuation pass of `process_multiline_string` over the de-indented text.
    `pending` is the buffered horizontal whitespace (in order). `none` = invalid escape. -/
def processEscapes (pending : List Char) (cs : List Char) : Option (List Char) :=
  match cs with
  | [] => some []
  | c :: rest =>
    if c = ' ' || c = '\t' then processEscapes (pending ++ [c]) rest
    else if c = '\n' then (processEscapes [] rest).map ('\n' :: ·)
    else if c = '\\' then
      match rest with
      | [] => none
      | e :: rest' =>
        if e = '\n' then (processEscapes [] (dropHspace rest')).map (pending ++ ·)
        else
          match multiEscape e with
          | some d => (processEscapes [] rest').map (fun o => pending ++ d :: o)
          | none => none
    else (processEscapes [] rest).map (fun o => pending ++ c :: o)
termination_by cs.length
decreasing_by
  all_goals simp_wf
  all_goals first
    | omega
    | (have := dropHspace_length_le rest'; omega)

/-- `process_multiline_string` (pattern position: `{` is literal). -/
def processMultilineString (raw : List Char) : Option (List Char) :=
  match multilineDedent raw with
  | none => none
  | some d => processEscapes [] d

inductive MlSegResult where
  /-- no hole: the single text segment -/
  | text (t : List Char)
  /-- an unescaped `{`: decoded text run before it (pending whitespace kept) and the de-indented
      source from the `{` on (what `block` is then run on) -/
  | hole (t : List Char) (rest : List Char)
  | malformed
  deriving Repr, DecidableEq

/-- prepend decoded text to the result of the rest of the scan -/
def MlSegResult.prepend (pre : List Char) : MlSegResult → MlSegResult
  | .text t => .text (pre ++ t)
  | .hole t rest => .hole (pre ++ t) rest
  | .malformed => .malformed

/-- The loop of `process_multiline_segments` up to the first hole. -/
def processSegments (pending : List Char) (cs : List Char) : MlSegResult :=
  match cs with
  | [] => .text []
  | c :: rest =>
    if c = ' ' || c = '\t' then processSegments (pending ++ [c]) rest
    else if c = '\n' then (processSegments [] rest).prepend ['\n']
    else if c = '{' then .hole pending (c :: rest)
    else if c = '\\' then
      match rest with
      | [] => .malformed
      | e :: rest' =>
        if e = '\n' then (processSegments [] (dropHspace rest')).prepend pending
        else
          match multiEscape e with
          | some d => (processSegments [] rest').prepend (pending ++ [d])
          | none => .malformed
    else (processSegments [] rest).prepend (pending ++ [c])
termination_by cs.length
decreasing_by
  all_goals simp_wf
  all_goals first
    | omega
    | (have := dropHspace_length_le rest'; omega)

/-- `process_multiline_segments` (term position) up to the first hole. -/
def processMultilineSegments (raw : List Char) : MlSegResult :=
  match multilineDedent raw with
  | none => .malformed
  | some d => processSegments [] d

/-! ### `format.rs`: escaping -/

/-- `escape_single_line_text` -/
def escapeSingle : List Char → List Char
  | [] => []
  | c :: rest =>
    (if c = '\\' then ['\\', '\\']
     else if c = '"' then ['\\', '"']
     else if c = '{' then ['\\', '{']
     else if c = '\n' then ['\\', 'n']
     else if c = '\r' then ['\\', 'r']
     else if c = '\t' then ['\\', 't']
     else [c]) ++ escapeSingle rest

/-- `escape_multiline_text` (one `\n`-free fragment) -/
def escapeMultiText : List Char → List Char
  | [] => []
  | c :: rest =>
    (if c = '\\' then ['\\', '\\']
     else if c = '"' then ['\\', '"']
     else if c = '{' then ['\\', '{']
     else if c = '\r' then ['\\', 'r']
     else if c = '\t' then ['\\', 't']
     else [c]) ++ escapeMultiText rest

/-- number of trailing `' '` (`line.len() - line.trim_end_matches(' ').len()`) -/
def trailingSpaces : List Char → Nat
  | [] => 0
  | c :: t =>
    if t.all (· = ' ') then (if c = ' ' then t.length + 1 else t.length) else trailingSpaces t

/-- `protect_trailing_spaces`: the trailing run of `' '` becomes `\s` each. -/
def protectTrailingSpaces (line : List Char) : List Char :=
  let k := trailingSpaces line
  line.take (line.length - k) ++ (List.replicate k ['\\', 's']).flatten

/-- The content lines `multiline_string_doc` emits for a text-only string: the value split at
    `\n`, each part escaped, trailing spaces protected. -/
def multilineLines (value : List Char) : List (List Char) :=
  (splitNl value).map (fun l => protectTrailingSpaces (escapeMultiText l))

/-- decimal digits of `n` (`format!("{}", index)`) -/
def natDigits (n : Nat) : List Char := (toString n).toList

/-- `literal_placeholder(index)`: a NUL followed by the index. No other laid-out line starts with a
    NUL, so a line is a placeholder exactly when its first non-space character is NUL. -/
def literalPlaceholder (index : Nat) : List Char := '\x00' :: natDigits index

/-- `multiline_string_doc` (since a7d7642): the delimiters around ONE placeholder line; the content
    lines (`multilineLines`) are kept in the literal store under `index` and put back by
    `expandLiterals` after layout and `collapse_blanks`. -/
def multilineDoc (index : Nat) : Doc :=
  .concat [.text ['"', '"', '"'], .hardline, .text (literalPlaceholder index), .hardline,
    .text ['"', '"', '"']]

/-- `str::parse::<usize>()` on the text after the NUL: an optional `+`, then one or more ASCII
    digits, value below 2^64. -/
def parseUsize (cs : List Char) : Option Nat :=
  let ds := match cs with
    | '+' :: rest => rest
    | _ => cs
  if ds.isEmpty || !ds.all (fun c => '0' ≤ c && c ≤ '9') then none
  else
    let n := ds.foldl (fun acc c => acc * 10 + (c.toNat - '0'.toNat)) 0
    if n < 2 ^ 64 then some n else none

/-- One line of `expand_literals`: the lines it contributes to the output. `none` = the index is not
    in the store (`literals[index]` would panic — cannot happen for text the formatter produced). -/
def expandLine (literals : List (List (List Char))) (line : List Char) : Option (List (List Char)) :=
  let indent := line.takeWhile (· = ' ')
  let rest := line.dropWhile (· = ' ')
  match rest with
  | '\x00' :: digits =>
    match parseUsize digits with
    | some index =>
      match literals[index]? with
      | some content => some (content.map (fun l => if l.isEmpty then [] else indent ++ l))
      | none => none
    | none => some [line]
  | _ => some [line]

/-- `expand_literals(text, literals)`: every output line is followed by `\n`. -/
def expandLiterals (text : List Char) (literals : List (List (List Char))) : Option (List Char) :=
  ((rustLines text).mapM (expandLine literals)).map
    (fun ls => (ls.flatten.map (· ++ ['\n'])).flatten)

/-- One content line as `expand_literals` emits it: empty if the line is empty, else indented. -/
def indentLine (margin L : List Char) : List Char := if L.isEmpty then [] else margin ++ L

/-- The text between the `"""` delimiters of a formatted literal whose placeholder line sat at
    indentation `margin`: the newline after the opening delimiter, the content lines (`indentLine`)
    separated by newlines, a newline and the margin before the closing delimiter. -/
def renderedRaw (margin : List Char) (Ls : List (List Char)) : List Char :=
  '\n' :: (joinNl (Ls.map (indentLine margin)) ++ '\n' :: margin)

/-! ### `collapse_blanks` -/

/-- `str::trim` is empty -/
def isBlankLine (l : List Char) : Bool := l.all isWhitespace

/-- the `for line in text.lines()` loop -/
def collapseLoop (prevBlank : Bool) : List (List Char) → List (List Char)
  | [] => []
  | l :: ls =>
    let blank := isBlankLine l
    if blank && prevBlank then collapseLoop prevBlank ls
    else (if blank then [] else l) :: collapseLoop blank ls

/-- `while lines.last().is_some_and(|l| l.is_empty()) { lines.pop() }` -/
def dropTrailingEmpty (ls : List (List Char)) : List (List Char) :=
  (ls.reverse.dropWhile (·.isEmpty)).reverse

/-- `collapse_blanks` -/
def collapseBlanks (text : List Char) : List Char :=
  joinNl (dropTrailingEmpty (collapseLoop true (rustLines text))) ++ ['\n']

end QM.Text
