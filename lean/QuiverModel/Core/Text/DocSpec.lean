import QuiverModel.Core.Text.Doc
/-
M-Text — specification-level definitions over `Doc` used in the statements of the C17 theorems
(nothing here is executed by the driver; core Lean only): the atom trace of a print run, the
relation "a possible reading of the text atoms of a document" (`Reads`), the predicates
`noSuffix`, `ifBreakNeutral`, `textSuffixes`, `flatOk`, `wfGroups`, `noSuffixFlat`, the flat layout
`flatPieces`, and the shape of a line-suffix flush (`FlushShape`).
-/
namespace QM.Text

def atomsOf : List Piece → List (List Char)
  | [] => []
  | .atom s :: ps => s :: atomsOf ps
  | .sp :: ps => atomsOf ps
  | .nl _ :: ps => atomsOf ps

mutual
inductive Reads : Doc → Mode → List (List Char) → Prop
  | nil (m) : Reads .nil m []
  | text (s m) : Reads (.text s) m [s]
  | line (m) : Reads .line m []
  | softline (m) : Reads .softline m []
  | hardline (m) : Reads .hardline m []
  | breakParent (m) : Reads .breakParent m []
  | concat (ds m as) : ReadsList ds m as → Reads (.concat ds) m as
  | nest (n d m as) : Reads d m as → Reads (.nest n d) m as
  | group (d sb m m' as) : (sb = true → m' = .brk) → Reads d m' as → Reads (.group d sb) m as
  | ifBreakBrk (b f as) : Reads b .brk as → Reads (.ifBreak b f) .brk as
  | ifBreakFlat (b f as) : Reads f .flat as → Reads (.ifBreak b f) .flat as
  | lineSuffix (d m as) : Reads d m as → Reads (.lineSuffix d) m as
inductive ReadsList : List Doc → Mode → List (List Char) → Prop
  | nil (m) : ReadsList [] m []
  | cons (d ds m a b) : Reads d m a → ReadsList ds m b → ReadsList (d :: ds) m (a ++ b)
end


mutual
def noSuffix : Doc → Bool
  | .lineSuffix _ => false
  | .concat ds => noSuffixList ds
  | .nest _ d => noSuffix d
  | .group d _ => noSuffix d
  | .ifBreak b f => noSuffix b && noSuffix f
  | .nil | .text _ | .line | .softline | .hardline | .breakParent => true
def noSuffixList : List Doc → Bool
  | [] => true
  | d :: ds => noSuffix d && noSuffixList ds
end


mutual
/-- The text atoms of a document in document order (for an `IfBreak`, those of the broken branch). -/
def atomsDet : Doc → List (List Char)
  | .text s => [s]
  | .concat ds => atomsDetList ds
  | .nest _ d => atomsDet d
  | .group d _ => atomsDet d
  | .ifBreak b _ => atomsDet b
  | .lineSuffix d => atomsDet d
  | .nil | .line | .softline | .hardline | .breakParent => []
def atomsDetList : List Doc → List (List Char)
  | [] => []
  | d :: ds => atomsDet d ++ atomsDetList ds
end

mutual
/-- Both branches of every `IfBreak` carry the same text atoms. -/
def ifBreakNeutral : Doc → Bool
  | .concat ds => ifBreakNeutralList ds
  | .nest _ d => ifBreakNeutral d
  | .group d _ => ifBreakNeutral d
  | .ifBreak b f => ifBreakNeutral b && ifBreakNeutral f && decide (atomsDet b = atomsDet f)
  | .lineSuffix d => ifBreakNeutral d
  | .nil | .text _ | .line | .softline | .hardline | .breakParent => true
def ifBreakNeutralList : List Doc → Bool
  | [] => true
  | d :: ds => ifBreakNeutral d && ifBreakNeutralList ds
end


mutual
/-- Every `LineSuffix` holds a plain `Text` (what `format.rs` builds: `line_suffix(text(" // …"))`). -/
def textSuffixes : Doc → Bool
  | .lineSuffix (.text _) => true
  | .lineSuffix _ => false
  | .concat ds => textSuffixesList ds
  | .nest _ d => textSuffixes d
  | .group d _ => textSuffixes d
  | .ifBreak b f => textSuffixes b && textSuffixes f
  | .nil | .text _ | .line | .softline | .hardline | .breakParent => true
def textSuffixesList : List Doc → Bool
  | [] => true
  | d :: ds => textSuffixes d && textSuffixesList ds
end


/-- the buffered suffix frames are plain texts: their contents, in order -/
def IsTextFrames : List Frame → List (List Char) → Prop
  | [], [] => True
  | f :: fs, s :: ss => f.doc = .text s ∧ IsTextFrames fs ss
  | _, _ => False

def noNl : List Piece → Bool
  | [] => true
  | .nl _ :: _ => false
  | _ :: ps => noNl ps

def startsWithNlOrEmpty : List Piece → Bool
  | [] => true
  | .nl _ :: _ => true
  | _ => false

def atomPieces (ss : List (List Char)) : List Piece := ss.map Piece.atom

/-- Shape of the output from a state with buffered text suffixes `ss`: some pieces of the current
    line (`pre`, no newline among them), then the buffered suffixes and those buffered meanwhile
    (`more`), then either the end of the output or a newline. -/
def FlushShape (out : List Piece) (ss : List (List Char)) : Prop :=
  ∃ pre more rest, out = pre ++ atomPieces ss ++ atomPieces more ++ rest ∧ noNl pre = true ∧
    startsWithNlOrEmpty rest = true


mutual
/-- The document can be laid out on one line exactly as `flatten` does: no hard line and no line
    suffix in its flat reading, and no group flagged as forced. -/
def flatOk : Doc → Bool
  | .hardline => false
  | .lineSuffix _ => false
  | .group d sb => !sb && flatOk d
  | .concat ds => flatOkList ds
  | .nest _ d => flatOk d
  | .ifBreak _ f => flatOk f
  | .nil | .text _ | .line | .softline | .breakParent => true
def flatOkList : List Doc → Bool
  | [] => true
  | d :: ds => flatOk d && flatOkList ds
end

mutual
/-- The pieces of the flat layout. -/
def flatPieces : Doc → List Piece
  | .text s => [.atom s]
  | .line => [.sp]
  | .concat ds => flatPiecesList ds
  | .nest _ d => flatPieces d
  | .group d _ => flatPieces d
  | .ifBreak _ f => flatPieces f
  | .nil | .softline | .hardline | .lineSuffix _ | .breakParent => []
def flatPiecesList : List Doc → List Piece
  | [] => []
  | d :: ds => flatPieces d ++ flatPiecesList ds
end

def pieceWidth : Piece → Nat
  | .atom s => s.length
  | .sp => 1
  | .nl _ => 0

def piecesWidth : List Piece → Nat
  | [] => 0
  | p :: ps => pieceWidth p + piecesWidth ps


mutual
/-- Group flags as `pretty::group` computes them: the flag of every group is `forces_break` of its
    content. -/
def wfGroups : Doc → Bool
  | .group d sb => (sb == forcesBreak d) && wfGroups d
  | .concat ds => wfGroupsList ds
  | .nest _ d => wfGroups d
  | .ifBreak b f => wfGroups b && wfGroups f
  | .lineSuffix d => wfGroups d
  | .nil | .text _ | .line | .softline | .hardline | .breakParent => true
def wfGroupsList : List Doc → Bool
  | [] => true
  | d :: ds => wfGroups d && wfGroupsList ds
end

mutual
/-- No `LineSuffix` in the flat reading (the one `flatten` walks). -/
def noSuffixFlat : Doc → Bool
  | .lineSuffix _ => false
  | .concat ds => noSuffixFlatList ds
  | .nest _ d => noSuffixFlat d
  | .group d _ => noSuffixFlat d
  | .ifBreak _ f => noSuffixFlat f
  | .nil | .text _ | .line | .softline | .hardline | .breakParent => true
def noSuffixFlatList : List Doc → Bool
  | [] => true
  | d :: ds => noSuffixFlat d && noSuffixFlatList ds
end


end QM.Text
