import QuiverModel.Core.Types.Narrow
/-
M-Soundness, part 1 (import-free: core Lean + the M-Types table only): the *generic-call guard* of
the compiler — unification of a parameter type that mentions type variables with the type of the
argument, and substitution of the resulting bindings into the function's result type.

Mirrors, arm by arm and in source order,
  * /repo/quiver-compiler/src/compiler/typing.rs  `contains_variables`, `substitute`, `unify`
    — as of fixes 8f4b36d (a concrete union argument must unify in EVERY variant with a non-union
    parameter) and e4496af (the union/union arm adopts the bindings of the matching attempt). The rule before that fix ("ANY variant") is kept as `UnionArgRule.anyVariant`, so
    that `Theorems/C01.lean` can show, by evaluation, that soundness depends on the fix.
  * `union_type_ids` is `QM.Types.unionIds` (C09's module `Core/Types/Narrow.lean`, read-only).

Conventions
  * The Rust functions take `&mut Program`: they register new types (widened unions, substituted
    tuples). The model threads the table and returns it — *also when unification fails*, because a
    failed attempt inside the union arms may already have registered a widened union and later ids
    depend on it (ids of the model coincide with the ids of the implementation on an identical
    table).
  * `HashMap<String, usize>` bindings are an association list (`Bindings`); only `get`/`insert`
    are ever used, and the one iteration (`for (k, v) in temp_bindings` in the union/union arm)
    treats every key independently, so iteration order is unobservable. The driver prints
    bindings sorted by name.
  * A Rust `Err(_)` is `none` in the *inner* option of `URes`; running out of fuel is `none` in
    the *outer* option (reported by the driver as `fuel-out`, never defaulted).
  * `cf` is the fuel handed to the `is_compatible` call made while merging bindings.
-/
namespace QM.Soundness
open QM.Types

abbrev Bindings := List (Name × Nat)

/-- `bindings.get(name).copied()`. -/
def Bindings.get (b : Bindings) (n : Name) : Option Nat := List.lookup n b

/-- `bindings.insert(name, id)`: replace in place, or append. -/
def Bindings.insert : Bindings → Name → Nat → Bindings
  | [], n, v => [(n, v)]
  | (k, w) :: rest, n, v => if k = n then (k, v) :: rest else (k, w) :: Bindings.insert rest n v

/-- The rule for "non-union parameter, union argument". -/
inductive UnionArgRule where
  /-- current code (fix 8f4b36d): every variant of the argument must unify. -/
  | everyVariant
  /-- the code before the fix: the first variant that unifies decides. -/
  | anyVariant
  deriving DecidableEq, Repr

/-- The rule for a `Cycle` (back-reference) on either side. -/
inductive CycleRule where
  /-- current code: a back-reference unifies with anything, nothing is checked or bound. -/
  | lenient
  /-- a conservative alternative used to *classify* findings: a back-reference unifies only with a
  back-reference of the same depth. Not what the code does. -/
  | strict
  deriving DecidableEq, Repr

/-- The rule for the bindings of a matched variant in the union/union arm. -/
inductive MergeRule where
  /-- current code (fix e4496af): `*bindings = temp_bindings` — the attempt's bindings, which started
  from the current ones and hold whatever widening the variant required, are adopted. -/
  | adopt
  /-- the code before e4496af: the attempt's bindings are merged one by one, and a binding that is
  not assignable to the existing one is *skipped* (dropping the widening). -/
  | skipIncompatible
  deriving DecidableEq, Repr

/-- In which order the union/union arm tries the PARAMETER's variants for one argument variant. -/
inductive VariantOrder where
  /-- current code (fix e097c86): the structured variants first, the bare type variables last
  (stable otherwise) — a variable unifies with anything by widening, so in `'t | []` against
  `'int | []` it must not be offered the argument's `[]` before the parameter's own `[]`. -/
  | structuredFirst
  /-- the code before e097c86: declaration order. -/
  | declared
  deriving DecidableEq, Repr

/-- Whose type variables the ARGUMENT's type mentions. -/
inductive ScopeRule where
  /-- repair 10: the caller's — opaque to the callee: never looked up in the bindings (which belong
  to the parameter's variables), never skipped when spelled like the variable being bound, and a
  structured parameter position cannot take one. -/
  | callerOpaque
  /-- the code before it: a variable in the argument's type is resolved through the callee's
  bindings when it is spelled like one of them (a generic function calling another one with the
  same type-parameter names), and binding a variable to a like-named variable is skipped. Crosswise
  arguments make the bindings cyclic and the resolution never ends; `['a, 'a]` against `['a, 'int]`
  binds `'a := 'int` only. -/
  | sharedNames
  deriving DecidableEq, Repr

/-- The switches of the unification algorithm. `Rules.current` is the code as it is. -/
structure Rules where
  unionArg : UnionArgRule := .everyVariant
  cycle : CycleRule := .lenient
  merge : MergeRule := .adopt
  order : VariantOrder := .structuredFirst
  scope : ScopeRule := .callerOpaque
  deriving DecidableEq, Repr

def Rules.current : Rules := {}
/-- the code before fix 8f4b36d. -/
def Rules.beforeF6 : Rules := { unionArg := .anyVariant }
/-- the code before fix e4496af. -/
def Rules.beforeMergeFix : Rules := { merge := .skipIncompatible }
/-- the code before fix e097c86. -/
def Rules.beforeOrderFix : Rules := { order := .declared }
/-- the code before repair 10 (caller's and callee's type variables share one name space). -/
def Rules.sharedNames : Rules := { scope := .sharedNames }

/-! ### `contains_variables` -/

/-- `contains_variables(type_id, lookup)`; `none` = out of fuel. The Rust `||` / `any` chains
short-circuit, which is unobservable here (no side effects), except for fuel: a short-circuit can
answer `true` where the full exploration would run out of fuel, so the model short-circuits too. -/
def containsVariables (T : Table) : Nat → Nat → Option Bool
  | 0, _ => none
  | fuel + 1, id =>
    let anyL : List Nat → Option Bool := fun ids =>
      ids.foldl (fun acc i =>
        match acc with
        | none => none
        | some true => some true
        | some false => containsVariables T fuel i) (some false)
    match T.types[id]? with
    | none => some false
    | some ty =>
      match ty with
      | .variable _ => some true
      | .union vs => anyL vs
      | .callable p r c => anyL [p, r, c]
      | .process s r => anyL (s.toList ++ r.toList)
      | .tuple tid =>
        match T.tuples[tid]? with
        | some info => anyL (info.fields.map (·.2))
        | none => some false
      | .part _ fs => anyL (fs.map (·.2))
      | .integer | .binary | .reference | .cycle _ | .resource _ => some false

/-! ### `substitute` -/

/-- Result of a table-threading operation that yields an id; `none` = out of fuel. -/
abbrev SRes := Option (Table × Nat)

/-- `ids.iter().map(|&v| substitute(v, …)).collect()` — left to right, threading the table. -/
def mapIds (f : Table → Nat → SRes) : Table → List Nat → Option (Table × List Nat)
  | T, [] => some (T, [])
  | T, x :: xs =>
    match f T x with
    | none => none
    | some (T1, y) =>
      match mapIds f T1 xs with
      | none => none
      | some (T2, ys) => some (T2, y :: ys)

/-- `substitute(type_id, bindings, program)`. -/
def substitute (b : Bindings) : Nat → Table → Nat → SRes
  | 0, _, _ => none
  | fuel + 1, T, id =>
    match T.types[id]? with
    | none => some (T, id)
    | some ty =>
      match ty with
      | .variable n => some (T, (b.get n).getD id)
      | .union vs =>
        match mapIds (substitute b fuel) T vs with
        | none => none
        | some (T1, vs') => some (unionIds T1 vs')
      | .tuple tid =>
        match T.tuples[tid]? with
        | none => some (T, id)
        | some info =>
          match mapIds (substitute b fuel) T (info.fields.map (·.2)) with
          | none => none
          | some (T1, ids') =>
            if ids' = info.fields.map (·.2) then some (T1, id)
            else
              let (T2, ntid) := T1.registerTuple info.name ((info.fields.map (·.1)).zip ids')
              some (T2.registerType (.tuple ntid))
      | .part name fs =>
        match mapIds (substitute b fuel) T (fs.map (·.2)) with
        | none => none
        | some (T1, ids') =>
          if ids' = fs.map (·.2) then some (T1, id)
          else some (T1.registerType (.part name ((fs.map (·.1)).zip ids')))
      | .integer | .binary | .reference | .cycle _ | .resource _ => some (T, id)
      | .callable p r c =>
        match substitute b fuel T p with
        | none => none
        | some (T1, p') =>
          match substitute b fuel T1 r with
          | none => none
          | some (T2, r') =>
            match substitute b fuel T2 c with
            | none => none
            | some (T3, c') =>
              if p' = p ∧ r' = r ∧ c' = c then some (T3, id)
              else some (T3.registerType (.callable p' r' c'))
      | .process s r =>
        let subOpt : Table → Option Nat → Option (Table × Option Nat) := fun T o =>
          match o with
          | none => some (T, none)
          | some x => (substitute b fuel T x).map (fun (T', y) => (T', some y))
        match subOpt T s with
        | none => none
        | some (T1, s') =>
          match subOpt T1 r with
          | none => none
          | some (T2, r') =>
            if s' = s ∧ r' = r then some (T2, id)
            else some (T2.registerType (.process s' r'))

/-! ### `unify` -/

/-- outer `none` = out of fuel; inner `none` = `Err(_)` (bindings are then discarded by every
caller); the table is returned in both cases. -/
abbrev URes := Option (Table × Option Bindings)

/-- `for x in xs { unify(bindings, …)? }` — sequential, first `Err` aborts. -/
def allU {α : Type} (f : Table → Bindings → α → URes) : Table → Bindings → List α → URes
  | T, b, [] => some (T, some b)
  | T, b, x :: xs =>
    match f T b x with
    | none => none
    | some (T1, none) => some (T1, none)
    | some (T1, some b1) => allU f T1 b1 xs

/-- `for x in xs { let mut temp = bindings.clone(); if unify(&mut temp, …).is_ok() { return
Some(temp) } }` — every attempt starts from the same `b`; the table is threaded through failed
attempts. Inner `none` = no attempt succeeded. -/
def firstU {α : Type} (f : Table → Bindings → α → URes) : Table → Bindings → List α → URes
  | T, _, [] => some (T, none)
  | T, b, x :: xs =>
    match f T b x with
    | none => none
    | some (T1, some b1) => some (T1, some b1)
    | some (T1, none) => firstU f T1 b xs

/-- the merge loop of the union/union arm BEFORE e4496af:
`for (k, v) in temp { if let Some(e) = bindings.get(k) && !is_compatible(v, e) { continue } bindings.insert(k, v) }`.
`none` = the compatibility check ran out of fuel. -/
def mergeBindings (mr : MergeRule) (T : Table) (cf : Nat) : Bindings → Bindings → Option Bindings
  | b, [] => some b
  | b, (k, v) :: rest =>
    match b.get k with
    | none => mergeBindings mr T cf (b.insert k v) rest
    | some e =>
      match isCompatible T cf v e with
      | none => none
      | some false => mergeBindings mr T cf b rest
      | some true => mergeBindings mr T cf (b.insert k v) rest

/-- what the union/union arm does with the bindings `temp` of a successful attempt. -/
def adoptBindings (mr : MergeRule) (T : Table) (cf : Nat) (b temp : Bindings) : Option Bindings :=
  match mr with
  | .adopt => some temp
  | .skipIncompatible => mergeBindings mr T cf b temp

/-- `sort_by_key(|id| matches!(lookup_type(id), Some(Type::Variable(_))))` — a stable sort on a
Boolean key: the non-variables in their order, then the variables in theirs. -/
def orderVariants (o : VariantOrder) (T : Table) (pvs : List Nat) : List Nat :=
  match o with
  | .declared => pvs
  | .structuredFirst =>
    let isVar : Nat → Bool := fun i => match T.types[i]? with | some (.variable _) => true | _ => false
    pvs.filter (fun i => !isVar i) ++ pvs.filter isVar

/-- the outer loop of the union/union arm: every concrete variant must unify with some pattern
variant (first match), whose bindings are merged. -/
def unionUnion (mr : MergeRule) (cf : Nat) (rec : Table → Bindings → Nat → Nat → URes) (pvs : List Nat) :
    Table → Bindings → List Nat → URes
  | T, b, [] => some (T, some b)
  | T, b, cv :: cvs =>
    match firstU (fun T' b' pv => rec T' b' pv cv) T b pvs with
    | none => none
    | some (T1, none) => some (T1, none)
    | some (T1, some temp) =>
      match adoptBindings mr T1 cf b temp with
      | none => none
      | some b1 => unionUnion mr cf rec pvs T1 b1 cvs

/-- `Option`-typed component of a process type: both present → unify, both absent → ok, else Err. -/
def unifyOpt (rec : Table → Bindings → Nat → Nat → URes) (T : Table) (b : Bindings) :
    Option Nat → Option Nat → URes
  | some x, some y => rec T b x y
  | none, none => some (T, some b)
  | _, _ => some (T, none)

/-- The `match (&pattern, &concrete)` of `unify`, arms in source order; `rec` is the recursive
call. `p`/`a` are the ids, `tp`/`ta` the looked-up types. -/
def unifyStep (rules : Rules) (cf : Nat) (rec : Table → Bindings → Nat → Nat → URes)
    (T : Table) (b : Bindings) (p a : Nat) (tp ta : Ty) : URes :=
  match tp, ta with
  -- pattern is a variable: bind it, or widen the existing binding
  | .variable name, _ =>
    let resolved : Nat :=
      match rules.scope, ta with
      | .sharedNames, .variable cn => (b.get cn).getD a
      | _, _ => a
    match b.get name with
    | some existing =>
      if existing ≠ resolved then
        let (T1, w) := unionIds T [existing, resolved]
        some (T1, some (b.insert name w))
      else some (T, some b)
    | none =>
      if rules.scope = .sharedNames ∧ T.types[resolved]? = some (.variable name) then some (T, some b)
      else some (T, some (b.insert name resolved))
  -- concrete is a variable: the caller's (opaque: Err); before repair 10 resolved through the bindings
  | _, .variable name =>
    match rules.scope with
    | .callerOpaque => some (T, none)
    | .sharedNames =>
      match b.get name with
      | some r => rec T b p r
      | none => some (T, none)
  | .integer, .integer => some (T, some b)
  | .binary, .binary => some (T, some b)
  | .process s1 r1, .process s2 r2 =>
    match unifyOpt rec T b s1 s2 with
    | none => none
    | some (T1, none) => some (T1, none)
    | some (T1, some b1) => unifyOpt rec T1 b1 r1 r2
  | .tuple i1, .tuple i2 =>
    -- the same tuple type on both sides needs no look inside — unless (repair 10) it mentions type
    -- variables: the parameter's are the callee's, the argument's the caller's, spelled alike
    if i1 = i2 ∧ (rules.scope = .sharedNames ∨ containsVariables T cf p = some false) then some (T, some b)
    else
      match T.tuples[i1]?, T.tuples[i2]? with
      | some info1, some info2 =>
        if info1.name ≠ info2.name then some (T, none)
        else if info1.fields.length ≠ info2.fields.length then some (T, none)
        else
          allU (fun T' b' (f : (Option Name × Nat) × (Option Name × Nat)) =>
                  if f.1.1 ≠ f.2.1 then some (T', none) else rec T' b' f.1.2 f.2.2)
               T b (info1.fields.zip info2.fields)
      | _, _ => some (T, none)
  | .part pn pfs, .tuple c =>
    match T.tuples[c]? with
    | none => some (T, none)
    | some ci =>
      if pn.isSome ∧ ci.name ≠ pn then some (T, none)
      else
        allU (fun T' b' (pf : Name × Nat) =>
                match ci.fields.find? (fun cf' => cf'.1 = some pf.1) with
                | none => some (T', none)
                | some cfld => rec T' b' pf.2 cfld.2)
             T b pfs
  | .part pn pfs, .part cn cfs =>
    if pn.isSome ∧ cn ≠ pn then some (T, none)
    else
      allU (fun T' b' (pf : Name × Nat) =>
              match cfs.find? (fun cf' => cf'.1 = pf.1) with
              | none => some (T', none)
              | some cfld => rec T' b' pf.2 cfld.2)
           T b pfs
  | .callable p1 r1 c1, .callable p2 r2 c2 =>
    allU (fun T' b' (q : Nat × Nat) => rec T' b' q.1 q.2) T b [(p1, p2), (r1, r2), (c1, c2)]
  -- a back-reference on either side unifies with anything (no constraint is checked)
  | .cycle d1, _ =>
    match rules.cycle with
    | .lenient => some (T, some b)
    | .strict => if ta = .cycle d1 then some (T, some b) else some (T, none)
  | _, .cycle _ =>
    match rules.cycle with
    | .lenient => some (T, some b)
    | .strict => some (T, none)
  -- never
  | .union [], _ => some (T, some b)
  | _, .union [] => some (T, some b)
  | .union pvs, .union cvs => unionUnion rules.merge cf rec (orderVariants rules.order T pvs) T b cvs
  -- union parameter, non-union argument: first variant that unifies
  | .union pvs, _ => firstU (fun T' b' pv => rec T' b' pv a) T b pvs
  -- non-union parameter, union argument
  | _, .union cvs =>
    match rules.unionArg with
    | .everyVariant => allU (fun T' b' cv => rec T' b' p cv) T b cvs
    | .anyVariant => firstU (fun T' b' cv => rec T' b' p cv) T b cvs
  | _, _ => some (T, none)

/-- `unify(bindings, pattern_id, concrete_id, program)` under the given union-argument rule. -/
def unifyWith (rules : Rules) (cf : Nat) : Nat → Table → Bindings → Nat → Nat → URes
  | 0, _, _, _, _ => none
  | fuel + 1, T, b, p, a =>
    match T.types[p]?, T.types[a]? with
    | some tp, some ta => unifyStep rules cf (unifyWith rules cf fuel) T b p a tp ta
    | _, _ => some (T, some b)

/-- The code as it is now. -/
def unify (cf : Nat) : Nat → Table → Bindings → Nat → Nat → URes := unifyWith Rules.current cf

/-- The code before fix 8f4b36d (F6). -/
def unifyAnyVariant (cf : Nat) : Nat → Table → Bindings → Nat → Nat → URes := unifyWith Rules.beforeF6 cf

/-! ### The generic-call guard of `apply_value_to_type`

```
if contains_variables(param) || contains_variables(result) {
    let mut bindings = HashMap::new();
    unify(&mut bindings, param, arg, program)?;
    substitute(result, &bindings, program)
} else { if !is_compatible(arg, param) { Err } … }
```
-/

inductive CallVerdict where
  | accept (T : Table) (result : Nat)
  | reject (T : Table)
  | fuelOut
  deriving DecidableEq, Repr

/-- the `Callable` branch of `apply_value_to_type` up to (not including) dispatch-table
specialisation and `resolve_function_cycles`. -/
def callGuard (rules : Rules) (fuel : Nat) (T : Table) (param result arg : Nat) : CallVerdict :=
  match containsVariables T fuel param, containsVariables T fuel result with
  | some hp, some hr =>
    if hp || hr then
      match unifyWith rules fuel fuel T [] param arg with
      | none => .fuelOut
      | some (T1, none) => .reject T1
      | some (T1, some b) =>
        match substitute b fuel T1 result with
        | none => .fuelOut
        | some (T2, r) => .accept T2 r
    else
      match isCompatible T fuel arg param with
      | none => .fuelOut
      | some true => .accept T result
      | some false => .reject T
  | _, _ => .fuelOut

end QM.Soundness
