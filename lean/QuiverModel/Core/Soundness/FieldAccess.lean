import QuiverModel.Core.Types.Basic
/-
M-Soundness, part 3 (import-free): by-name field access on a possibly-union type.

Mirrors /repo/quiver-compiler/src/compiler/type_queries.rs `has_non_tuple_variant`,
`extract_field_sources`, `get_field_from_source`, `get_field_by_name` (as of 548536f): the access
`e.x` is compiled to ONE positional `Get(index)`, so it is accepted only when the value cannot be a
non-tuple, every variant has the field, and every variant has it at the SAME index.
`IndexRule.skipSeenTypes` is an alternative that skips the same-index check for a variant whose
field type was already collected (a seeded defect, kept so that `Theorems/C01.lean` can show the
check is necessary).
-/
namespace QM.Soundness
open QM.Types

inductive FieldSource where
  | tuple (id : Nat)
  | part (fields : List (Name × Nat))
  deriving DecidableEq, Repr

/-- `has_non_tuple_variant`; `none` = out of fuel. -/
def hasNonTupleVariant (T : Table) : Nat → Nat → Option Bool
  | 0, _ => none
  | fuel + 1, t =>
    match T.types[t]? with
    | some (.union ids) =>
      ids.foldl (fun acc i =>
        match acc with
        | none => none
        | some true => some true
        | some false => hasNonTupleVariant T fuel i) (some false)
    | some .integer | some .binary | some .reference | some (.callable _ _ _) | some (.process _ _)
    | some (.resource _) => some true
    | _ => some false

/-- `flat_map` step over the variants of a union. -/
def appendSources (acc r : Option (List FieldSource)) : Option (List FieldSource) :=
  match acc, r with
  | some l, some l' => some (l ++ l')
  | _, _ => none

/-- `extract_field_sources`. -/
def extractFieldSources (T : Table) : Nat → Nat → Option (List FieldSource)
  | 0, _ => none
  | fuel + 1, t =>
    match T.types[t]? with
    | none => some []
    | some (.tuple id) => some [.tuple id]
    | some (.part _ fs) => some [.part fs]
    | some (.union ids) =>
      ids.foldl (fun acc i => appendSources acc (extractFieldSources T fuel i)) (some [])
    | some _ => some []

/-- first index whose label is `name`, with the field type there. -/
def findLabelled (name : Name) : List (Option Name × Nat) → Nat → Option (Nat × Nat)
  | [], _ => none
  | (l, t) :: rest, i => if l = some name then some (i, t) else findLabelled name rest (i + 1)

def findNamed (name : Name) : List (Name × Nat) → Nat → Option (Nat × Nat)
  | [], _ => none
  | (l, t) :: rest, i => if l = name then some (i, t) else findNamed name rest (i + 1)

/-- `get_field_from_source`. -/
def fieldFromSource (T : Table) (name : Name) : FieldSource → Option (Nat × Nat)
  | .tuple id =>
    match T.tuples[id]? with
    | some info => findLabelled name info.fields 0
    | none => none
  | .part fs => findNamed name fs 0

inductive IndexRule where
  /-- the code: every variant is compared with the common index. -/
  | always
  /-- seeded alternative: a variant whose field type was already collected is skipped. -/
  | skipSeenTypes
  deriving DecidableEq, Repr

inductive FieldVerdict where
  | ok (index : Nat) (types : List Nat)
  | nonTuple
  | notFound
  | fuelOut
  deriving DecidableEq, Repr

/-- the loop over the sources. -/
def fieldLoop (rule : IndexRule) (T : Table) (name : Name) :
    List FieldSource → Option Nat → List Nat → FieldVerdict
  | [], common, results =>
    match common, results with
    | some i, _ :: _ => .ok i results
    | _, _ => .notFound
  | src :: rest, common, results =>
    match fieldFromSource T name src with
    | none => .notFound
    | some (idx, ft) =>
      if rule = .skipSeenTypes ∧ results.contains ft then fieldLoop rule T name rest common results
      else
        match common with
        | some prev =>
          if prev ≠ idx then .notFound else fieldLoop rule T name rest common (results ++ [ft])
        | none => fieldLoop rule T name rest (some idx) (results ++ [ft])

/-- `get_field_by_name(program, type_id, field_name, _)`. -/
def getFieldByNameWith (rule : IndexRule) (T : Table) (fuel : Nat) (t : Nat) (name : Name) : FieldVerdict :=
  match extractFieldSources T fuel t, hasNonTupleVariant T fuel t with
  | some sources, some nt =>
    if sources.isEmpty || nt then .nonTuple else fieldLoop rule T name sources none []
  | _, _ => .fuelOut

def getFieldByName : Table → Nat → Nat → Name → FieldVerdict := getFieldByNameWith .always

end QM.Soundness
