import QuiverModel.Core.RefSem.Syntax
import QuiverModel.Core.Soundness.FieldAccess
import QuiverModel.Core.Soundness.Sequence
import QuiverModel.Lemmas.Soundness.UnifySound
import QuiverModel.Generated.BuiltinSigs
/-
M-Soundness, part 5: a typed FRAGMENT of the compiler's inference, over the documented core syntax
(`QM.RefSem`, owner C02 — imported, not copied).

`infer` types straight-line first-order programs — one `,`-sequence of chains, each chain an optional
binding `x = …` and terms that are literals, tuple constructions (named / anonymous, labelled
fields, each field a chain), variable reads with `.label` / `.index` accessors, `~` with accessors,
in-chain binders `=x`, calls of the pure builtins of the reference evaluator through the
REGENERATED signature table (`Generated/BuiltinSigs.lean`), and applications of environment
functions guarded by `unify` / `substitute` (`Unify.lean`). It composes the three rules that were
modelled one by one before: `getFieldByNameWith` (`FieldAccess.lean`) for `.label`, the nil
bookkeeping of `Sequence.lean` for `,`, and the generic-call guard.

Types are ids of ONE fixed table `T` (the compiled program's own registry, sent by the harness):
`infer` never registers a type — where the compiler would (`union_type_ids`, `register_tuple`) it
looks the type up and answers `none` ("outside the fragment for this table") when it is missing or
when registering would grow the table. First-orderness of the types it combines is checked
computationally (`foV`), so the soundness proof needs no side invariant.

Like the compiler, `infer` resolves `.label` to a position: it returns the ELABORATED program
(`.label l` replaced by `.index i`), and soundness is stated for that program — the one that runs.
-/
namespace QM.Soundness
open QM.Types QM.RefSem

/-- what a successful match tells about the matched value (`apply_narrowing` on the success path). -/
inductive NarrowRule where
  /-- no forward narrowing (step 1 of the block fragment) -/
  | none
  /-- current code (47b34c5): the scrutinee is narrowed to the MATCHED type -/
  | matched
  /-- before 47b34c5: narrowed to `result_type`, which carries nil as the "may fail" marker — a
  nil variant of the scrutinee survives a refutable match -/
  | withNilMarker
  deriving DecidableEq, Repr

/-- which patterns' failure narrows the block parameter for the LATER branches (complement). -/
inductive ComplRule where
  /-- no complement narrowing -/
  | off
  /-- current code: only patterns whose failure is a fact about the TYPE of the value
  (`prevents_complement_narrowing`: no literal, pin or equality requirement) -/
  | faithful
  /-- mutation: a literal pattern also counts as covering its whole type -/
  | alsoValuePatterns
  deriving DecidableEq, Repr

/-- the rules under test (defaults = the code as it is). -/
structure InferCfg where
  seq : SeqRule := .accumulated
  idx : IndexRule := .always
  unify : Rules := Rules.current
  narrow : NarrowRule := .matched
  compl : ComplRule := .faithful
  /-- fuel of the table functions (`foV`, `getFieldByName`, `unify`, `substitute`): `fuel + 2` -/
  fuel : Nat := 30

/-! ### Look-ups in the fixed table -/

def indexOf {α : Type} [DecidableEq α] (a : α) : List α → Nat → Option Nat
  | [], _ => none
  | x :: xs, k => if x = a then some k else indexOf a xs (k + 1)

def findType (T : Table) (ty : Types.Ty) : Option Nat := indexOf ty T.types 0

/-- the type id of the tuple type `name[fields]`, when both registries have it. -/
def tupleType (T : Table) (name : Option Name) (fields : List (Option Name × Nat)) : Option Nat :=
  match indexOf (⟨name, fields⟩ : TupleInfo) T.tuples 0 with
  | some id => findType T (.tuple id)
  | none => none

def isNilTy (T : Table) (t : Nat) : Bool :=
  match T.types[t]? with
  | some (.tuple id) =>
    match T.tuples[id]? with
    | some ⟨none, []⟩ => true
    | _ => false
  | _ => false

/-- can a value of type `t` be nil? Conservative (`true`) wherever the answer is not structural. -/
def nilIn (T : Table) : Nat → Nat → Bool
  | 0, _ => true
  | n + 1, t =>
    match T.types[t]? with
    | some .integer => false
    | some .binary => false
    | some (.tuple _) => isNilTy T t
    | some (.union ids) => ids.any (nilIn T n)
    | _ => true

/-- `union_type_ids(program, [x, y])`, provided it is already in the table. -/
def unionPair (T : Table) (fuel x y : Nat) : Option Nat :=
  if foV T fuel x && foV T fuel y then
    (if (unionIds T [x, y]).1 = T then some (unionIds T [x, y]).2 else none)
  else none

/-- the union of the collected field types (at most two distinct ones in the fragment). -/
def unionOfTypes (T : Table) (fuel : Nat) (tys : List Nat) : Option Nat :=
  if tys.all (foV T fuel) then
    match tys.eraseDups with
    | [a] => some a
    | [a, b] => unionPair T fuel a b
    | _ => none
  else none

/-- `union_type_ids(program, ids)`, provided it is already in the table. -/
def unionMany (T : Table) (fuel : Nat) (ids : List Nat) : Option Nat :=
  if ids.all (foV T fuel) then
    (if (unionIds T ids).1 = T then some (unionIds T ids).2 else none)
  else none

/-- `without_nil`: the threaded value of a sequence is not nil. -/
def withoutNil (T : Table) (fuel t : Nat) : Option Nat :=
  if foV T fuel t then
    match (flat1 T t).filter (fun i => !isNilTy T i) with
    | [] => none
    | rest => unionMany T fuel rest
  else none

/-! ### Builtins: the shapes of the regenerated signature table the reference evaluator covers -/

inductive Shape where
  | i | b | ii | bb
  deriving DecidableEq, Repr

open QM.Builtins in
def shapeOf : TSpec → Option Shape
  | .integer => some .i
  | .binary => some .b
  | .tuple none [(none, .integer), (none, .integer)] => some .ii
  | .tuple none [(none, .binary), (none, .binary)] => some .bb
  | _ => none

/-- (parameter shape, result shape) of builtin `name` according to the regenerated table. -/
def builtinShape (name : String) : Option (Shape × Shape) :=
  match List.lookup name QM.Generated.builtinSigs with
  | some (p, r, _) =>
    match shapeOf p, shapeOf r with
    | some sp, some sr => some (sp, sr)
    | _, _ => none
  | none => none

def shapeTy (T : Table) : Shape → Option Nat
  | .i => findType T .integer
  | .b => findType T .binary
  | .ii =>
    match findType T .integer with
    | some i => tupleType T none [(none, i), (none, i)]
    | none => none
  | .bb =>
    match findType T .binary with
    | some i => tupleType T none [(none, i), (none, i)]
    | none => none

/-- the builtins `RefSem.evalBuiltin` implements. -/
def refBuiltins : List String :=
  ["integer_add", "integer_subtract", "integer_multiply", "integer_divide", "integer_modulo",
   "integer_compare", "integer_abs", "binary_length", "binary_concat"]

/-! ### Environments -/

/-- variable ↦ type id (innermost first, like `RefSem.Env`). -/
abbrev TEnv := List (String × Nat)

def tlookup (Γ : TEnv) (x : String) : Option Nat :=
  match Γ with
  | [] => none
  | (y, t) :: rest => if x = y then some t else tlookup rest x

/-- environment functions: name ↦ (parameter type, result type). -/
abbrev FEnv := List (String × Nat × Nat)

def flookup (Φ : FEnv) (x : String) : Option (Nat × Nat) :=
  match Φ with
  | [] => none
  | (y, pr) :: rest => if x = y then some pr else flookup rest x

structure Ctx where
  cfg : InferCfg
  T : Table
  nm : String → Name
  Φ : FEnv

/-! ### Accessors -/

def isTupleTy (T : Table) (i : Nat) : Bool :=
  match T.types[i]? with
  | some (.tuple _) => true
  | _ => false

/-- by-name access is in the fragment on a tuple type and on a flat union of tuple types. -/
def labelOk (c : Ctx) (t : Nat) : Bool :=
  match c.T.types[t]? with
  | some (.tuple _) => true
  | some (.union ids) => ids.all (isTupleTy c.T)
  | _ => false

/-- one accessor on a value of type `t`: the type read and the POSITION it is compiled to. -/
def inferAcc (c : Ctx) (t : Nat) : Acc → Option (Nat × Acc)
  | .label l =>
    if labelOk c t then
      match getFieldByNameWith c.cfg.idx c.T (c.cfg.fuel + 2) t (c.nm l) with
      | .ok idx tys =>
        match unionOfTypes c.T (c.cfg.fuel + 2) tys with
        | some u => some (u, .index idx)
        | none => none
      | _ => none
    else none
  | .index i =>
    match c.T.types[t]? with
    | some (.tuple id) =>
      match c.T.tuples[id]? with
      | some info =>
        match info.fields[i]? with
        | some (_, ft) => some (ft, .index i)
        | none => none
      | none => none
    | _ => none

def inferAccs (c : Ctx) : Nat → List Acc → Option (Nat × List Acc)
  | t, [] => some (t, [])
  | t, a :: rest =>
    match inferAcc c t a with
    | some (t1, a') =>
      match inferAccs c t1 rest with
      | some (t2, rest') => some (t2, a' :: rest')
      | none => none
    | none => none

/-! ### The generic-call guard (apply_value_to_type, generic branch) -/

/-- result type of applying a function `p -> r` to an argument of type `a`: unification of the
parameter with the argument, substitution into the result. The table must already be closed under
both (and under instantiating the parameter, which the proof uses). -/
def inferCall (c : Ctx) (p r a : Nat) : Option Nat :=
  let f := c.cfg.fuel + 2
  if patT c.T f p && argT c.T f a then
    match unifyWith c.cfg.unify f f c.T [] p a with
    | some (T1, some σ) =>
      if T1 = c.T then
        match substitute σ f c.T p, substitute σ f c.T r with
        | some (T2, _), some (T3, r') => if T2 = c.T ∧ T3 = c.T then some r' else none
        | _, _ => none
      else none
    | _ => none
  else none

/-! ### Patterns (analyze_pattern, for the first-order shapes of the fragment)

binder, `_`, integer / binary literal, `='int` / `='bin`, exact tuple pattern with sub-patterns.
`seen` = the names bound so far by THIS pattern (a repeated name would be an equality test: outside). -/

structure PatRes where
  /-- the bindings the pattern makes, innermost (last bound) first -/
  binds : TEnv
  /-- the type of the values on which the pattern can succeed (`matched_type`) -/
  matched : Nat
  /-- the pattern succeeds on every value of the scrutinee type (no run-time requirement) -/
  irref : Bool
  /-- the part of the scrutinee type the pattern is about (independent of the narrowing rule) -/
  covered : Nat
  /-- the pattern succeeds on EVERY value of `covered` (its failure is a fact about the type) -/
  faithful : Bool

/-- the tuple variant `k` has the name, arity and labels of the pattern. -/
def tupleShape (c : Ctx) (n : Option String) (labels : List (Option String)) (k : Nat) : Option TupleInfo :=
  match c.T.types[k]? with
  | some (.tuple id) =>
    match c.T.tuples[id]? with
    | some info =>
      if info.name = n.map c.nm ∧ info.fields.map (·.1) = labels.map (fun l => l.map c.nm) then some info
      else none
    | none => none
  | _ => none

/-- what the scrutinee is narrowed to when a pattern whose matched type is `m` succeeded. -/
def narrowTo (c : Ctx) (t m : Nat) (irref : Bool) : Option Nat :=
  match c.cfg.narrow with
  | .none => some t
  | .matched => some m
  | .withNilMarker =>
    if !irref && nilIn c.T (c.cfg.fuel + 2) t then
      match tupleType c.T none [] with
      | some n => unionPair c.T (c.cfg.fuel + 2) m n
      | none => none
    else some m

/-- literal patterns and `='int` / `='bin`: the leaf type must be a variant of the scrutinee. -/
def leafRes (c : Ctx) (t : Nat) (ty : Types.Ty) (isTest : Bool) : Option PatRes :=
  match findType c.T ty with
  | some i =>
    if (flat1 c.T t).contains i then
      let irref := isTest && decide (t = i)
      match narrowTo c t i irref with
      | some m => some ⟨[], m, irref, i, isTest⟩
      | none => none
    else none
  | none => none

/-- `'int`, `'bin` or a tuple type. -/
def simpleTy (T : Table) (j : Nat) : Bool :=
  match T.types[j]? with
  | some .integer => true
  | some .binary => true
  | some (.tuple _) => true
  | _ => false

/-- a tuple pattern is in the fragment on a flat union of `'int` / `'bin` / tuple types. -/
def tupScrutOk (c : Ctx) (t : Nat) : Bool :=
  foV c.T (c.cfg.fuel + 2) t && (flat1 c.T t).all (simpleTy c.T)

mutual
  def inferPat (c : Ctx) (seen : List String) (t : Nat) : Pat → Option PatRes
    | .bind x => if seen.contains x then none else some ⟨[(x, t)], t, true, t, true⟩
    | .wild => some ⟨[], t, true, t, true⟩
    | .lit (.int _) => leafRes c t .integer false
    | .lit (.bin _) => leafRes c t .binary false
    | .type .int => leafRes c t .integer true
    | .type .bin => leafRes c t .binary true
    | .tup n pfs =>
      if !tupScrutOk c t then none else
      match (flat1 c.T t).filter (fun k => (tupleShape c n (pfs.map (·.1)) k).isSome) with
      | [k] =>
        match tupleShape c n (pfs.map (·.1)) k with
        | some info =>
          match inferPatFields c seen (info.fields.map (·.2)) pfs with
          | some (binds, ms, irr) =>
            -- fields narrowed by the sub-patterns: the reconstructed tuple type (outside unless
            -- the sub-patterns leave the field types as they are)
            if ms = info.fields.map (·.2) then
              let irref := irr && decide (t = k)
              match narrowTo c t k irref with
              | some m => some ⟨binds, m, irref, k, irr⟩
              | none => none
            else none
          | none => none
        | none => none
      | _ => none
    | _ => none
  def inferPatFields (c : Ctx) (seen : List String) :
      List Nat → List (Option String × Pat) → Option (TEnv × List Nat × Bool)
    | [], [] => some ([], [], true)
    | ft :: fts, (_, p) :: ps =>
      match inferPat c seen ft p with
      | some r =>
        match inferPatFields c (r.binds.map (·.1) ++ seen) fts ps with
        | some (bs, ms, irr) => some (bs ++ r.binds, (if c.cfg.narrow = .none then ft else r.matched) :: ms, r.irref && irr)
        | none => none
      | none => none
    | _, _ => none
end

def labelSeen (label : Option String) (seen : List String) : Bool :=
  match label with
  | some l => seen.contains l
  | none => false

def pushLabel (label : Option String) (seen : List String) : List String :=
  match label with
  | some l => l :: seen
  | none => seen

def okTy (c : Ctx) : Option Nat := tupleType c.T (some (c.nm "Ok")) []
def nilTy (c : Ctx) : Option Nat := tupleType c.T none []

/-- the type of a match verdict: `Ok`, or `Ok | []` when the pattern can fail. -/
def verdictTy (c : Ctx) (irref : Bool) : Option Nat :=
  match okTy c with
  | some ok =>
    if irref then some ok
    else
      match nilTy c with
      | some n => unionPair c.T (c.cfg.fuel + 2) ok n
      | none => none
  | none => none

/-- a pattern applied to a value of type `t` in context `Γ`: verdict type, context afterwards. -/
def applyPat (c : Ctx) (Γ : TEnv) (t : Nat) (p : Pat) : Option (Nat × TEnv × PatRes) :=
  match inferPat c [] t p with
  | some r =>
    match verdictTy c r.irref with
    | some vt => some (vt, r.binds ++ Γ, r)
    | none => none
  | none => none

/-- the variable whose value a chain `x =P` matches, and the pattern. -/
def scrutVar (ch : Chain) : Option (String × Pat) :=
  match ch with
  | .mk none [.access (.var x) [], .mtch p] => some (x, p)
  | _ => none

/-- `apply_narrowing` for a chain `x =P` that succeeded: `x` is recorded with the narrowed type. -/
def narrowVar (c : Ctx) (Γ Γ1 : TEnv) (ch : Chain) : TEnv :=
  match scrutVar ch with
  | some (x, p) =>
    match tlookup Γ x with
    | some t0 =>
      match inferPat c [] t0 p with
      | some r => if (r.binds.map (·.1)).contains x then Γ1 else (x, r.matched) :: Γ1
      | none => Γ1
    | none => Γ1
  | none => Γ1

/-- the block parameter as a branch's consequence sees it: narrowed by a leading `=P`. -/
def narrowParam (c : Ctx) (ft : Nat) (cond : List Chain) : Nat :=
  match cond with
  | .mk none [.mtch p] :: _ =>
    (match inferPat c [] ft p with
     | some r => r.matched
     | none => ft)
  | _ => ft

/-- `compile_sequence`: the last chain's type, with nil added when the nil bookkeeping of
`Sequence.lean` (under the configured rule) says the sequence can short-circuit. -/
def seqType (c : Ctx) (ts : List Nat) : Option Nat :=
  match ts.getLast? with
  | none => none
  | some tl =>
    if seqNilable c.cfg.seq (ts.map (nilIn c.T (c.cfg.fuel + 2))) then
      match nilTy c with
      | some n => unionPair c.T (c.cfg.fuel + 2) tl n
      | none => none
    else some tl

/-- the pattern of a branch that is a pure dispatch on the block parameter: `| =P => …`. -/
def dispatchPat (cond : List Chain) : Option Pat :=
  match cond with
  | [.mk none [.mtch p]] => some p
  | _ => none

/-- `compute_complement(a, k)` (C09's model of narrowing.rs, the code as it is) for a scrutinee `a`
that is a flat union of simple types: `some none` = never (nothing is left), `some (some r)` = the
type `r` of what is left. The answer is accepted only with a CERTIFICATE checked here: every
variant of `a` other than `k` is a variant of `r` (which is what the soundness proof uses — C09's
`complement_keeps` needs well-labelled values, which the typing relation does not carry). -/
def complementIn (c : Ctx) (a k : Nat) : Option (Option Nat) :=
  if tupScrutOk c a then
    match QM.Types.complement QM.Types.Variant.current (c.cfg.fuel + 2) (c.cfg.fuel + 2) c.T a k with
    | some (T', r) =>
      if T' = c.T then
        let others := (flat1 c.T a).filter (fun j => j != k)
        if others.isEmpty then (if c.T.types[r]? = some (.union []) then some none else none)
        else if others.all (fun j => (flat1 c.T r).contains j) then some (some r) else none
      else none
    | none => none
  else none

/-- the parameter type the LATER branches see after this branch failed, and whether nothing is
left (the block is exhaustive). -/
def nextParam (c : Ctx) (ft : Nat) (cond : List Chain) : Option (Nat × Bool) :=
  match dispatchPat cond with
  | some p =>
    match inferPat c [] ft p with
    | some r =>
      if c.cfg.compl = .off then some (ft, false)
      else if r.faithful || (c.cfg.compl = .alsoValuePatterns) then
        match complementIn c ft r.covered with
        | some none => some (ft, true)
        | some (some r') => some (r', false)
        | none => none
      else some (ft, false)
    | none => some (ft, false)
  | none => some (ft, false)

/-- is the block exhaustive? The last branch decides: its condition cannot be nil. -/
def exhaustiveFlag (c : Ctx) (isLast : Bool) (tc : Nat) (exRest : Bool) : Bool :=
  if isLast then !nilIn c.T (c.cfg.fuel + 2) tc else exRest

/-! ### Terms, chains, fields, sequences, blocks

`ro` ("refutable patterns allowed"): a pattern that can fail yields nil and leaves its variables
unbound, so it may only end a chain of a SEQUENCE (which short-circuits), never a tuple-field chain. -/

mutual
  /-- `inferTerm c Γ ft t` : the flowing value has type `ft`; answers the type of the term's value,
  the environment afterwards and the elaborated term. -/
  def inferTerm (c : Ctx) (Γ : TEnv) (ft : Nat) : Term → Option (Nat × TEnv × Term)
    | .lit (.int z) =>
      match findType c.T .integer with
      | some t => some (t, Γ, .lit (.int z))
      | none => none
    | .lit (.bin bs) =>
      match findType c.T .binary with
      | some t => some (t, Γ, .lit (.bin bs))
      | none => none
    | .tuple name fields =>
      match (match name with
             | .anon => some (none : Option String)
             | .named n => some (some n)
             | .inherit => none) with
      | none => none
      | some tn =>
        match inferFields c Γ ft [] fields with
        | some (ftys, Γ', fields') =>
          match tupleType c.T (tn.map c.nm) (ftys.map fun f => (f.1.map c.nm, f.2)) with
          | some t => some (t, Γ', .tuple name fields')
          | none => none
        | none => none
    | .mtch (.bind x) =>
      match okTy c with
      | some ok => some (ok, (x, ft) :: Γ, .mtch (.bind x))
      | none => none
    | .access .ripple accs =>
      match inferAccs c ft accs with
      | some (t, accs') => some (t, Γ, .access .ripple accs')
      | none => none
    | .access (.var x) accs =>
      match tlookup Γ x with
      | some t =>
        match inferAccs c t accs with
        | some (t', accs') => some (t', Γ, .access (.var x) accs')
        | none => none
      | none =>
        -- an environment function applied to the flowing value
        match accs, flookup c.Φ x with
        | [], some (p, r) =>
          match inferCall c p r ft with
          | some r' => some (r', Γ, .access (.var x) [])
          | none => none
        | _, _ => none
    | .access (.builtin name) [] =>
      if refBuiltins.contains name then
        match builtinShape name with
        | some (sp, sr) =>
          match shapeTy c.T sp, shapeTy c.T sr with
          | some pt, some rt => if pt = ft then some (rt, Γ, .access (.builtin name) []) else none
          | _, _ => none
        | none => none
      else none
    -- `{ | cond => cons | … }` : compile_scoped_expression; the flowing value is the block's
    -- parameter; bindings made inside do not escape
    | .block (.mk branches) =>
      match inferBranches c Γ ft branches with
      | some (tys, exhaustive, brs') =>
        match nilTy c with
        | some n =>
          match unionMany c.T (c.cfg.fuel + 2) (if exhaustive then tys else tys ++ [n]) with
          | some t => some (t, Γ, .block (.mk brs'))
          | none => none
        | none => none
      | none => none
    | _ => none

  /-- a chain's terms. With `ro`, the LAST term may be a pattern that can fail. -/
  def inferTerms (c : Ctx) (ro : Bool) (Γ : TEnv) (ft : Nat) :
      List Term → Option (Nat × TEnv × List Term)
    | [] => some (ft, Γ, [])
    | [.mtch p] =>
      match applyPat c Γ ft p with
      | some (vt, Γ', r) => if ro || r.irref then some (vt, Γ', [.mtch p]) else none
      | none => none
    | t :: ts =>
      match inferTerm c Γ ft t with
      | some (t1, Γ1, t') =>
        match inferTerms c ro Γ1 t1 ts with
        | some (t2, Γ2, ts') => some (t2, Γ2, t' :: ts')
        | none => none
      | none => none

  /-- answers (type, context afterwards, elaborated chain). -/
  def inferChain (c : Ctx) (ro : Bool) (Γ : TEnv) (ft : Nat) : Chain → Option (Nat × TEnv × Chain)
    | .mk pat terms =>
      match pat with
      | none =>
        match inferTerms c ro Γ ft terms with
        | some (t, Γ', terms') => some (t, Γ', .mk none terms')
        | none => none
      | some p =>
        match inferTerms c false Γ ft terms with
        | some (t, Γ', terms') =>
          match applyPat c Γ' t p with
          | some (vt, Γ'', r) => if ro || r.irref then some (vt, Γ'', .mk (some p) terms') else none
          | none => none
        | none => none

  /-- the fields of a tuple construction, left to right; `seen` = the labels so far (a repeated
  label would overwrite in place: outside the fragment). Answers (label, type) per field. -/
  def inferFields (c : Ctx) (Γ : TEnv) (ft : Nat) (seen : List String) :
      List Field → Option (List (Option String × Nat) × TEnv × List Field)
    | [] => some ([], Γ, [])
    | .val label ch :: rest =>
      if labelSeen label seen then none
      else
        match inferChain c false Γ ft ch with
        | some (t, Γ1, ch') =>
          match inferFields c Γ1 ft (pushLabel label seen) rest with
          | some (ftys, Γ2, rest') => some ((label, t) :: ftys, Γ2, .val label ch' :: rest')
          | none => none
        | none => none
    | .spread _ :: _ => none

  /-- the chains of a sequence: each later chain starts from the previous result without nil.
  Answers the chains' own types (in order), the context after ALL chains, the elaborated chains. A
  successful `x =P` records the narrowed type of `x` in the context. -/
  def inferSeqChains (c : Ctx) (Γ : TEnv) (ft : Nat) : List Chain → Option (List Nat × TEnv × List Chain)
    | [] => some ([], Γ, [])
    | ch :: rest =>
      match inferChain c true Γ ft ch with
      | some (t, Γ1, ch') =>
        let Γ2 : TEnv := narrowVar c Γ Γ1 ch
        match rest with
        | [] => some ([t], Γ2, [ch'])
        | _ :: _ =>
          match withoutNil c.T (c.cfg.fuel + 2) t with
          | some t' =>
            match inferSeqChains c Γ2 t' rest with
            | some (ts, Γ3, rest') => some (t :: ts, Γ3, ch' :: rest')
            | none => none
          | none => none
      | none => none

  /-- the branches of a block. Answers the branches' result types, whether the block is exhaustive
  (the last branch's condition cannot be nil), the elaborated branches. -/
  def inferBranches (c : Ctx) (Γ : TEnv) (ft : Nat) : List Branch → Option (List Nat × Bool × List Branch)
    | [] => some ([], false, [])
    | .mk cond cons :: rest =>
      match inferSeqChains c Γ ft cond with
      | some (ts, Γ1, cond') =>
        match seqType c ts with
        | some tc =>
          match inferCons c Γ1 (narrowParam c ft cond) tc rest.isEmpty cons with
          | some (tb, cons') =>
            match nextParam c ft cond with
            | some (ft', nev) =>
              match inferBranches c Γ ft' rest with
              | some (tys, ex, rest') =>
                some (tb :: tys, nev || exhaustiveFlag c rest.isEmpty tc ex, .mk cond' cons' :: rest')
              | none => none
            | none => none
          | none => none
        | none => none
      | none => none

  /-- a branch's result: the consequence's type (typed with the narrowed parameter `ftc`), or the
  condition's own type `tc` — without nil unless the branch is the last one. -/
  def inferCons (c : Ctx) (Γ1 : TEnv) (ftc tc : Nat) (isLast : Bool) :
      Option (List Chain) → Option (Nat × Option (List Chain))
    | none =>
      if isLast then some (tc, none)
      else
        match withoutNil c.T (c.cfg.fuel + 2) tc with
        | some t => some (t, none)
        | none => none
    | some cs =>
      match inferSeqChains c Γ1 ftc cs with
      | some (ts2, _, cs') =>
        match seqType c ts2 with
        | some t => some (t, some cs')
        | none => none
      | none => none
end

/-- a sequence: its type and the elaborated chains. -/
def inferSeq (c : Ctx) (Γ : TEnv) (ft : Nat) (cs : List Chain) : Option (Nat × List Chain) :=
  match inferSeqChains c Γ ft cs with
  | some (ts, _, cs') =>
    match seqType c ts with
    | some t => some (t, cs')
    | none => none
  | none => none

/-- a whole program: one sequence starting from nil. -/
def inferProgram (c : Ctx) (Γ : TEnv) (cs : List Chain) : Option (Nat × List Chain) :=
  match nilTy c with
  | some n => inferSeq c Γ n cs
  | none => none

end QM.Soundness
