import QuiverModel.Core.VM.Step
import QuiverModel.Core.Types.Inh
/-
M-Soundness, part 2 (import-free: C07's M-VM and C09's M-Types only): the runtime invariant the
compiler's guards are meant to establish.

A VM value is *well tagged* when every tuple node `Tuple(id, fs)` in it is what its tag claims:
`fs` has the arity of tuple id `id` and `fs[i]` — erased to a structural value — inhabits the
declared type of field `i` of `id` (`inh`, C09). This is the hypothesis `WellTagged` of C08: the
runtime type test `IsType` looks at the tuple id only and trusts the field types registered for it.

`erase` resolves tuple ids to names and labels (C13's `erase`), binaries to (irrelevant) bytes,
functions / builtins / processes to the id of their declared type through the maps of `Decls`.
-/
namespace QM.Soundness
open QM.Types QM.VM

/-- declared types of code objects: `Function::type_id`, the callable type of a builtin, the
`Type::Process` derived from a function's callable type. -/
structure Decls where
  fnTy : Nat → Nat
  builtinTy : Nat → Nat
  procTy : Nat → Nat

mutual
/-- structural value of a VM value. -/
def erase (T : Table) (D : Decls) : Val → V
  | .int z => .int z
  | .bin _ => .bin []
  | .ref r => .ref r
  | .tup id fs =>
    match T.tuples[id]? with
    | some info => .tup info.name (eraseFields T D (info.fields.map (·.1)) fs)
    | none => .tup none (eraseFields T D [] fs)
  | .fn idx _ => .fn (D.fnTy idx)
  | .builtin id => .fn (D.builtinTy id)
  | .proc _ fidx => .proc (D.procTy fidx)
  | .res _ ty => .res ty
/-- fields, labelled position by position (surplus fields stay unlabelled). -/
def eraseFields (T : Table) (D : Decls) : List (Option Name) → ValList → VFields
  | _, .nil => .nil
  | [], .cons v vs => .cons none (erase T D v) (eraseFields T D [] vs)
  | l :: ls, .cons v vs => .cons l (erase T D v) (eraseFields T D ls vs)
end

mutual
/-- every tuple node of the value is what its tag claims. -/
def WT (T : Table) (D : Decls) : Val → Prop
  | .tup id fs => ∃ info, T.tuples[id]? = some info ∧ FieldsWT T D info.fields fs
  | .fn _ caps => AllWT T D caps
  | _ => True
/-- positional: same length, every field well tagged and inside the declared field type. -/
def FieldsWT (T : Table) (D : Decls) : List (Option Name × Nat) → ValList → Prop
  | [], .nil => True
  | f :: rest, .cons v vs => WT T D v ∧ inh T [] f.2 (erase T D v) ∧ FieldsWT T D rest vs
  | [], .cons _ _ => False
  | _ :: _, .nil => False
def AllWT (T : Table) (D : Decls) : ValList → Prop
  | .nil => True
  | .cons v vs => WT T D v ∧ AllWT T D vs
end

/-- all values of a list are well tagged. -/
def ListWT (T : Table) (D : Decls) (l : List Val) : Prop := ∀ v ∈ l, WT T D v

/-- the values a process holds: stack, locals, mailbox, the sources and the pending message of an
active select, and a produced result. -/
structure ProcWT (T : Table) (D : Decls) (p : Proc) : Prop where
  stack : ListWT T D p.stack
  locals : ListWT T D p.locals
  mailbox : ListWT T D p.mailbox
  sources : ∀ st, p.selectState = some st → ListWT T D st.sources
  receiving : ∀ st k m, p.selectState = some st → st.receiving = some (k, m) → WT T D m
  result : ∀ v, p.result = some (.ok v) → WT T D v

/-- the values an action carries to the rest of the system. -/
def ActionWT (T : Table) (D : Decls) : Option Action → Prop
  | some (.spawn _ caps arg) => ListWT T D caps ∧ WT T D arg
  | some (.deliver _ v) => WT T D v
  | _ => True

/-- `Program::new()`: tuple 0 is nil, tuple 1 is `Ok`, both without fields. -/
def TableInit (T : Table) : Prop :=
  (∃ n, T.tuples[0]? = some ⟨n, []⟩) ∧ (∃ n, T.tuples[1]? = some ⟨n, []⟩)

/-- the popped values are typed like the fields of tuple id `id` (what the compiler has to have
checked when it emits `Tuple(id)`): same number, each inside its field type. -/
def FieldsTyped (T : Table) (D : Decls) : List (Option Name × Nat) → List Val → Prop
  | [], [] => True
  | f :: rest, v :: vs => inh T [] f.2 (erase T D v) ∧ FieldsTyped T D rest vs
  | _, _ => False

/-- **The obligations**: what has to hold at an instruction for well-taggedness to survive it.
Everything that is not listed needs nothing. -/
def Obligation (T : Table) (D : Decls) (O : Oracle) (P : Prog) (p : Proc) : Instr → Prop
  /- `Tuple(id)`: the compiler's obligation — the values it packs are typed like the fields of the
  tuple id it chose -/
  | .tuple id =>
    ∀ size, P.tuples[id]? = some size → size ≤ p.stack.length →
      ∃ info, T.tuples[id]? = some info ∧ FieldsTyped T D info.fields (p.stack.take size).reverse
  /- `Call` of a builtin: the builtin's result is well tagged (C12 / `builtin_result_typed`) -/
  | .call =>
    ∀ id param rest v, p.stack = .builtin id :: param :: rest → O.builtin id param = .value v → WT T D v
  /- `Select`: what the rest of the system hands over (an awaited result, a message) is well
  tagged — the same invariant of the *other* processes -/
  | .select =>
    (∀ v, O.select = .complete v → WT T D v) ∧ (∀ k m, O.select = .callReceive k m → WT T D m)
  | _ => True

end QM.Soundness
