/-
M-Soundness, part 4 (import-free): nil-ability of a `,`-sequence of chains.

Mirrors the nil bookkeeping of /repo/quiver-compiler/src/compiler.rs `compile_sequence`: a sequence
short-circuits to nil as soon as one step yields nil, so its static type contains `[]` when the
ACCUMULATED type of the steps so far does (`last_type`, which already carries the nil of every
earlier step). `SeqRule.threadedOnly` is the alternative that looks at the immediately preceding
chain only (a seeded defect), kept to show that accumulation is necessary.
-/
namespace QM.Soundness

inductive SeqRule where
  | accumulated
  | threadedOnly
  deriving DecidableEq, Repr

/-- `own[k]` = "the type of chain `k` itself contains nil". Returns whether the type given to the
whole sequence contains nil. `prevOwn` / `acc` are the previous chain's own flag and the
accumulated flag. -/
def seqNilableFrom (rule : SeqRule) : List Bool → Bool → Bool → Bool
  | [], _, acc => acc
  | own :: rest, prevOwn, acc =>
    let propagate := match rule with
      | .accumulated => acc
      | .threadedOnly => prevOwn
    seqNilableFrom rule rest own (own || propagate)

/-- the first chain has no predecessor (`i > 0` in the code). -/
def seqNilable (rule : SeqRule) : List Bool → Bool
  | [] => false
  | own :: rest => seqNilableFrom rule rest own own

/-- run-time: `run[k]` = "step `k` evaluates to nil"; the sequence yields nil iff some step does
(the first one short-circuits; later flags are irrelevant). -/
def seqYieldsNil (run : List Bool) : Bool := run.any id

end QM.Soundness
