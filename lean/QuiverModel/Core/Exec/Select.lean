import QuiverModel.Core.Outcome
/-
M-Exec, part 1: the select state machine of ONE executor (quiver-core/src/executor.rs, the
`handle_select` family ≈ 2125–2710, `notify_message`, `notify_result`, `mark_*`,
`check_expired_timeouts`, `next_timeout_ms`; quiver-core/src/process.rs `SelectState`, `Process`).

What is abstract here (and concrete in other builders' models):
* a *value* is any type `V`; what a select yields is `Yield V` (`nil` = the `[]` a timeout yields);
* a receive source is `receive typeOk filter`: `typeOk` stands for `check_message_compatible`
  (the precomputed parameter-compatibility set), `filter = none` is a body-less receiver
  (`instructions.is_empty()` or a builtin: "type only"), `filter = some f` is a receiver with a body;
  `f m` is what the body leaves on the stack when run on `m` (`ret r`), or the runtime error it dies
  with (`fail e` – this includes the forbidden operations spawn / send / nested select);
* the process body around the select is abstract: the machine is driven by *events* — the Select
  instruction is executed (`handleSelect`), a message is appended (`notifyMessage`), an awaited
  result or failure arrives (`notifyResultOk` / `notifyFailure`), `mark_active`, the clock (an input of
  every call, as in `Executor::step(max_units, current_time_ms)`).

Everything else follows the Rust code branch by branch, in the same order; comments name the Rust
function being mirrored. Index panics of the Rust code (`state.cursors[receive_idx]`) are the
explicit outcome `panic`, proved unreachable under the invariant `cursors.length = #receive sources`.
-/
namespace QM.Exec

/-- What a select pushes: a message / an awaited result (`value v`) or the nil of a timeout. -/
inductive Yield (V : Type) where
  | value (v : V)
  | nil
  deriving DecidableEq, Repr, Inhabited

/-- How the body of a receive function ends when run on a message. -/
inductive FilterRes (V : Type) where
  /-- it returned `r` (left on the stack); `Yield.nil` is Quiver's `[]` -/
  | ret (r : Yield V)
  /-- it raised a runtime error: the process dies inside the filter -/
  | fail (e : ErrClass)

/-- Result of an awaited process (as the specification and the completion notifications see it). -/
inductive Res (V : Type) where
  | ok (v : V)
  | err (e : ErrClass)
  deriving DecidableEq, Repr

/-- A select source as popped from the stack (`Value::Process | Function/Builtin | Integer | other`). -/
inductive Source (V : Type) where
  | await (pid : Nat)
  | receive (typeOk : V → Bool) (filter : Option (V → FilterRes V))
  | timeout (ms : Int)
  /-- `Value::Resource` (→ TypeMismatch) or any other value (→ InvalidArgument) -/
  | invalid (e : ErrClass)

def Source.isReceive {V} : Source V → Bool
  | .receive _ _ => true
  | _ => false

/-- `process.rs::SelectState` without `frame`/`instruction` (the body is abstract, see above). -/
structure SelState (V : Type) where
  sources : List (Source V)
  cursors : List Nat
  startTime : Option Nat
  receiving : Option (Nat × V)

/-- `HashMap<ProcessId, Option<Value>>` as an association list (first match wins; `amInsert`
    removes older entries for the key, so keys stay unique). -/
abbrev AMap (α : Type) := List (Nat × α)

def amLookup {α} (k : Nat) : AMap α → Option α
  | [] => none
  | (k', v) :: rest => if k' = k then some v else amLookup k rest

def amInsert {α} (k : Nat) (v : α) (m : AMap α) : AMap α :=
  (k, v) :: m.filter (fun e => e.1 != k)

def amRemove {α} (k : Nat) (m : AMap α) : AMap α := m.filter (fun e => e.1 != k)

/-- The part of `process.rs::Process` the select machinery touches. `result = some (err e)` stands
    for `result = Some(Err(e))` with `frames` cleared (a failed process), `some (ok v)` for a
    process that finished normally. `awaitingFailed` is `Process.awaiting_failed` (fix bc74ad3: a
    failed target is a *ready source* of the current select, not an out-of-band kill). -/
structure Proc (V : Type) where
  mailbox : List V := []
  awaiting : AMap (Option V) := []
  awaitingFailed : AMap ErrClass := []
  sel : Option (SelState V) := none
  result : Option (Res V) := none

def Proc.failed {V} (p : Proc V) : Option ErrClass :=
  match p.result with
  | some (.err e) => some e
  | _ => none

/-- Outcome of one execution of the Select instruction. -/
inductive StepRes (V : Type) where
  /-- `complete_select`: state torn down, value pushed, counter advanced -/
  | completed (y : Yield V)
  /-- `SelectResult::CalledFunction`: a receive function body now runs on the `receiving` message -/
  | calledFilter
  /-- no source ready: `mark_selecting` -/
  | parked
  /-- `initialize_select` with process sources: `mark_selecting` + `Action::Await{targets}` -/
  | awaitAction (targets : List Nat)
  /-- `initialize_select` without process sources: `Ok(None)`, the instruction runs again -/
  | initialized
  /-- `Err(e)` — the error arm of `Executor::step` then fails the process -/
  | failed (e : ErrClass)
  /-- a Rust index panic (unreachable under the invariants, see `Theorems/C05`, `C15`) -/
  | panic
  deriving DecidableEq, Repr

/-! ## Timeouts: `handle_select_timeout`, and the i64 clamp of `process_select_sources` -/

def i64Max : Int := 9223372036854775807
def i64Min : Int := -9223372036854775808
def u64Max : Nat := 18446744073709551615

/-- `timeout_ms.to_i64().unwrap_or(i64::MAX)`: out of range on EITHER side becomes `i64::MAX`. -/
def toI64OrMax (ms : Int) : Int := if i64Min ≤ ms ∧ ms ≤ i64Max then ms else i64Max

/-- `timeout_ms.max(0) as u64` after the clamp: the effective duration. -/
def effDur (ms : Int) : Nat := (max (toI64OrMax ms) 0).toNat

/-- `elapsed >= timeout` with `elapsed = current_time_ms.saturating_sub(start_time)`. -/
def expired (ms : Int) (start now : Nat) : Bool := decide (effDur ms ≤ now - start)

/-! ## `initialize_select` -/

def pidTargets {V} : List (Source V) → List Nat
  | [] => []
  | .await p :: rest => p :: pidTargets rest
  | _ :: rest => pidTargets rest

def receiveCount {V} : List (Source V) → Nat
  | [] => 0
  | .receive _ _ :: rest => receiveCount rest + 1
  | _ :: rest => receiveCount rest

/-- `for target in &pid_targets { process.awaiting.insert(*target, None) }` -/
def registerAwaits {V} : List Nat → AMap (Option V) → AMap (Option V)
  | [], m => m
  | t :: rest, m => registerAwaits rest (amInsert t none m)

def initializeSelect {V} (p : Proc V) (srcs : List (Source V)) (now : Nat) : Proc V × StepRes V :=
  let targets := pidTargets srcs
  let st : SelState V :=
    { sources := srcs, cursors := List.replicate (receiveCount srcs) 0,
      startTime := if targets.isEmpty then some now else none, receiving := none }
  if targets.isEmpty then ({ p with sel := some st }, .initialized)
  else ({ p with sel := some st, awaiting := registerAwaits targets p.awaiting }, .awaitAction targets)

/-! ## The receive machinery -/

/-- The loop `for (msg_idx, message) in mailbox.iter().enumerate().skip(cursor)` of
    `scan_mailbox_for_message`, run on the remaining messages `msgs` whose first element has index
    `idx`; `cursor` is the loop-carried local. `inl (i, m)`: first type-compatible message;
    `inr c`: none, `c` = final value of the local `cursor`. -/
def scanFrom {V} (typeOk : V → Bool) : List V → Nat → Nat → Sum (Nat × V) Nat
  | [], _, cursor => .inr cursor
  | m :: rest, idx, _cursor => if typeOk m then .inl (idx, m) else scanFrom typeOk rest (idx + 1) (idx + 1)

inductive HR (V : Type) where
  | accept (m : V)
  | rejected
  | error (e : ErrClass)
  | panic

/-- `handle_receive_result`: the verdict of the receive function that just returned. -/
def handleReceiveResult {V} (mb : List V) (st : SelState V) (ridx : Nat) (m : V) :
    Option (Yield V) → List V × SelState V × HR V
  | none => (mb, st, .error .invalidArgument)
  | some (.value _) =>
    -- non-nil: accept — remove mailbox[cursors[ridx]] (if in range) and yield the *message*
    (mb.eraseIdx (st.cursors.getD ridx 0), st, .accept m)
  | some .nil =>
    -- nil: `state.cursors[receive_idx] += 1; state.receiving.take()`
    if ridx < st.cursors.length then
      (mb, { st with cursors := st.cursors.set ridx (st.cursors.getD ridx 0 + 1), receiving := none }, .rejected)
    else (mb, st, .panic)

inductive RecvRes (V : Type) where
  | complete (m : V)
  | called
  | continue_
  | error (e : ErrClass)
  | panic

/-- `scan_mailbox_for_message` (+ `call_receive_function` for a receiver with a body). `st` is the
    live state, `snapshot` the clone taken at the top of `process_select_sources`. -/
def scanMailbox {V} (mb : List V) (st snapshot : SelState V) (ridx : Nat)
    (typeOk : V → Bool) (filter : Option (V → FilterRes V)) : List V × SelState V × RecvRes V :=
  let cursor := st.cursors.getD ridx 0
  match scanFrom typeOk (mb.drop cursor) cursor cursor with
  | .inl (msgIdx, m) =>
    match filter with
    | none =>
      -- type-only receiver: `mailbox.remove(msg_idx)`, complete with the message
      (mb.eraseIdx msgIdx, st, .complete m)
    | some _ =>
      -- `call_receive_function`: `receiving.replace((receive_idx, message))` — a previously held
      -- message (a lower-priority filter whose verdict is pending) is dropped from the slot (since
      -- fix 27c635d also released); it STAYS in the mailbox and its source's cursor still points at it —
      -- then `cursors[receive_idx] = msg_idx` and the body is called.
      if ridx < st.cursors.length then
        (mb, { st with receiving := some (ridx, m), cursors := st.cursors.set ridx msgIdx }, .called)
      else (mb, st, .panic)
  | .inr cursor' =>
    -- "Update cursor to reflect all skipped messages" (`List.set` is a no-op out of range, as the
    -- guard `receive_idx < state.cursors.len()`)
    if cursor' > snapshot.cursors.getD ridx 0 then
      (mb, { st with cursors := st.cursors.set ridx cursor' }, .continue_)
    else (mb, st, .continue_)

/-- `handle_select_receive` -/
def handleSelectReceive {V} (mb : List V) (st snapshot : SelState V) (ridx : Nat)
    (typeOk : V → Bool) (filter : Option (V → FilterRes V)) (verdict : Option (Yield V)) :
    List V × SelState V × RecvRes V :=
  match snapshot.receiving with
  | some (idx, m) =>
    if idx = ridx then
      match handleReceiveResult mb st ridx m verdict with
      | (mb', st', .accept v) => (mb', st', .complete v)
      | (mb', st', .rejected) => scanMailbox mb' st' snapshot ridx typeOk filter
      | (mb', st', .error e) => (mb', st', .error e)
      | (mb', st', .panic) => (mb', st', .panic)
    else scanMailbox mb st snapshot ridx typeOk filter
  | none => scanMailbox mb st snapshot ridx typeOk filter

/-- The loop of `process_select_sources` over the remaining sources; `ridx` = number of receive
    sources before the head (`receive_idx` of `handle_select_receive`). The result `completed`
    stands for `complete_select` (the caller discards the state). -/
def scanSources {V} (aw : AMap (Option V)) (awf : AMap ErrClass) (snapshot : SelState V)
    (verdict : Option (Yield V)) (start now : Nat) :
    List (Source V) → Nat → List V → SelState V → List V × SelState V × StepRes V
  | [], _, mb, st => (mb, st, .parked)
  | .timeout ms :: rest, r, mb, st =>
    if expired ms start now then (mb, st, .completed .nil)
    else scanSources aw awf snapshot verdict start now rest r mb st
  | .await t :: rest, r, mb, st =>
    -- `handle_select_process`: a failed target propagates its error (`Err`), a stored result completes
    match amLookup t awf with
    | some e => (mb, st, .failed e)
    | none =>
      match amLookup t aw with
      | some (some v) => (mb, st, .completed (.value v))
      | _ => scanSources aw awf snapshot verdict start now rest r mb st
  | .receive ty f :: rest, r, mb, st =>
    match handleSelectReceive mb st snapshot r ty f verdict with
    | (mb', st', .complete m) => (mb', st', .completed (.value m))
    | (mb', st', .called) => (mb', st', .calledFilter)
    | (mb', st', .continue_) => scanSources aw awf snapshot verdict start now rest (r + 1) mb' st'
    | (mb', st', .error e) => (mb', st', .failed e)
    | (mb', st', .panic) => (mb', st', .panic)
  | .invalid e :: _, _, mb, st => (mb, st, .failed e)

/-- `complete_select`, the part on `awaiting` / `awaiting_failed`: the awaits registered for this
    select end with it — for every process source the entries are removed. -/
def dropAwaits {V α} : List (Source V) → AMap α → AMap α
  | [], m => m
  | .await t :: rest, m => dropAwaits rest (amRemove t m)
  | _ :: rest, m => dropAwaits rest m

/-- Phases 3 and 4 of `handle_select` on an existing state: `ensure_select_start_time`, then
    `process_select_sources`. -/
def reenterSelect {V} (p : Proc V) (st : SelState V) (verdict : Option (Yield V)) (now : Nat) :
    Proc V × StepRes V :=
  let start := st.startTime.getD now
  let st1 : SelState V := { st with startTime := some start }
  match scanSources p.awaiting p.awaitingFailed st1 verdict start now st1.sources 0 p.mailbox st1 with
  | (mb', _, .completed y) =>
    ({ p with mailbox := mb', sel := none, awaiting := dropAwaits st.sources p.awaiting,
              awaitingFailed := dropAwaits st.sources p.awaitingFailed }, .completed y)
  | (mb', st', r) => ({ p with mailbox := mb', sel := some st' }, r)

/-- `handle_select`. `stackSources` is what `initialize_select` would pop (used only when there is
    no select state); `stackTop` is the value on top of the stack (popped as the verdict only when
    `receiving` is set — `handle_select_continuation`). -/
def handleSelect {V} (p : Proc V) (now : Nat) (stackSources : List (Source V)) (stackTop : Yield V) :
    Proc V × StepRes V :=
  match p.sel with
  | none => initializeSelect p stackSources now
  | some st =>
    let verdict := if st.receiving.isSome then some stackTop else none
    reenterSelect p st verdict now

/-- `handleSelect` followed by the error arm of `Executor::step` (`result = Err(e)`, frames cleared;
    the select state is left in place). -/
def stepSelect {V} (p : Proc V) (now : Nat) (stackSources : List (Source V)) (stackTop : Yield V) :
    Proc V × StepRes V :=
  match handleSelect p now stackSources stackTop with
  | (p', .failed e) => ({ p' with result := some (.err e) }, .failed e)
  | r => r

/-! ## The r-th receive source, and the verdict a *pure* filter produces -/

def nthRecv {V} : List (Source V) → Nat → Option ((V → Bool) × Option (V → FilterRes V))
  | [], _ => none
  | .receive ty f :: _, 0 => some (ty, f)
  | .receive _ _ :: rest, n + 1 => nthRecv rest n
  | .await _ :: rest, n => nthRecv rest n
  | .timeout _ :: rest, n => nthRecv rest n
  | .invalid _ :: rest, n => nthRecv rest n

/-- What the pending receive function returns on the held message (filters are pure functions of the
    message). `none` when nothing is pending or the slot does not name a receiver with a body. -/
def pendingFilterRes {V} (st : SelState V) : Option (FilterRes V) :=
  match st.receiving with
  | none => none
  | some (idx, m) =>
    match nthRecv st.sources idx with
    | some (_, some f) => some (f m)
    | _ => none

/-- One execution of the Select instruction in a run where receive functions are pure: the value on
    the stack is what the pending filter returns on the held message; if the filter raises instead,
    the process fails inside it (the Select instruction is never re-executed). -/
def stepSelectPure {V} (p : Proc V) (now : Nat) (stackSources : List (Source V)) : Proc V × StepRes V :=
  match p.sel.bind pendingFilterRes with
  | some (.fail e) => ({ p with result := some (.err e) }, .failed e)
  | some (.ret r) => stepSelect p now stackSources r
  | none => stepSelect p now stackSources .nil

/-! ## The abstract specification -/

/-- A message is *accepted* by a receive source: type-compatible and (if there is a body) the
    filter returns a non-nil value. -/
def accepts {V} (typeOk : V → Bool) (filter : Option (V → FilterRes V)) (m : V) : Bool :=
  typeOk m && (match filter with
    | none => true
    | some f => match f m with
      | .ret (.value _) => true
      | _ => false)

def firstIdx {V} (q : V → Bool) : List V → Option Nat
  | [] => none
  | x :: xs => if q x then some 0 else (firstIdx q xs).map (· + 1)

inductive SpecOutcome (V : Type) where
  /-- the select yields `y`; `taken` = index of the mailbox message it consumes, if any -/
  | yields (y : Yield V) (taken : Option Nat)
  /-- the first ready source is a failed process (its error propagates) or an invalid source -/
  | fails (e : ErrClass)
  | notReady
  deriving DecidableEq, Repr

/-- `selectSpec sources mailbox results start now`: the first source, in written order, that is
    ready — an awaited process with a known result, a receive source with the earliest accepted
    message, a timeout with `now − start ≥ duration`. -/
def selectSpec {V} (mailbox : List V) (results : Nat → Option (Res V)) (start now : Nat) :
    List (Source V) → SpecOutcome V
  | [] => .notReady
  | .await t :: rest =>
    match results t with
    | some (.ok v) => .yields (.value v) none
    | some (.err e) => .fails e
    | none => selectSpec mailbox results start now rest
  | .receive ty f :: rest =>
    match firstIdx (accepts ty f) mailbox with
    | some i =>
      match mailbox[i]? with
      | some m => .yields (.value m) (some i)
      | none => .notReady  -- unreachable (`firstIdx_lt`)
    | none => selectSpec mailbox results start now rest
  | .timeout ms :: rest =>
    if effDur ms ≤ now - start then .yields .nil none
    else selectSpec mailbox results start now rest
  | .invalid e :: _ => .fails e

/-- What a process knows about its awaited targets, as specification results: a recorded failure,
    else a stored value. -/
def Proc.knownResults {V} (p : Proc V) : Nat → Option (Res V) := fun t =>
  match amLookup t p.awaitingFailed with
  | some e => some (.err e)
  | none =>
    match amLookup t p.awaiting with
    | some (some v) => some (.ok v)
    | _ => none

/-! ## Notifications (one process) -/

/-- `notify_message`: append to the mailbox (the wake-up is at `Exec` level). -/
def Proc.pushMessage {V} (p : Proc V) (m : V) : Proc V := { p with mailbox := p.mailbox ++ [m] }

/-- `still_awaiting` of `notify_result` / `notify_failure`: the process has no result yet and its
    current select registered the target. -/
def Proc.stillAwaiting {V} (p : Proc V) (awaited : Nat) : Bool :=
  p.result.isNone && (amLookup awaited p.awaiting).isSome

/-- `Executor::notify_result` (success): store in `awaiting` — only while still awaited. -/
def Proc.storeResult {V} (p : Proc V) (awaited : Nat) (v : V) : Proc V :=
  if p.stillAwaiting awaited then { p with awaiting := amInsert awaited (some v) p.awaiting } else p

/-- `Executor::notify_failure`, the recording part. -/
def Proc.recordFailure {V} (p : Proc V) (awaited : Nat) (e : ErrClass) : Proc V :=
  { p with awaitingFailed := amInsert awaited e p.awaitingFailed }

/-- The error arm of `Executor::step` / `notify_effect_completion`: `result = Some(Err(e))`,
    `frames.clear()`. -/
def Proc.failWith {V} (p : Proc V) (e : ErrClass) : Proc V := { p with result := some (.err e) }

/-! ## The executor: process table, run queue, parked set -/

structure Exec (V : Type) where
  procs : AMap (Proc V) := []
  queue : List Nat := []
  /-- `selecting: HashSet<ProcessId>` -/
  selecting : List Nat := []
  /-- `spawning`, `effecting: HashSet<ProcessId>` (used by Core/Exec/Error.lean: status, effect completions) -/
  spawning : List Nat := []
  effecting : List Nat := []

def Exec.getProc {V} (ex : Exec V) (pid : Nat) : Option (Proc V) := amLookup pid ex.procs

def Exec.setProc {V} (ex : Exec V) (pid : Nat) (p : Proc V) : Exec V :=
  { ex with procs := amInsert pid p ex.procs }

/-- `if self.selecting.remove(&id) { self.queue.push_back(id) }` -/
def Exec.wake {V} (ex : Exec V) (pid : Nat) : Exec V :=
  if pid ∈ ex.selecting then
    { ex with selecting := ex.selecting.filter (· != pid), queue := ex.queue ++ [pid] }
  else ex

/-- `mark_selecting`: insert into the set, `queue.retain(|p| p != id)`. -/
def Exec.markSelecting {V} (ex : Exec V) (pid : Nat) : Exec V :=
  { ex with selecting := if pid ∈ ex.selecting then ex.selecting else ex.selecting ++ [pid],
            queue := ex.queue.filter (· != pid) }

/-- `notify_message` -/
def Exec.notifyMessage {V} (ex : Exec V) (pid : Nat) (m : V) : Exec V :=
  let ex1 := match ex.getProc pid with
    | some p => ex.setProc pid (p.pushMessage m)
    | none => ex
  ex1.wake pid

/-- `Executor::notify_result`: store (if still awaited), then re-queue if selecting (unconditional). -/
def Exec.notifyResultOk {V} (ex : Exec V) (awaiter awaited : Nat) (v : V) : Exec V :=
  let ex1 := match ex.getProc awaiter with
    | some p => ex.setProc awaiter (p.storeResult awaited v)
    | none => ex
  ex1.wake awaiter

/-- `Executor::notify_failure` (also the `Err` arm of `Worker::notify_result`): ignored unless the
    awaiter still awaits the target; else recorded as a ready source, and the awaiter re-queued. -/
def Exec.notifyFailure {V} (ex : Exec V) (awaiter awaited : Nat) (e : ErrClass) : Exec V :=
  match ex.getProc awaiter with
  | some p =>
    if p.stillAwaiting awaited then (ex.setProc awaiter (p.recordFailure awaited e)).wake awaiter
    else ex
  | none => ex

/-- The awaiter loop at the end of `Executor::step`, for one awaiter: when process `finished` (on the
    same executor) ends with `r`, every process whose `awaiting` map *contains the key* is notified. -/
def Exec.notifyFinished {V} (ex : Exec V) (awaiter finished : Nat) (r : Res V) : Exec V :=
  match ex.getProc awaiter with
  | some p =>
    if (amLookup finished p.awaiting).isSome then
      match r with
      | .ok v => ex.notifyResultOk awaiter finished v
      | .err e => ex.notifyFailure awaiter finished e
    else ex
  | none => ex

/-- PRE-FIX behaviour (before bc74ad3), kept only for the witness theorems `C05.old_*`: the `Err` arm
    of `Worker::notify_result` and of the awaiter loop set `result = Err(e)` on the awaiter
    unconditionally, and `complete_select` left the `awaiting` entries behind. -/
def Exec.killAwaiterOld {V} (ex : Exec V) (awaiter : Nat) (e : ErrClass) : Exec V :=
  match ex.getProc awaiter with
  | some p => ex.setProc awaiter (p.failWith e)
  | none => ex

/-- `mark_active` (`update_await_results` when no result was included): leave `spawning` /
    `selecting`, and be queued if it was in either. -/
def Exec.markActive {V} (ex : Exec V) (pid : Nat) : Exec V :=
  let was := decide (pid ∈ ex.spawning ∨ pid ∈ ex.selecting)
  let ex1 := { ex with spawning := ex.spawning.filter (· != pid), selecting := ex.selecting.filter (· != pid) }
  if was then { ex1 with queue := ex1.queue ++ [pid] } else ex1

/-- One execution of the Select instruction by the running process `pid` (already popped from the
    queue by `step`), including the `mark_selecting` of the parking outcomes. -/
def Exec.select {V} (ex : Exec V) (pid now : Nat) (stackSources : List (Source V)) (stackTop : Yield V) :
    Exec V × Option (StepRes V) :=
  match ex.getProc pid with
  | none => (ex, none)
  | some p =>
    let (p', r) := stepSelect p now stackSources stackTop
    let ex1 := ex.setProc pid p'
    match r with
    | .parked => (ex1.markSelecting pid, some r)
    | .awaitAction _ => (ex1.markSelecting pid, some r)
    | _ => (ex1, some r)

/-- `Exec.select` with the verdict of a pure receive function (`stepSelectPure`). -/
def Exec.selectPure {V} (ex : Exec V) (pid now : Nat) (stackSources : List (Source V)) :
    Exec V × Option (StepRes V) :=
  match ex.getProc pid with
  | none => (ex, none)
  | some p =>
    let (p', r) := stepSelectPure p now stackSources
    let ex1 := ex.setProc pid p'
    match r with
    | .parked => (ex1.markSelecting pid, some r)
    | .awaitAction _ => (ex1.markSelecting pid, some r)
    | _ => (ex1, some r)

/-! ## Histories of one process: the events that can happen to it around its selects -/

inductive Event (V : Type) where
  /-- `notify_message` -/
  | msg (m : V)
  /-- `notify_result` (success) for an awaited process -/
  | resultOk (pid : Nat) (v : V)
  /-- `notify_failure` for an awaited process -/
  | failure (pid : Nat) (e : ErrClass)
  /-- the process executes its Select instruction (entry or re-entry) at clock `now`; `srcs` is what
      is on the stack (read only when a new select starts) -/
  | select (now : Nat) (srcs : List (Source V))

def Proc.step {V} (p : Proc V) : Event V → Proc V
  | .msg m => p.pushMessage m
  | .resultOk pid v => p.storeResult pid v
  | .failure pid e => if p.stillAwaiting pid then p.recordFailure pid e else p
  | .select now srcs => if p.result.isSome then p else (stepSelectPure p now srcs).1

def Proc.run {V} (p : Proc V) : List (Event V) → Proc V
  | [] => p
  | e :: es => (p.step e).run es

/-! ## Expiry: `check_expired_timeouts`, `next_timeout_ms` -/

def Source.timeoutDur {V} : Source V → Option Nat
  | .timeout ms => some (effDur ms)
  | _ => none

/-- the filter predicate of `check_expired_timeouts` for one process -/
def Proc.timeoutExpired {V} (p : Proc V) (now : Nat) : Bool :=
  match p.sel with
  | some st =>
    match st.startTime with
    | some s => st.sources.any (fun src => match src with
        | .timeout ms => expired ms s now
        | _ => false)
    | none => false
  | none => false

def Exec.isExpired {V} (ex : Exec V) (now : Nat) (pid : Nat) : Bool :=
  match ex.getProc pid with
  | some p => p.timeoutExpired now
  | none => false

/-- `check_expired_timeouts` (the order in which several expired processes are queued is the
    iteration order of a `HashSet` in Rust; here: the order of the `selecting` list). -/
def Exec.checkExpiredTimeouts {V} (ex : Exec V) (now : Nat) : Exec V :=
  let exp := ex.selecting.filter (ex.isExpired now)
  { ex with queue := ex.queue ++ exp, selecting := ex.selecting.filter (fun pid => !(ex.isExpired now pid)) }

def listMin : List Nat → Option Nat
  | [] => none
  | x :: xs => match listMin xs with
    | none => some x
    | some m => some (min x m)

/-- `start_time.saturating_add(min timeout)` of one parked process -/
def Proc.nextExpiry {V} (p : Proc V) : Option Nat :=
  match p.sel with
  | some st =>
    match st.startTime with
    | some s =>
      match listMin (st.sources.filterMap Source.timeoutDur) with
      | some t => some (min (s + t) u64Max)
      | none => none
    | none => none
  | none => none

/-- `next_timeout_ms` -/
def Exec.nextTimeoutMs {V} (ex : Exec V) : Option Nat :=
  listMin (ex.selecting.filterMap (fun pid => (ex.getProc pid).bind Proc.nextExpiry))

/-! ## Variant: the select waits for its await answer (`notes/C05-fixes/01-select-waits-for-its-await-answer.patch`)

At HEAD a select with process sources parks after `Action::Await`, but anything wakes it — a message, an
await answer that concerns an earlier select — and it then walks its sources with the targets still
unknown. The patch adds `SelectState.unanswered` (the process sources whose worker has not answered
yet): the select evaluates NOTHING while the list is non-empty, every answer (result, failure, the
"not finished, you are registered" placeholder) removes its target and wakes the select.

The list is kept beside the process record (`ExecW.unanswered`), so that every definition and theorem
above stays the HEAD function: with the flag off the list is always empty and `ExecW.selectPure` IS
`Exec.selectPure` (`C05.variant_off_is_head`). -/

structure Variant where
  /-- `false` = the code at HEAD -/
  selectWaitsForAnswer : Bool := false
  /-- notes/C06-fixes/01 (`release_dead_roots`): a NON-persistent process that finishes or fails gives up its
      mailbox, select state (with `unanswered`), `awaiting` and `awaiting_failed` at the end of the executor step
      (after the same-executor awaiters were notified); `notify_message` drops a message for a process that is
      unknown, has failed, or has finished and is not persistent. `false` = the code without the repair. -/
  releaseDead : Bool := false
  deriving DecidableEq, Repr

structure ExecW (V : Type) where
  ex : Exec V := {}
  /-- `SelectState.unanswered` per process (absent = empty) -/
  unanswered : AMap (List Nat) := []

/-- `select_state.unanswered` of `pid` -/
def ExecW.un {V} (w : ExecW V) (pid : Nat) : List Nat := (amLookup pid w.unanswered).getD []

/-- `Executor::mark_answered`: `state.unanswered.retain(|t| *t != awaited)` -/
def ExecW.markAnswered {V} (w : ExecW V) (awaiter awaited : Nat) : ExecW V :=
  { w with unanswered := amInsert awaiter ((w.un awaiter).filter (· != awaited)) w.unanswered }

def ExecW.stillAwaiting {V} (w : ExecW V) (awaiter awaited : Nat) : Bool :=
  match w.ex.getProc awaiter with
  | some p => p.stillAwaiting awaited
  | none => false

def ExecW.notifyMessage {V} (w : ExecW V) (pid : Nat) (m : V) : ExecW V :=
  { w with ex := w.ex.notifyMessage pid m }

/-- `notify_result`: inside `if still_awaiting`, after the store, `mark_answered` -/
def ExecW.notifyResultOk {V} (w : ExecW V) (awaiter awaited : Nat) (v : V) : ExecW V :=
  let w1 := if w.stillAwaiting awaiter awaited then w.markAnswered awaiter awaited else w
  { w1 with ex := w.ex.notifyResultOk awaiter awaited v }

/-- `notify_failure`: after the `still_awaiting` test, record + `mark_answered` -/
def ExecW.notifyFailure {V} (w : ExecW V) (awaiter awaited : Nat) (e : ErrClass) : ExecW V :=
  let w1 := if w.stillAwaiting awaiter awaited then w.markAnswered awaiter awaited else w
  { w1 with ex := w.ex.notifyFailure awaiter awaited e }

/-- the awaiter loop of `Executor::step` for one awaiter (`Exec.notifyFinished`) -/
def ExecW.notifyFinished {V} (w : ExecW V) (awaiter finished : Nat) (r : Res V) : ExecW V :=
  match w.ex.getProc awaiter with
  | some p =>
    if (amLookup finished p.awaiting).isSome then
      match r with
      | .ok v => w.notifyResultOk awaiter finished v
      | .err e => w.notifyFailure awaiter finished e
    else w
  | none => w

/-- `Executor::notify_pending` (a `None` entry of an UpdateAwaitResults): the target's worker answered
    "not finished yet, you are registered". The caller (`update_await_results`) wakes the awaiter. -/
def ExecW.notifyPending {V} (w : ExecW V) (awaiter awaited : Nat) : ExecW V := w.markAnswered awaiter awaited

def ExecW.wake {V} (w : ExecW V) (pid : Nat) : ExecW V := { w with ex := w.ex.wake pid }

/-- One execution of the Select instruction under the variant. A new select lists its process
    sources as unanswered (flag on); an existing one with unanswered targets parks again without
    looking at any source (`handle_select`, between phases 2 and 3). -/
def ExecW.selectPure {V} (v : Variant) (w : ExecW V) (pid now : Nat) (stackSources : List (Source V)) :
    ExecW V × Option (StepRes V) :=
  match w.ex.getProc pid with
  | none => (w, none)
  | some p =>
    match p.sel with
    | none =>
      ({ ex := (w.ex.selectPure pid now stackSources).1,
         unanswered := amInsert pid (if v.selectWaitsForAnswer then pidTargets stackSources else []) w.unanswered },
       (w.ex.selectPure pid now stackSources).2)
    | some _ =>
      if (w.un pid).isEmpty then
        ({ w with ex := (w.ex.selectPure pid now stackSources).1 }, (w.ex.selectPure pid now stackSources).2)
      else ({ w with ex := w.ex.markSelecting pid }, some .parked)

/-! ### Variant `releaseDead` (notes/C06-fixes/01) -/

/-- what `release_dead_roots` leaves of a non-persistent process record: the result, nothing else -/
def Proc.releaseDead {V} (p : Proc V) : Proc V :=
  { p with mailbox := [], awaiting := [], awaitingFailed := [], sel := none }

/-- `deliverable` of `notify_message` under the variant: the process exists and can still receive -/
def Proc.deliverable {V} (p : Proc V) (persistent : Bool) : Bool :=
  match p.result with
  | none => true
  | some (.ok _) => persistent
  | some (.err _) => false

/-- `release_dead_roots(pid)` at the end of the finished block of `Executor::step` (non-persistent process) -/
def Exec.releaseDead {V} (ex : Exec V) (pid : Nat) : Exec V :=
  match ex.getProc pid with
  | some p => ex.setProc pid p.releaseDead
  | none => ex

/-- `notify_message` under the variant: a message that can never be received is dropped (the wake-up stays) -/
def Exec.notifyMessageV {V} (v : Variant) (persistent : Nat → Bool) (ex : Exec V) (pid : Nat) (m : V) : Exec V :=
  if v.releaseDead then
    match ex.getProc pid with
    | some p => if p.deliverable (persistent pid) then ex.notifyMessage pid m else ex.wake pid
    | none => ex.wake pid
  else ex.notifyMessage pid m

def ExecW.releaseDead {V} (w : ExecW V) (pid : Nat) : ExecW V :=
  { ex := w.ex.releaseDead pid, unanswered := amInsert pid [] w.unanswered }

/-! ### "Ready" at system level

`selectSpec` above is relative to what the process KNOWS. The documented priority ("prioritising `p1` if
both are already finished") is about what is TRUE: a target that had finished before the select started
is ready, whether or not the answer has reached the process. `certain t` = the result of `t` if `t` had
finished when the select was initialised. -/

def sysResults {V} (known certain : Nat → Option (Res V)) : Nat → Option (Res V) := fun t =>
  match known t with
  | some r => some r
  | none => certain t

def selectSpecSys {V} (mailbox : List V) (known certain : Nat → Option (Res V)) (start now : Nat)
    (srcs : List (Source V)) : SpecOutcome V :=
  selectSpec mailbox (sysResults known certain) start now srcs

end QM.Exec
