import QuiverModel.Core.Exec.Select
/-
M-Exec, part 2: failure containment. The error arm and the completion bookkeeping of
`Executor::step` (quiver-core/src/executor.rs ≈1115–1340), `notify_effect_completion`, and the
worker-side await protocol of quiver-environment/src/worker.rs (`query_and_await`,
`update_await_results`, `notify_result`, `deliver_message`, `check_completed_processes`,
`Worker::step`), as far as needed to state: an error terminates only the process it occurs in; it
reaches exactly the processes whose CURRENT select awaits that process — recorded as a ready source
(`notify_failure`, fix bc74ad3) and propagated by their select in source order; a worker step never
returns an internal error for commands that respect the routing invariant.

Abstract: the body of a process. A time slice of the running process is an INPUT: the new state of
that process (`Proc`) and how the slice ended (`SliceEnd`). What the model computes is everything
the executor and the worker do *around* it — to the other processes, the queues, the wire.
Values on the wire carry a flag `wf` ("the heap indices of the value fit its heap vector"):
`inject_heap_data` fails exactly on `wf = false`, which surfaces as `EnvironmentError::HeapData` from
`Worker::step`. Extraction from the executor's own heap is total here (its soundness is C06's).
-/
namespace QM.Exec

/-- How the time slice of the running process ended. -/
inductive SliceEnd (V : Type) where
  /-- time slice exhausted, or yielded after a routing action (Send, …): re-queued -/
  | yields
  /-- the last frame was exhausted with `v` on the stack: `result = Ok(v)` -/
  | finishes (v : V)
  /-- an instruction returned `Err(e)` — a builtin domain error, an operation that is not allowed
      inside a receive function, a failed await source reached by a select, … -/
  | raises (e : ErrClass)
  /-- the process parked itself in `selecting` (`mark_selecting` inside the Select instruction) -/
  | parksSelecting
  /-- the process parked itself in `spawning` (`mark_spawning` inside the Spawn instruction) -/
  | parksSpawning
  /-- the slice ended with `Action::RequestEffect`: the executor re-queues the process, then
      `Worker::handle_action` calls `mark_effecting` (insert into `effecting`, remove from the queue) -/
  | parksEffecting
  /-- the last frame was exhausted with an empty stack: `result = Err(StackUnderflow)` and an early
      `return` that skips the awaiter loop -/
  | finishesEmpty

/-- `get_status` (executor.rs): queue first, then the parked sets, then the result. -/
inductive Status where
  | active | waiting | failed | completed
  deriving DecidableEq, Repr

def Exec.status {V} (ex : Exec V) (pid : Nat) (p : Proc V) : Status :=
  if pid ∈ ex.queue then .active
  else if pid ∈ ex.spawning ∨ pid ∈ ex.selecting ∨ pid ∈ ex.effecting then .waiting
  else match p.result with
    | some (.err _) => .failed
    | some (.ok _) => .completed  -- `Sleeping` for a persistent process; treated alike by the callers
    | none => .active

/-- processes whose `awaiting` map contains the key (`awaiters` of the loop in `step`) -/
def Exec.awaitersOf {V} (ex : Exec V) (pid : Nat) : List Nat :=
  (ex.procs.map (·.1)).filter (fun k =>
    match ex.getProc k with
    | some p => (amLookup pid p.awaiting).isSome
    | none => false)

/-- what the awaiter loop does to ONE awaiter's process record -/
def Proc.notified {V} (p : Proc V) (pid : Nat) : Res V → Proc V
  | .ok v => p.storeResult pid v
  | .err e => if p.stillAwaiting pid then p.recordFailure pid e else p

def notifyAll {V} (pid : Nat) (r : Res V) : List Nat → Exec V → Exec V
  | [], ex => ex
  | a :: rest, ex => notifyAll pid r rest (ex.notifyFinished a pid r)

/-- The `finished` branch of `Executor::step`: the awaiter loop over the processes of this executor
    (the order is `HashMap` iteration order in Rust; here: table order — the notifications to
    different awaiters commute except for the order in which they are re-queued). -/
def Exec.announce {V} (ex : Exec V) (pid : Nat) (r : Res V) : Exec V :=
  notifyAll pid r (ex.awaitersOf pid) ex

/-- `Executor::step` after the instructions of the slice have run: `p'` is the running process's
    state after the slice (an input), `e` how it ended. -/
def Exec.endSlice {V} (ex : Exec V) (pid : Nat) (p' : Proc V) : SliceEnd V → Exec V
  | .yields =>
    let ex1 := ex.setProc pid p'
    -- `should_requeue = !spawning.contains && !selecting.contains`
    if pid ∈ ex1.spawning ∨ pid ∈ ex1.selecting then ex1 else { ex1 with queue := ex1.queue ++ [pid] }
  | .parksSelecting => (ex.setProc pid p').markSelecting pid
  | .parksSpawning =>
    let ex1 := ex.setProc pid p'
    { ex1 with spawning := if pid ∈ ex1.spawning then ex1.spawning else ex1.spawning ++ [pid],
               queue := ex1.queue.filter (· != pid) }
  | .parksEffecting =>
    let ex1 := ex.setProc pid p'
    { ex1 with effecting := if pid ∈ ex1.effecting then ex1.effecting else ex1.effecting ++ [pid],
               queue := ex1.queue.filter (· != pid) }
  | .finishes v =>
    (ex.setProc pid { p' with result := some (.ok v) }).announce pid (.ok v)
  | .raises e =>
    -- error arm: `result = Some(Err(e)); frames.clear()`; then the `finished` branch
    (ex.setProc pid { p' with result := some (.err e) }).announce pid (.err e)
  | .finishesEmpty =>
    ex.setProc pid { p' with result := some (.err .stackUnderflow) }

/-- A process that is popped from the queue with no frames left (a failed process that was re-queued:
    by `notify_effect_completion`'s error arm, by a message / expiry while it sat in `selecting`)
    goes through the `finished` branch: its stored error is announced (again). -/
def Exec.popFinished {V} (ex : Exec V) (pid : Nat) : Exec V :=
  match ex.getProc pid with
  | some p =>
    match p.result with
    | some (.err e) => ex.announce pid (.err e)
    | _ => ex
  | none => ex

/-- `notify_effect_completion`. `none` = `Err("Process not found")` (an internal error of the worker
    step); a failed effect sets the error and clears the frames — the process is re-queued (if it was
    effecting) and announced by its next (empty) slice. -/
def Exec.notifyEffectCompletion {V} (ex : Exec V) (pid : Nat) (r : Option V) : Option (Exec V) :=
  let wasEffecting := decide (pid ∈ ex.effecting)
  let ex0 := { ex with effecting := ex.effecting.filter (· != pid) }
  match ex0.getProc pid with
  | none => none
  | some p =>
    let ex1 := match r with
      | some _ => ex0.setProc pid p   -- value pushed, counter advanced (body abstract)
      | none => ex0.setProc pid { p with result := some (.err .invalidArgument) }
    some (if wasEffecting then { ex1 with queue := ex1.queue ++ [pid] } else ex1)

/-! ## The worker around the executor -/

/-- a value on the wire with its heap: `wf = false` makes `inject_heap_data` fail -/
structure Wire (V : Type) where
  val : V
  wf : Bool := true

inductive WireRes (V : Type) where
  | ok (w : Wire V)
  | err (e : ErrClass)

/-- `Event::ProcessResults { awaiter, results }` -/
structure ProcessResults (V : Type) where
  awaiter : Nat
  results : AMap (Option (Res V))

structure Worker (V : Type) where
  ex : Exec V := {}
  /-- `awaited: HashSet<ProcessId>` -/
  awaited : List Nat := []
  /-- `awaiters_for_target: HashMap<ProcessId, Vec<ProcessId>>` -/
  awaitersFor : AMap (List Nat) := []
  /-- which implementation is mirrored (configuration: no function changes it). `{}` = HEAD;
      `selectWaitsForAnswer` = notes/C05-fixes/01 (a FAILED target is answered in the first answer) -/
  variant : Variant := {}
  /-- pids of persistent processes on this worker (configuration; the REPL process) — read by the variant
      `releaseDead` only -/
  persistent : List Nat := []

/-- internal errors `Worker::step` can return (`EnvironmentError`) -/
inductive IErr where
  | heapData | processNotFound | executor | functionNotFound | processFailed | processNotSleeping
  deriving DecidableEq, Repr

inductive Cmd (V : Type) where
  /-- `SpawnProcess` / `StartProcess` with an existing function: a new process, queued -/
  | spawn (pid : Nat) (functionExists : Bool)
  | deliver (target : Nat) (m : Wire V)
  | updateAwaitResults (awaiter : Nat) (results : AMap (Option (WireRes V)))
  | queryAndAwait (awaiter : Nat) (targets : List Nat)
  | effectCompletion (pid : Nat) (r : Option (Wire V))
  | notifySpawn (pid : Nat)
  /-- `ResumeProcess` (REPL): errors unless the process exists and sleeps; a FAILED process is left alone -/
  | resume (pid : Nat) (functionExists : Bool)

/-- `Worker::notify_result` for one `(awaited, Some(result))` entry of `update_await_results`. -/
def Worker.notifyResult {V} (w : Worker V) (awaiter awaited : Nat) : WireRes V → Except IErr (Worker V)
  | .ok wire =>
    -- `Executor::notify_result`: the still-awaiting test comes BEFORE `inject_heap_data`
    match w.ex.getProc awaiter with
    | some p =>
      if p.stillAwaiting awaited ∧ wire.wf = false then .error .heapData
      else .ok { w with ex := w.ex.notifyResultOk awaiter awaited wire.val }
    | none => .ok { w with ex := w.ex.wake awaiter }
  | .err e => .ok { w with ex := w.ex.notifyFailure awaiter awaited e }

def Worker.notifyResults {V} (w : Worker V) (awaiter : Nat) :
    AMap (Option (WireRes V)) → Bool → Except IErr (Worker V × Bool)
  | [], any => .ok (w, any)
  | (_, none) :: rest, any => w.notifyResults awaiter rest any
  | (awaited, some r) :: rest, _ =>
    match w.notifyResult awaiter awaited r with
    | .ok w' => w'.notifyResults awaiter rest true
    | .error e => .error e

/-- `update_await_results`: every included result is notified; then ANY await answer — even one
    without results, or whose only results concern a target the awaiter no longer waits for — wakes a
    parked select (`wake_selecting`; fixes c08a680: only a select, never a process waiting for a spawn
    reply, and 755cedc: always, not only when no result was included). -/
def Worker.updateAwaitResults {V} (w : Worker V) (awaiter : Nat) (results : AMap (Option (WireRes V))) :
    Except IErr (Worker V) :=
  match w.notifyResults awaiter results false with
  | .ok (w', _) => .ok { w' with ex := w'.ex.wake awaiter }
  | .error e => .error e

/-- `query_and_await` for one target: answer with the result if the target's *status* is completed,
    else register the awaiter (this includes a FAILED target: its error is reported by the
    `check_completed_processes` at the end of the same worker step). -/
def Worker.completedValue {V} (w : Worker V) (target : Nat) : Option V :=
  match w.ex.getProc target with
  | some p =>
    match w.ex.status target p, p.result with
    | .completed, some (.ok v) => some v
    | _, _ => none
  | none => none

/-- `is_completed` of `query_and_await` with the result to include. HEAD: `Completed | Sleeping` only.
    Variant `selectWaitsForAnswer`: `Failed` as well — the error belongs in this answer, not in a second
    message after a placeholder. -/
def Worker.completedResult {V} (w : Worker V) (target : Nat) : Option (Res V) :=
  match w.completedValue target with
  | some v => some (.ok v)
  | none =>
    if w.variant.selectWaitsForAnswer then
      match w.ex.getProc target with
      | some p =>
        match w.ex.status target p, p.result with
        | .failed, some (.err e) => some (.err e)
        | _, _ => none
      | none => none
    else none

def Worker.queryOne {V} (w : Worker V) (awaiter target : Nat) : Worker V × (Nat × Option (Res V)) :=
  match w.completedResult target with
  | some r => (w, (target, some r))
  | none =>
    ({ w with awaited := if target ∈ w.awaited then w.awaited else w.awaited ++ [target],
              awaitersFor := amInsert target ((amLookup target w.awaitersFor).getD [] ++ [awaiter]) w.awaitersFor },
     (target, none))

def Worker.queryAll {V} (w : Worker V) (awaiter : Nat) : List Nat → Worker V × AMap (Option (Res V))
  | [] => (w, [])
  | t :: rest =>
    let (w1, r) := w.queryOne awaiter t
    let (w2, rs) := w1.queryAll awaiter rest
    (w2, r :: rs)

/-- `query_and_await`: one `ProcessResults` event with an entry for every target -/
def Worker.queryAndAwait {V} (w : Worker V) (awaiter : Nat) (targets : List Nat) :
    Worker V × ProcessResults V :=
  let (w', rs) := w.queryAll awaiter targets
  (w', { awaiter := awaiter, results := rs })

/-- `check_completed_processes`, the awaited part: every awaited process that now has a result
    (value or error) is reported to each registered awaiter and forgotten. -/
def Worker.checkOne {V} (w : Worker V) (pid : Nat) : Worker V × List (ProcessResults V) :=
  match (w.ex.getProc pid).bind (·.result) with
  | some r =>
    let awaiters := (amLookup pid w.awaitersFor).getD []
    ({ w with awaitersFor := amRemove pid w.awaitersFor, awaited := w.awaited.filter (· != pid) },
     awaiters.map (fun a => { awaiter := a, results := [(pid, some r)] }))
  | none => (w, [])

def Worker.checkAll {V} (w : Worker V) : List Nat → Worker V × List (ProcessResults V)
  | [] => (w, [])
  | pid :: rest =>
    let (w1, evs) := w.checkOne pid
    let (w2, evs') := w1.checkAll rest
    (w2, evs ++ evs')

def Worker.checkCompleted {V} (w : Worker V) : Worker V × List (ProcessResults V) := w.checkAll w.awaited

/-- `handle_command` for the commands that concern processes. -/
def Worker.handleCommand {V} (w : Worker V) : Cmd V → Except IErr (Worker V × List (ProcessResults V))
  | .spawn pid fnOk =>
    if fnOk then .ok ({ w with ex := { (w.ex.setProc pid {}) with queue := w.ex.queue ++ [pid] } }, [])
    else .error .functionNotFound
  | .deliver target m =>
    -- `notify_message`: inject first (an error even if the target does not exist), then append, wake
    -- variant `releaseDead`: the deliverability test comes first — a message for a process that is unknown here,
    -- has failed, or has finished and is not persistent is dropped before its heap data is copied in
    if w.variant.releaseDead &&
        !(match w.ex.getProc target with
          | some p => p.deliverable (decide (target ∈ w.persistent))
          | none => false) then .ok ({ w with ex := w.ex.wake target }, [])
    else if m.wf then .ok ({ w with ex := w.ex.notifyMessage target m.val }, []) else .error .heapData
  | .updateAwaitResults awaiter results =>
    match w.updateAwaitResults awaiter results with
    | .ok w' => .ok (w', [])
    | .error e => .error e
  | .queryAndAwait awaiter targets =>
    let (w', ev) := w.queryAndAwait awaiter targets
    .ok (w', [ev])
  | .effectCompletion pid r =>
    match r with
    | some wire =>
      if wire.wf then
        match w.ex.notifyEffectCompletion pid (some wire.val) with
        | some ex' => .ok ({ w with ex := ex' }, [])
        | none => .error .executor
      else .error .executor
    | none =>
      match w.ex.notifyEffectCompletion pid none with
      | some ex' => .ok ({ w with ex := ex' }, [])
      | none => .error .executor
  | .notifySpawn pid =>
    -- `notify_spawn`: nothing happens for an unknown process
    match w.ex.getProc pid with
    | some _ =>
      let was := decide (pid ∈ w.ex.spawning)
      let ex1 := { w.ex with spawning := w.ex.spawning.filter (· != pid) }
      .ok ({ w with ex := if was then { ex1 with queue := ex1.queue ++ [pid] } else ex1 }, [])
    | none => .ok ({ w with ex := { w.ex with spawning := w.ex.spawning.filter (· != pid) } }, [])
  | .resume pid fnOk =>
    if !fnOk then .error .functionNotFound
    else match w.ex.getProc pid with
      | none => .error .processNotFound
      | some p =>
        match p.result with
        -- /repo 6b45f34: a failed process is left alone (the result request that follows reports its
        -- error); before, `Err(ProcessFailed)` left `Worker::step` and stopped the worker
        | some (.err _) => .ok (w, [])
        | some (.ok _) => .ok ({ w with ex := { (w.ex.setProc pid { p with result := none }) with queue := w.ex.queue ++ [pid] } }, [])
        | none => .error .processNotSleeping

def Worker.handleCommands {V} (w : Worker V) : List (Cmd V) → Except IErr (Worker V × List (ProcessResults V))
  | [] => .ok (w, [])
  | c :: rest =>
    match w.handleCommand c with
    | .error e => .error e
    | .ok (w1, evs) =>
      match w1.handleCommands rest with
      | .error e => .error e
      | .ok (w2, evs') => .ok (w2, evs ++ evs')

/-- What the executor's `step` did in this worker step: nothing (`queue` empty), or the slice of the
    front process. -/
inductive Slice (V : Type) where
  | idle
  | ran (p' : Proc V) (how : SliceEnd V)
  /-- the popped process had no frames left (a re-queued failed process) -/
  | ranFinished

/-- `Executor::step`: expiry check, pop the front of the queue, the slice, the bookkeeping. -/
def Exec.step {V} (ex : Exec V) (now : Nat) (slice : Slice V) : Exec V :=
  let ex1 := ex.checkExpiredTimeouts now
  match ex1.queue with
  | [] => ex1
  | pid :: rest =>
    let ex2 := { ex1 with queue := rest }
    match slice with
    | .idle => ex2
    | .ran p' how => ex2.endSlice pid p' how
    | .ranFinished => ex2.popFinished pid

/-- does the slice run the finished block of `Executor::step` (the process ends in this step)? -/
def Slice.endsProcess {V} : Slice V → Bool
  | .ranFinished => true
  | .ran _ (.finishes _) => true
  | .ran _ (.raises _) => true
  | .ran _ .finishesEmpty => true
  | _ => false

/-- Variant `releaseDead` (notes/C06-fixes/01): the finished block ends with `release_dead_roots(current_pid)` —
    whenever it runs, ALSO in the instruction-less pass of a process that was failed from outside (effect error:
    result set, frames cleared, re-queued) and is popped with no frames left. A persistent process keeps its
    mailbox and await state. `ex'` is the executor after the step, `w1` the worker before it. -/
def Worker.releaseAfterStep {V} (w1 : Worker V) (now : Nat) (slice : Slice V) (ex' : Exec V) : Exec V :=
  if w1.variant.releaseDead && slice.endsProcess then
    match (w1.ex.checkExpiredTimeouts now).queue with
    | pid :: _ => if pid ∈ w1.persistent then ex' else ex'.releaseDead pid
    | [] => ex'
  else ex'

/-- `Worker::step`: commands, one executor step, `check_completed_processes`. (`handle_action`
    only extracts and forwards — total here, see the header.) -/
def Worker.step {V} (w : Worker V) (now : Nat) (cmds : List (Cmd V)) (slice : Slice V) :
    Except IErr (Worker V × List (ProcessResults V)) :=
  match w.handleCommands cmds with
  | .error e => .error e
  | .ok (w1, evs) =>
    let w2 := { w1 with ex := w1.releaseAfterStep now slice (w1.ex.step now slice) }
    let (w3, evs') := w2.checkCompleted
    .ok (w3, evs ++ evs')

end QM.Exec
