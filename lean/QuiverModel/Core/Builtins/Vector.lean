import QuiverModel.Core.Builtins.Binary
/-
M-Builtins, packed-vector kernels — mirrors quiver-core/src/builtins/vector.rs (11 builtins).
A binary is a flat little-endian two's-complement array of `width`-byte lanes (`width ∈ {4, 8}`).
Every kernel validates the width first (`checked_width`), then flattens its binary arguments
(`Executor::materialize`, i.e. `to_vec`), then checks lengths; `none` is the nil result `[]`.
Lane values are `Int`s inside the lane range; the `i64::checked_*` operations are the unbounded
operation followed by the range test.
-/
namespace QM.Builtins
open QM.Bytes

/-- `checked_width`: only 4- and 8-byte lanes -/
def checkedWidth (w : Int) : Outcome Nat :=
  (toI64Int w).bind fun w => if w = 4 ∨ w = 8 then .ok w.toNat else .err .invalidArgument

/-- little-endian value of a byte string -/
def leNat : List UInt8 → Nat
  | [] => 0
  | b :: bs => b.toNat + 256 * leNat bs

/-- two's-complement reading of an unsigned `bits`-bit value -/
def signedOf (bits : Nat) (n : Nat) : Int :=
  if n ≥ 2 ^ (bits - 1) then (n : Int) - (2 ^ bits : Nat) else (n : Int)

/-- `lane(bytes, width, i)`: `i * width` and `off + width` are unchecked, the slice is
    bounds-checked, any other width is `unreachable!()` -/
def lane (bytes : List UInt8) (w i : Nat) : Outcome Int :=
  (umul i w).bind fun off =>
    if w ≠ 4 ∧ w ≠ 8 then .panic
    else (uadd off w).bind fun e =>
      if e ≤ bytes.length then .ok (signedOf (8 * w) (leNat ((bytes.drop off).take w))) else .panic

/-- `fits(value, width)` -/
def fits (w : Nat) (v : Int) : Bool :=
  if w = 4 then decide (-2147483648 ≤ v ∧ v ≤ 2147483647) else decide (w = 8)

/-- `n` little-endian bytes of `x` -/
def leBytes : Nat → Nat → List UInt8
  | 0, _ => []
  | n + 1, x => UInt8.ofNat (x % 256) :: leBytes n (x / 256)

/-- `push_lane`: `(value as i32).to_le_bytes()` / `value.to_le_bytes()` -/
def pushLane (w : Nat) (v : Int) : List UInt8 :=
  leBytes w (v % ((2 ^ (8 * w) : Nat) : Int)).toNat

/-- `i64::checked_add` etc.: the exact result when it is an `i64` -/
def checked (op : Int → Int → Int) (x y : Int) : Option Int :=
  if FitsI64 (op x y) then some (op x y) else none

/-- the flattened bytes of a binary argument (`Executor::materialize`) -/
def flat (r : Rope) : Outcome (List UInt8) := (materialize r).map (·.1)

/-- lanes `i, i+1, …` (`fuel` of them) of `a` and `b` combined by `op`; `none` as soon as a result
    does not fit the lane -/
def elementwiseLoop (op : Int → Int → Option Int) (a b : List UInt8) (w : Nat) :
    Nat → Nat → Outcome (Option (List UInt8))
  | 0, _ => .ok (some [])
  | fuel + 1, i =>
    (lane a w i).bind fun x => (lane b w i).bind fun y =>
      match (op x y).filter (fits w) with
      | none => .ok none
      | some v => (elementwiseLoop op a b w fuel (i + 1)).map (Option.map (pushLane w v ++ ·))

def elementwise (op : Int → Int → Option Int) (a b : Rope) (width : Int) : Outcome (Option Rope) :=
  (checkedWidth width).bind fun w => (flat a).bind fun av => (flat b).bind fun bv =>
    if av.length ≠ bv.length ∨ av.length % w ≠ 0 then .ok none
    else (elementwiseLoop op av bv w (av.length / w) 0).bind fun
      | none => .ok none
      | some out => (alloc out).map some

def vectorAdd := elementwise (checked (· + ·))
def vectorSubtract := elementwise (checked (· - ·))
def vectorMultiply := elementwise (checked (· * ·))

def compareLoop (pred : Int → Int → Bool) (a b : List UInt8) (w : Nat) : Nat → Nat → Outcome (List UInt8)
  | 0, _ => .ok []
  | fuel + 1, i =>
    (lane a w i).bind fun x => (lane b w i).bind fun y =>
      (compareLoop pred a b w fuel (i + 1)).map ((if pred x y then (1 : UInt8) else 0) :: ·)

def compare (pred : Int → Int → Bool) (a b : Rope) (width : Int) : Outcome (Option Rope) :=
  (checkedWidth width).bind fun w => (flat a).bind fun av => (flat b).bind fun bv =>
    if av.length ≠ bv.length ∨ av.length % w ≠ 0 then .ok none
    else (compareLoop pred av bv w (av.length / w) 0).bind fun out => (alloc out).map some

def vectorLessThan := compare (fun x y => decide (x < y))
def vectorEqual := compare (fun x y => decide (x = y))
def vectorGreaterThan := compare (fun x y => decide (x > y))

/-- `for (i, &selected) in mask.iter().enumerate()`: `data[i * width..(i + 1) * width]` -/
def takeLoop (data : List UInt8) (w : Nat) : List UInt8 → Nat → Outcome (List UInt8)
  | [], _ => .ok []
  | sel :: rest, i =>
    if sel ≠ 0 then
      (umul i w).bind fun s => (umul (i + 1) w).bind fun e =>
        if s ≤ e ∧ e ≤ data.length then (takeLoop data w rest (i + 1)).map ((data.drop s).take (e - s) ++ ·)
        else .panic
    else takeLoop data w rest (i + 1)

def vectorTake (data : Rope) (width : Int) (mask : Rope) : Outcome (Option Rope) :=
  (checkedWidth width).bind fun w => (flat data).bind fun dv => (flat mask).bind fun mv =>
    if dv.length % w ≠ 0 ∨ mv.length ≠ dv.length / w then .ok none
    else (takeLoop dv w mv 0).bind fun out => (alloc out).map some

/-- `vector_get`: nil for a negative / out-of-range index or a ragged buffer:
    `i.saturating_add(1).saturating_mul(width) <= bytes.len()` -/
def vectorGet (r : Rope) (width index : Int) : Outcome (Option Int) :=
  (checkedWidth width).bind fun w => (flat r).bind fun bytes =>
    if 0 ≤ index ∧ index < 18446744073709551616 then       -- `index.try_into().ok()` to `usize`
      let i := index.toNat
      if bytes.length % w = 0 ∧ satMul (satAdd i 1) w ≤ bytes.length then (lane bytes w i).map some
      else .ok none
    else .ok none

/-- `vector_push`: nil when the value does not fit the lane or the buffer is ragged -/
def vectorPush (r : Rope) (width value : Int) : Outcome (Option Rope) :=
  (checkedWidth width).bind fun w =>
    if FitsI64 value ∧ fits w value then                    -- `value.try_into().ok().filter(fits)`
      let oldLen := r.len
      if oldLen % w ≠ 0 then .ok none
      else
        let laneRope := Rope.owned (pushLane w value)
        let appended : Outcome Rope := if oldLen = 0 then .ok laneRope else Rope.mkConcat r laneRope
        appended.bind fun a => (allocData a).map some
    else .ok none

def sumLoop (bytes : List UInt8) (w : Nat) : Nat → Nat → Int → Outcome Int
  | 0, _, acc => .ok acc
  | fuel + 1, i, acc => (lane bytes w i).bind fun x => sumLoop bytes w fuel (i + 1) (acc + x)

def vectorSum (r : Rope) (width : Int) : Outcome (Option Int) :=
  (checkedWidth width).bind fun w => (flat r).bind fun bytes =>
    if bytes.length % w ≠ 0 then .ok none
    else (sumLoop bytes w (bytes.length / w) 0 0).map some

def dotLoop (a b : List UInt8) (w : Nat) : Nat → Nat → Int → Outcome Int
  | 0, _, acc => .ok acc
  | fuel + 1, i, acc =>
    (lane a w i).bind fun x => (lane b w i).bind fun y => dotLoop a b w fuel (i + 1) (acc + x * y)

def vectorDot (a b : Rope) (width : Int) : Outcome (Option Int) :=
  (checkedWidth width).bind fun w => (flat a).bind fun av => (flat b).bind fun bv =>
    if av.length ≠ bv.length ∨ av.length % w ≠ 0 then .ok none
    else (dotLoop av bv w (av.length / w) 0 0).map some

end QM.Builtins
