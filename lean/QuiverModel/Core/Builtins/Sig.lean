/-
Shape of the builtin signature table regenerated from the live registry
(`Generated/BuiltinSigs.lean`, written by `harness/src/bin/gen_builtins.rs` on every run) and the
model's own view of each builtin's signature. Owner: C12 (C01 may import `TSpec`/`builtinSigs`).
-/
namespace QM.Builtins

/-- `quiver_core::builtins::TypeSpec` -/
inductive TSpec where
  | integer
  | binary
  | reference
  | tuple (name : Option String) (fields : List (Option String × TSpec))
  | union (variants : List TSpec)
  | process
  | resource (name : String)
  deriving Repr, Inhabited

mutual
/-- structural equality test (kernel-reducible, so that `decide` can compare regenerated tables) -/
def TSpec.beq : TSpec → TSpec → Bool
  | .integer, .integer => true
  | .binary, .binary => true
  | .reference, .reference => true
  | .process, .process => true
  | .resource a, .resource b => a == b
  | .tuple n fs, .tuple m gs => n == m && TSpec.beqFields fs gs
  | .union vs, .union ws => TSpec.beqList vs ws
  | _, _ => false
def TSpec.beqFields : List (Option String × TSpec) → List (Option String × TSpec) → Bool
  | [], [] => true
  | (n, t) :: fs, (m, u) :: gs => n == m && TSpec.beq t u && TSpec.beqFields fs gs
  | _, _ => false
def TSpec.beqList : List TSpec → List TSpec → Bool
  | [], [] => true
  | t :: ts, u :: us => TSpec.beq t u && TSpec.beqList ts us
  | _, _ => false
end

namespace TSpec
def nil : TSpec := .tuple none []
/-- unnamed tuple of unnamed fields -/
def tup (fs : List TSpec) : TSpec := .tuple none (fs.map fun f => (none, f))
end TSpec

/-- result kinds of the modelled pure builtins -/
inductive RKind where
  | int | bin | intOrNil | binOrNil
  deriving DecidableEq, Repr

def RKind.toTSpec : RKind → TSpec
  | .int => .integer
  | .bin => .binary
  | .intOrNil => .union [.integer, .nil]
  | .binOrNil => .union [.binary, .nil]

/-- argument shapes of the modelled pure builtins -/
inductive PKind where
  | i | ii | b | bb | bi | bii | biii | biiii | bbi | bib
  deriving DecidableEq, Repr

def PKind.toTSpec : PKind → TSpec
  | .i => .integer
  | .ii => .tup [.integer, .integer]
  | .b => .binary
  | .bb => .tup [.binary, .binary]
  | .bi => .tup [.binary, .integer]
  | .bii => .tup [.binary, .integer, .integer]
  | .biii => .tup [.binary, .integer, .integer, .integer]
  | .biiii => .tup [.binary, .integer, .integer, .integer, .integer]
  | .bbi => .tup [.binary, .binary, .integer]
  | .bib => .tup [.binary, .integer, .binary]

/-- The signature the *model* gives each builtin: the argument extractor and the result wrapper
    used by `callBuiltin` (theorems `C12.result_inhabits_kind`, `C12.well_typed_not_mismatch`). -/
def modelSig : String → Option (PKind × RKind)
  | "integer_abs" | "integer_sqrt" | "integer_not" | "integer_popcount" => some (.i, .int)
  | "integer_add" | "integer_subtract" | "integer_multiply" | "integer_divide" | "integer_modulo"
  | "integer_gcd" | "integer_compare" | "integer_and" | "integer_or" | "integer_xor"
  | "integer_shift" => some (.ii, .int)
  | "binary_new" => some (.i, .bin)
  | "binary_length" | "binary_popcount" | "binary_hash32" | "binary_hash64" => some (.b, .int)
  | "binary_concat" | "binary_and" | "binary_or" | "binary_xor" => some (.bb, .bin)
  | "binary_repeat" | "binary_shift" => some (.bi, .bin)
  | "binary_not" => some (.b, .bin)
  | "binary_get" => some (.biii, .int)
  | "binary_set" => some (.biiii, .bin)
  | "binary_slice" | "binary_append" => some (.bii, .bin)
  | "binary_index" => some (.bii, .intOrNil)
  | "vector_add" | "vector_subtract" | "vector_multiply" | "vector_less_than" | "vector_equal"
  | "vector_greater_than" => some (.bbi, .binOrNil)
  | "vector_dot" => some (.bbi, .intOrNil)
  | "vector_take" => some (.bib, .binOrNil)
  | "vector_get" => some (.bii, .intOrNil)
  | "vector_push" => some (.bii, .binOrNil)
  | "vector_sum" => some (.bi, .intOrNil)
  | _ => none

end QM.Builtins
