import QuiverModel.Core.Builtins.Vector
/-
M-BuiltinSpec — plain reference models of the binary and vector builtins: flat byte strings
(`List UInt8`), unbounded integers, no machine words, no rope, no `panic`. Each is
`if <documented domain> then ok <value> else err InvalidArgument`. The theorems `C12.*_refines`
state that the branch-by-branch models of `Binary.lean` / `Vector.lean` compute exactly these on
every stored rope of that content.
-/
namespace QM.Builtins.Spec
open QM.Bytes

/-- big-endian value of a byte string -/
def beNat : List UInt8 → Nat
  | [] => 0
  | b :: bs => b.toNat * 256 ^ bs.length + beNat bs

def binaryNew (size : Int) : Outcome (List UInt8) :=
  if 0 ≤ size ∧ size ≤ 16777216 then .ok (List.replicate size.toNat 0) else .err .invalidArgument

def binaryConcat (a b : List UInt8) : Outcome (List UInt8) :=
  if a.length + b.length ≤ 16777216 then .ok (a ++ b) else .err .invalidArgument

def binaryRepeat (v : List UInt8) (count : Int) : Outcome (List UInt8) :=
  if 0 ≤ count ∧ count < 18446744073709551616 ∧ v.length * count.toNat ≤ 16777216 then
    .ok (Rope.tile v count.toNat)
  else .err .invalidArgument

def binaryAnd (a b : List UInt8) : List UInt8 := List.zipWith (· &&& ·) a b

/-- the longer length; the shorter operand is padded with zero bytes -/
def padZip (f : UInt8 → UInt8 → UInt8) (a b : List UInt8) : List UInt8 :=
  (List.range (max a.length b.length)).map fun i => f (a.getD i 0) (b.getD i 0)

def binaryIndex (v : List UInt8) (byte off : Int) : Outcome (Option Nat) :=
  if 0 ≤ byte ∧ byte ≤ 255 ∧ 0 ≤ off ∧ off < 18446744073709551616 then
    .ok (Rope.findFrom v (UInt8.ofNat byte.toNat) off.toNat)
  else .err .invalidArgument

/-- logical shift of the whole string read as one big-endian number of `8 * length` bits:
    positive = left (bits leaving at the top are dropped), negative = right -/
def shiftValue (v : List UInt8) (amt : Int) : Nat :=
  if amt ≥ 0 then (beNat v * 2 ^ amt.toNat) % 2 ^ (8 * v.length) else beNat v / 2 ^ (-amt).toNat

/-- `binary_shift` on flat bytes: whole bytes are moved by `bits / 8`, the remaining `bits % 8`
    by the carry chains `shlBits` / `shrBits`; vacated positions are zero. Its numeric meaning is
    `shiftValue` (theorem `C12.binary_shift_value`). -/
def shiftBytes (v : List UInt8) (amt : Int) : List UInt8 :=
  let n := v.length
  let bits := amt.natAbs
  if amt = 0 then v
  else if bits ≥ 8 * n then List.replicate n 0
  else
    let bs := bits / 8
    let k := bits % 8
    if amt > 0 then (if k = 0 then v.drop bs else (shlBits k (v.drop bs)).1) ++ List.replicate bs 0
    else List.replicate bs 0 ++ (if k = 0 then v.take (n - bs) else shrBits k (v.take (n - bs)) 0)

def binaryShift (v : List UInt8) (amt : Int) : Outcome (List UInt8) :=
  if FitsI64 amt then .ok (shiftBytes v amt) else .err .invalidArgument

def popcount (v : List UInt8) : Nat := (v.map fun b => popcountNat 8 b.toNat).sum

/-- the bit window `[8*bo + bi, 8*bo + bi + nb)` lies inside a string of `n` bytes -/
def InWindow (n : Nat) (bo bi nb : Int) : Prop :=
  0 ≤ bo ∧ 0 ≤ bi ∧ bi ≤ 7 ∧ 1 ≤ nb ∧ nb ≤ 64 ∧ 8 * bo + bi + nb ≤ 8 * (n : Int)

instance (n : Nat) (bo bi nb : Int) : Decidable (InWindow n bo bi nb) := by
  unfold InWindow; exact inferInstance

/-- number of bits to the right of the window -/
def bitsRight (n : Nat) (bo bi nb : Int) : Nat := 8 * n - (8 * bo + bi + nb).toNat

/-- `binary_get`: the `nb`-bit big-endian field starting `bi` bits into byte `bo` -/
def binaryGet (v : List UInt8) (bo bi nb : Int) : Outcome Int :=
  if InWindow v.length bo bi nb then
    .ok (Int.ofNat ((beNat v / 2 ^ bitsRight v.length bo bi nb) % 2 ^ nb.toNat))
  else .err .invalidArgument

/-- the value a `binary_set` result must denote: the old number with the field replaced -/
def setValue (v : List UInt8) (bo bi value nb : Int) : Nat :=
  let sh := bitsRight v.length bo bi nb
  let old := (beNat v / 2 ^ sh) % 2 ^ nb.toNat
  beNat v - old * 2 ^ sh + value.toNat * 2 ^ sh

/-- domain of `binary_set`: a window inside the string and a value of at most `nb` bits that is
    also an `i64` (fields of 64 bits accept values below 2^63 only) -/
def SetDomain (n : Nat) (bo bi value nb : Int) : Prop :=
  InWindow n bo bi nb ∧ 0 ≤ value ∧ value.toNat < 2 ^ nb.toNat ∧ value ≤ 9223372036854775807

instance (n : Nat) (bo bi value nb : Int) : Decidable (SetDomain n bo bi value nb) := by
  unfold SetDomain; exact inferInstance

/-- `binary_set` on flat bytes: the (at most 9) bytes touched by the window are read as one
    number, the window is cleared and the value put in, and the bytes are written back. Its numeric
    meaning is `setValue`. -/
def setBytes (v : List UInt8) (bo bi value nb : Nat) : List UInt8 :=
  let last := (8 * bo + bi + nb + 7) / 8
  let cnt := last - bo
  let ba := cnt * 8 - bi - nb
  let cur := beNat ((v.drop bo).take cnt)
  let W : Nat := 340282366920938463463374607431768211456
  let newValue := (cur &&& (W - 1 - ((2 ^ nb - 1) * 2 ^ ba) % W)) ||| ((value * 2 ^ ba) % W)
  v.take bo ++ beBytes cnt newValue ++ v.drop last

def binarySet (v : List UInt8) (bo bi value nb : Int) : Outcome (List UInt8) :=
  if SetDomain v.length bo bi value nb then .ok (setBytes v bo.toNat bi.toNat value.toNat nb.toNat)
  else .err .invalidArgument

def binarySlice (v : List UInt8) (start stop : Int) : Outcome (List UInt8) :=
  if 0 ≤ start ∧ start ≤ stop ∧ stop ≤ v.length then
    .ok ((v.drop start.toNat).take (stop.toNat - start.toNat))
  else .err .invalidArgument

def AppendDomain (n : Nat) (value nb : Int) : Prop :=
  1 ≤ nb ∧ nb ≤ 8 ∧ 0 ≤ value ∧ value ≤ 9223372036854775807 ∧ value.toNat < 2 ^ (8 * nb.toNat) ∧
    (n : Int) + nb ≤ 16777216

instance (n : Nat) (value nb : Int) : Decidable (AppendDomain n value nb) := by
  unfold AppendDomain; exact inferInstance

/-- `binary_append` on its documented domain appends the `nb` big-endian bytes of the value -/
def binaryAppend (v : List UInt8) (value nb : Int) : Outcome (List UInt8) :=
  if AppendDomain v.length value nb then .ok (v ++ beBytes nb.toNat value.toNat) else .err .invalidArgument

/-! ### packed vectors: little-endian two's-complement lanes -/

/-- lane `i` of a packed vector with `w`-byte lanes -/
def laneAt (w : Nat) (v : List UInt8) (i : Nat) : Int :=
  signedOf (8 * w) (leNat ((v.drop (i * w)).take w))

/-- all lanes -/
def lanes (w : Nat) (v : List UInt8) : List Int := (List.range (v.length / w)).map (laneAt w v)

/-- the value fits a signed lane of `w` bytes -/
def LaneOK (w : Nat) (x : Int) : Prop := -(2 ^ (8 * w - 1) : Int) ≤ x ∧ x < (2 ^ (8 * w - 1) : Int)

instance (w : Nat) (x : Int) : Decidable (LaneOK w x) := by unfold LaneOK; exact inferInstance

def encode (w : Nat) (xs : List Int) : List UInt8 := xs.flatMap (pushLane w)

def WidthOK (w : Int) : Prop := w = 4 ∨ w = 8
instance (w : Int) : Decidable (WidthOK w) := by unfold WidthOK; exact inferInstance

/-- two buffers of the same whole number of lanes -/
def Aligned (w : Nat) (a b : List UInt8) : Prop := a.length = b.length ∧ a.length % w = 0
instance (w : Nat) (a b : List UInt8) : Decidable (Aligned w a b) := by unfold Aligned; exact inferInstance

/-- `vector_add/subtract/multiply`: the exact lane-wise result when every lane fits, else nil -/
def elementwise (op : Int → Int → Int) (a b : List UInt8) (width : Int) : Outcome (Option (List UInt8)) :=
  if WidthOK width then
    let w := width.toNat
    if Aligned w a b then
      let zs := List.zipWith op (lanes w a) (lanes w b)
      if ∀ z ∈ zs, LaneOK w z then .ok (some (encode w zs)) else .ok none
    else .ok none
  else .err .invalidArgument

/-- `vector_less_than/equal/greater_than`: one mask byte (1/0) per lane -/
def compare (pred : Int → Int → Bool) (a b : List UInt8) (width : Int) : Outcome (Option (List UInt8)) :=
  if WidthOK width then
    let w := width.toNat
    if Aligned w a b then
      .ok (some (List.zipWith (fun x y => if pred x y then (1 : UInt8) else 0) (lanes w a) (lanes w b)))
    else .ok none
  else .err .invalidArgument

/-- walk the mask and the data in lockstep, keeping the `w`-byte lanes whose mask byte is non-zero -/
def takeChunks (w : Nat) : List UInt8 → List UInt8 → List UInt8
  | [], _ => []
  | m :: ms, d => (if m ≠ 0 then d.take w else []) ++ takeChunks w ms (d.drop w)

/-- `vector_take`: the lanes whose mask byte is non-zero, in order -/
def vectorTake (data : List UInt8) (width : Int) (mask : List UInt8) : Outcome (Option (List UInt8)) :=
  if WidthOK width then
    let w := width.toNat
    if data.length % w = 0 ∧ mask.length = data.length / w then .ok (some (takeChunks w mask data))
    else .ok none
  else .err .invalidArgument

def vectorGet (v : List UInt8) (width index : Int) : Outcome (Option Int) :=
  if WidthOK width then
    let w := width.toNat
    if 0 ≤ index ∧ v.length % w = 0 ∧ index < (v.length / w : Nat) then .ok (some (laneAt w v index.toNat))
    else .ok none
  else .err .invalidArgument

def vectorPush (v : List UInt8) (width value : Int) : Outcome (Option (List UInt8)) :=
  if WidthOK width then
    let w := width.toNat
    if LaneOK w value ∧ v.length % w = 0 then
      if v.length + w ≤ 16777216 then .ok (some (v ++ pushLane w value)) else .err .invalidArgument
    else .ok none
  else .err .invalidArgument

def vectorSum (v : List UInt8) (width : Int) : Outcome (Option Int) :=
  if WidthOK width then
    let w := width.toNat
    if v.length % w = 0 then .ok (some (lanes w v).sum) else .ok none
  else .err .invalidArgument

def vectorDot (a b : List UInt8) (width : Int) : Outcome (Option Int) :=
  if WidthOK width then
    let w := width.toNat
    if Aligned w a b then .ok (some (List.zipWith (· * ·) (lanes w a) (lanes w b)).sum) else .ok none
  else .err .invalidArgument

end QM.Builtins.Spec
