import QuiverModel.Core.Outcome
/-
M-Builtins, integer family — mirrors quiver-core/src/builtins/integer.rs and the narrowing helper
`bigint_to_i64` of builtins/mod.rs. Arbitrary-precision operations work on `Int` (num-bigint is
assumed exact: `/` and `%` truncate toward zero = `Int.tdiv` / `Int.tmod`; `gcd` is non-negative;
`sqrt` is the floor square root). The bitwise family narrows to `i64` first and works on
`BitVec 64`, which *is* the documented semantics (two's-complement machine words).
`integer_sin` / `integer_cos` go through `f64` and are not modelled (DESIGN §7).
-/
namespace QM.Builtins

def i64Min : Int := -9223372036854775808
def i64Max : Int := 9223372036854775807

/-- the integer is representable as an `i64` -/
def FitsI64 (z : Int) : Prop := -9223372036854775808 ≤ z ∧ z ≤ 9223372036854775807

instance (z : Int) : Decidable (FitsI64 z) := by unfold FitsI64; exact inferInstance

/-- `bigint_to_i64`: error `InvalidArgument` when the integer does not fit. -/
def toI64 (z : Int) : Outcome (BitVec 64) :=
  if FitsI64 z then .ok (BitVec.ofInt 64 z) else .err .invalidArgument

def integerAbs (n : Int) : Outcome Int := .ok (Int.ofNat n.natAbs)

def integerSqrt (n : Int) : Outcome Int :=
  if n < 0 then .err .invalidArgument else .ok (Int.ofNat (Nat.sqrt n.toNat))

def integerAdd (a b : Int) : Outcome Int := .ok (a + b)
def integerSubtract (a b : Int) : Outcome Int := .ok (a - b)
def integerMultiply (a b : Int) : Outcome Int := .ok (a * b)

def integerDivide (a b : Int) : Outcome Int :=
  if b = 0 then .err .invalidArgument else .ok (Int.tdiv a b)

def integerModulo (a b : Int) : Outcome Int :=
  if b = 0 then .err .invalidArgument else .ok (Int.tmod a b)

def integerGcd (a b : Int) : Outcome Int := .ok (Int.ofNat (Int.gcd a b))

def integerCompare (a b : Int) : Outcome Int :=
  .ok (if a < b then -1 else if a > b then 1 else 0)

/-- `extract_two_integers`: first operand narrowed first, then the second. -/
def two64 (a b : Int) : Outcome (BitVec 64 × BitVec 64) :=
  match toI64 a with
  | .ok x => match toI64 b with
    | .ok y => .ok (x, y)
    | .err e => .err e
    | .panic => .panic
  | .err e => .err e
  | .panic => .panic

def integerAnd (a b : Int) : Outcome Int := (two64 a b).map (fun (x, y) => (x &&& y).toInt)
def integerOr (a b : Int) : Outcome Int := (two64 a b).map (fun (x, y) => (x ||| y).toInt)
def integerXor (a b : Int) : Outcome Int := (two64 a b).map (fun (x, y) => (x ^^^ y).toInt)
def integerNot (a : Int) : Outcome Int := (toI64 a).map (fun x => (~~~ x).toInt)

/-- `builtin_integer_shift`: positive = left, negative = arithmetic right; |amount| ≥ 64 clamps. -/
def integerShift (value amount : Int) : Outcome Int :=
  match two64 value amount with
  | .err e => .err e
  | .panic => .panic
  | .ok (v, _) =>
    if amount = 0 then .ok v.toInt
    else
      let absAmt : Nat := amount.natAbs   -- `unsigned_abs()` as u64 (exact, also for i64::MIN)
      if absAmt ≥ 64 then
        if amount > 0 then .ok 0
        else .ok (if v.toInt ≥ 0 then 0 else -1)
      else if amount > 0 then .ok (v <<< absAmt).toInt
      else .ok (v.sshiftRight absAmt).toInt

def popcountNat : Nat → Nat → Nat
  | 0, _ => 0
  | fuel + 1, n => if n = 0 then 0 else (n % 2) + popcountNat fuel (n / 2)

/-- number of one bits of a 64-bit word -/
def popcount64 (x : BitVec 64) : Nat := popcountNat 64 x.toNat

def integerPopcount (a : Int) : Outcome Int := (toI64 a).map (fun x => Int.ofNat (popcount64 x))

end QM.Builtins
