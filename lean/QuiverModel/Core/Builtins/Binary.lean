import QuiverModel.Core.Bytes
import QuiverModel.Core.Builtins.Integer
/-
M-Builtins, binary family — mirrors quiver-core/src/builtins/binary.rs (17 builtins), the narrowing
helpers `bigint_to_i64/usize/u8` of builtins/mod.rs and `allocate_binary_data` / `allocate_binary`
of executor.rs (the MAX_BINARY_SIZE limit). Same order of checks, same error class. Arguments are
already destructured (the tuple-shape / TypeMismatch layer is `Dispatch.lean`); a binary argument
is the rope stored in the heap slot (`executor.get_binary_data`).

Machine arithmetic: `usize`/`u64` products and sums that are unchecked in the source go through
`uadd/umul/usub` (outcome `panic` on overflow); `u128`/`u64` shifts and masks are written as the
`Nat` arithmetic they denote, with the truncations (`as u64`, `<<` dropping high bits) explicit.
-/
namespace QM.Builtins
open QM.Bytes

/-- `bigint_to_usize`: `InvalidArgument` when negative or ≥ 2^64 -/
def toUsize (z : Int) : Outcome Nat :=
  if 0 ≤ z ∧ z < 18446744073709551616 then .ok z.toNat else .err .invalidArgument

/-- `bigint_to_u8` -/
def toU8 (z : Int) : Outcome UInt8 :=
  if 0 ≤ z ∧ z ≤ 255 then .ok (UInt8.ofNat z.toNat) else .err .invalidArgument

/-- `bigint_to_i64`, keeping the value as an `Int` (in range) -/
def toI64Int (z : Int) : Outcome Int := if FitsI64 z then .ok z else .err .invalidArgument

/-- `Executor::allocate_binary_data`: the size limit is enforced here, on `data.len()` -/
def allocData (r : Rope) : Outcome Rope :=
  if r.len > MAX_BINARY then .err .invalidArgument else .ok r

/-- `Executor::allocate_binary` -/
def alloc (bs : List UInt8) : Outcome Rope := allocData (.owned bs)

/-- `Executor::materialize`: the bytes, and the slot content afterwards (flattened in place). -/
def materialize (r : Rope) : Outcome (List UInt8 × Rope) :=
  match r with
  | .owned bs => .ok (bs, .owned bs)
  | r => r.toVec.bind fun v => .ok (v, .owned v)

def mapMO {α β : Type} (g : α → Outcome β) : List α → Outcome (List β)
  | [] => .ok []
  | x :: xs => (g x).bind fun y => (mapMO g xs).bind fun ys => .ok (y :: ys)

/-! ### construction -/

def binaryRepeat (r : Rope) (count : Int) : Outcome Rope :=
  if count < 0 then .err .invalidArgument
  else (toUsize count).bind fun c => allocData (Rope.mkTiled r c)

def binaryNew (size : Int) : Outcome Rope :=
  if size < 0 then .err .invalidArgument
  else (toUsize size).bind fun n =>
    if n > MAX_BINARY then .err .invalidArgument else allocData (.zeroed n)

def binaryLength (r : Rope) : Outcome Int := .ok (Int.ofNat r.len)

def binaryConcat (a b : Rope) : Outcome Rope :=
  (uadd a.len b.len).bind fun total =>            -- `binary_data_a.len() + binary_data_b.len()`
    if total > MAX_BINARY then .err .invalidArgument
    else (Rope.mkConcat a b).bind allocData

/-! ### bytewise logic -/

/-- `a.iter().zip(b.iter()).map(|(a, b)| a & b)`: the shorter length -/
def binaryAnd (a b : Rope) : Outcome Rope :=
  a.iter.bind fun av => b.iter.bind fun bv => alloc (List.zipWith (· &&& ·) av bv)

/-- `if i < len { byte_at(i).unwrap() } else { 0 }` -/
def byteOrZero (r : Rope) (i : Nat) : Outcome UInt8 :=
  if i < r.len then
    match r.byteAt i with
    | .ok (some b) => .ok b
    | .ok none => .panic                             -- `unwrap()` on `None`
    | .err e => .err e
    | .panic => .panic
  else .ok 0

/-- the longer length, the shorter operand padded with zeros -/
def padZip (f : UInt8 → UInt8 → UInt8) (a b : Rope) : Outcome Rope :=
  (mapMO (fun i => (byteOrZero a i).bind fun x => (byteOrZero b i).bind fun y => .ok (f x y))
    (List.range (max a.len b.len))).bind alloc

def binaryOr (a b : Rope) : Outcome Rope := padZip (· ||| ·) a b
def binaryXor (a b : Rope) : Outcome Rope := padZip (· ^^^ ·) a b

def binaryNot (r : Rope) : Outcome Rope := r.iter.bind fun v => alloc (v.map (~~~ ·))

/-- `binary_index([bin, byte, offset])` — `none` is nil -/
def binaryIndex (r : Rope) (byte off : Int) : Outcome (Option Nat) :=
  (toU8 byte).bind fun b =>
    if off < 0 then .err .invalidArgument
    else (toUsize off).bind fun o => r.findByte b o

/-! ### shift -/

/-- bit-level left shift of a byte string by `k ∈ 1..7`, processed from the last byte with the
    carry handed to the byte on its left; returns the bytes and the carry out -/
def shlBits (k : Nat) : List UInt8 → List UInt8 × UInt8
  | [] => ([], 0)
  | x :: xs =>
    let (ys, c) := shlBits k xs
    ((x <<< k.toUInt8 ||| c) :: ys, x >>> (8 - k).toUInt8)

/-- bit-level right shift by `k ∈ 1..7`, processed from the first byte, carry to the right -/
def shrBits (k : Nat) : List UInt8 → UInt8 → List UInt8
  | [], _ => []
  | x :: xs, c => (x >>> k.toUInt8 ||| c) :: shrBits k xs (x <<< (8 - k).toUInt8)

def binaryShift (r : Rope) (amount : Int) : Outcome Rope :=
  (toI64Int amount).bind fun amt =>
    if amt = 0 then .ok r                             -- the same binary is returned
    else r.toVec.bind fun bytes =>
      let n := bytes.length
      let bits := amt.natAbs                          -- `unsigned_abs()`, a u64 (no truncation)
      (umul n 8).bind fun totalBits =>                -- `bytes.len() as u64 * 8`
        if bits ≥ totalBits then alloc (List.replicate n 0)
        else
          let byteShift := bits / 8
          let bitShift := bits % 8
          if amt > 0 then
            -- bytes `i` with `i + byte_shift < len` take from `i + byte_shift`, the rest stay 0
            if bitShift = 0 then alloc (bytes.drop byteShift ++ List.replicate (min byteShift n) 0)
            else alloc ((shlBits bitShift (bytes.drop byteShift)).1 ++ List.replicate (min byteShift n) 0)
          else if bitShift = 0 then
            -- `result[byte_shift..len].copy_from_slice(&bytes[..len - byte_shift])`
            (usub n byteShift).bind fun keep => alloc (List.replicate byteShift 0 ++ bytes.take keep)
          else
            -- bytes `i ≥ byte_shift` take from `i - byte_shift`
            alloc (List.replicate (min byteShift n) 0 ++ shrBits bitShift (bytes.take (n - byteShift)) 0)

/-! ### popcount, bit windows -/

def binaryPopcount (r : Rope) : Outcome Int :=
  r.iter.bind fun v =>
    let total := (v.map fun b => popcountNat 8 b.toNat).sum
    if total < 18446744073709551616 then .ok (Int.ofNat total) else .panic   -- `u64` sum

/-- `byte_offset.checked_mul(8).and_then(|s| s.checked_add(bit_offset + num_bits))
      .map(|e| e.div_ceil(8)).unwrap_or(usize::MAX)` -/
def lastByteNeeded (byteOff bitOff numBits : Nat) : Nat :=
  if byteOff * 8 < USIZE_LIMIT then
    if byteOff * 8 + (bitOff + numBits) < USIZE_LIMIT then (byteOff * 8 + (bitOff + numBits) + 7) / 8
    else 18446744073709551615
  else 18446744073709551615

/-- `wide = (wide << 8) | byte_at(byte_offset + i).unwrap()` for `i` in `0..count`, in `u128` -/
def readWide (r : Rope) (byteOff : Nat) : Nat → Nat → Nat → Outcome Nat
  | 0, _, wide => .ok wide
  | fuel + 1, i, wide =>
    (uadd byteOff i).bind fun j =>
      match r.byteAt j with
      | .ok (some b) =>
        readWide r byteOff fuel (i + 1) ((wide * 256) % 340282366920938463463374607431768211456 + b.toNat)
      | .ok none => .panic
      | .err e => .err e
      | .panic => .panic

/-- the three range checks shared by `binary_get` and `binary_set`, in source order -/
def windowArgs (byteOff bitOff numBits : Int) : Outcome (Nat × Nat × Nat) :=
  (toI64Int byteOff).bind fun bo => (toI64Int bitOff).bind fun bi => (toI64Int numBits).bind fun nb =>
    if bo < 0 then .err .invalidArgument
    else if ¬ (0 ≤ bi ∧ bi ≤ 7) then .err .invalidArgument
    else if ¬ (1 ≤ nb ∧ nb ≤ 64) then .err .invalidArgument
    else .ok (bo.toNat, bi.toNat, nb.toNat)

def binaryGet (r : Rope) (byteOff bitOff numBits : Int) : Outcome Int :=
  (windowArgs byteOff bitOff numBits).bind fun (bo, bi, nb) =>
    let last := lastByteNeeded bo bi nb
    if last > r.len then .err .invalidArgument
    else
      (usub last bo).bind fun cnt =>                  -- `last_byte_needed - byte_offset`
      (readWide r bo cnt 0 0).bind fun wide =>
      (umul cnt 8).bind fun bitsRead =>
      (usub bitsRead bi).bind fun t => (usub t nb).bind fun bitsAfter =>
        if bitsAfter ≥ 128 then .panic                -- `wide >> bits_after` (u128)
        else
          let value := (wide / 2 ^ bitsAfter) % 18446744073709551616    -- `as u64`
          .ok (Int.ofNat (value % 2 ^ nb))            -- `value &= (1 << num_bits) - 1` (all ones for 64)

/-- big-endian bytes of `x`: `for i in (0..n).rev() { ((x >> (i * 8)) & 0xFF) as u8 }` -/
def beBytes : Nat → Nat → List UInt8
  | 0, _ => []
  | n + 1, x => UInt8.ofNat ((x / 2 ^ (n * 8)) % 256) :: beBytes n x

def binarySet (r : Rope) (byteOff bitOff value numBits : Int) : Outcome Rope :=
  (windowArgs byteOff bitOff numBits).bind fun (bo, bi, nb) =>
    let len := r.len
    let last := lastByteNeeded bo bi nb
    if last > len then .err .invalidArgument
    else
      let maxValue : Nat := 2 ^ nb - 1
      (toI64Int value).bind fun v =>
      if v < 0 ∨ v.toNat > maxValue then .err .invalidArgument
      else
        let v := v.toNat
        (usub last bo).bind fun cnt =>
        (readWide r bo cnt 0 0).bind fun current =>   -- push the bytes, then fold them into a u128
        (umul cnt 8).bind fun bitsIn =>
        (usub bitsIn bi).bind fun t => (usub t nb).bind fun bitsAfter =>
          if bitsAfter ≥ 128 then .panic
          else
            let W : Nat := 340282366920938463463374607431768211456
            let shifted := (v * 2 ^ bitsAfter) % W
            let field := (maxValue * 2 ^ bitsAfter) % W
            -- `(current & !field) | shifted`: clear the window, then put the value in
            let cleared := current &&& (W - 1 - field)
            let newValue := cleared ||| shifted
            let newBytes := beBytes cnt newValue
            let result : Outcome Rope :=
              if bo = 0 ∧ last = len then .ok (.owned newBytes)
              else if bo = 0 then
                (usub len last).bind fun rest =>
                match Rope.mkSlice r last rest with
                | some right => Rope.mkConcat (.owned newBytes) right
                | none => .panic                       -- `.unwrap()`
              else if last = len then
                match Rope.mkSlice r 0 bo with
                | some left => Rope.mkConcat left (.owned newBytes)
                | none => .panic
              else
                (usub len last).bind fun rest =>
                match Rope.mkSlice r 0 bo, Rope.mkSlice r last rest with
                | some left, some right =>
                  (Rope.mkConcat left (.owned newBytes)).bind fun withMiddle =>
                    Rope.mkConcat withMiddle right
                | _, _ => .panic
            result.bind allocData

/-! ### slice, hash, append -/

def binarySlice (r : Rope) (start stop : Int) : Outcome Rope :=
  if start < 0 ∨ stop < 0 then .err .invalidArgument
  else (toUsize start).bind fun s => (toUsize stop).bind fun e =>
    let len := r.len
    if s > len ∨ e > len then .err .invalidArgument
    else if s > e then .err .invalidArgument
    else match Rope.mkSlice r s (e - s) with
      | some sl => allocData sl
      | none => .err .invalidArgument

/-- FNV-1a, 32 bit: `(hash ^ byte).wrapping_mul(prime)` folded from `offset` -/
def fnv1a32 (offset prime : Nat) (v : List UInt8) : Nat :=
  v.foldl (fun h b => ((h ^^^ b.toNat) * prime) % 4294967296) offset

def fnv1a64 (offset prime : Nat) (v : List UInt8) : Nat :=
  v.foldl (fun h b => ((h ^^^ b.toNat) * prime) % 18446744073709551616) offset

def fnv32Offset : Nat := 2166136261
def fnv32Prime : Nat := 16777619
def fnv64Offset : Nat := 14695981039346656037
def fnv64Prime : Nat := 1099511628211

def binaryHash32 (r : Rope) : Outcome Int :=
  r.iter.bind fun v => .ok (Int.ofNat (fnv1a32 fnv32Offset fnv32Prime v))

/-- `hash as i64`: the 64-bit hash reinterpreted as a signed word -/
def binaryHash64 (r : Rope) : Outcome Int :=
  r.iter.bind fun v =>
    let h := fnv1a64 fnv64Offset fnv64Prime v
    .ok (if h ≥ 9223372036854775808 then (h : Int) - 18446744073709551616 else (h : Int))

def binaryAppend (r : Rope) (value numBytes : Int) : Outcome Rope :=
  (toI64Int numBytes).bind fun nb =>
    if ¬ (1 ≤ nb ∧ nb ≤ 8) then .err .invalidArgument
    else if value < 0 then .err .invalidArgument
    else (toI64Int value).bind fun v =>
      let nb := nb.toNat
      let v := v.toNat
      let maxValue : Nat := if nb = 8 then 18446744073709551615 else 2 ^ (nb * 8) - 1
      if v > maxValue then .err .invalidArgument
      else (Rope.mkConcat r (.owned (beBytes nb v))).bind allocData

end QM.Builtins
