import QuiverModel.Core.Builtins.Integer
import QuiverModel.Core.Prelude
/-
Argument values of pure builtins and the by-name dispatcher that the C12 driver and the
correspondence use. `BArg` is first-order: integers, binaries (flat bytes at this level — rope
shapes are added by `Core/Bytes`), tuples. A builtin applied to a value of the wrong kind answers
`TypeMismatch` exactly where the Rust extractor does; wrong tuple length answers `InvalidArgument`.
-/
namespace QM.Builtins

inductive BArg where
  | int (z : Int)
  | bin (bs : List UInt8)
  | tup (fs : List BArg)
  deriving Inhabited, Repr

/-- `extract_two_bigints` -/
def twoInts : BArg → Outcome (Int × Int)
  | .tup fs =>
    if fs.length ≠ 2 then .err .invalidArgument
    else match fs with
      | [.int a, .int b] => .ok (a, b)
      | _ => .err .typeMismatch
  | _ => .err .typeMismatch

def oneInt : BArg → Outcome Int
  | .int z => .ok z
  | _ => .err .typeMismatch

def liftInt (o : Outcome Int) : Outcome BArg := o.map BArg.int

/-- Integer family by registry name; `none` = this builtin has no model here. -/
def callInteger (name : String) (arg : BArg) : Option (Outcome BArg) :=
  let un (f : Int → Outcome Int) : Outcome BArg := liftInt ((oneInt arg).bind f)
  let bi (f : Int → Int → Outcome Int) : Outcome BArg :=
    liftInt ((twoInts arg).bind (fun (a, b) => f a b))
  match name with
  | "integer_abs" => some (un integerAbs)
  | "integer_sqrt" => some (un integerSqrt)
  | "integer_add" => some (bi integerAdd)
  | "integer_subtract" => some (bi integerSubtract)
  | "integer_multiply" => some (bi integerMultiply)
  | "integer_divide" => some (bi integerDivide)
  | "integer_modulo" => some (bi integerModulo)
  | "integer_gcd" => some (bi integerGcd)
  | "integer_compare" => some (bi integerCompare)
  | "integer_and" => some (bi integerAnd)
  | "integer_or" => some (bi integerOr)
  | "integer_xor" => some (bi integerXor)
  | "integer_not" => some (un integerNot)
  | "integer_shift" => some (bi integerShift)
  | "integer_popcount" => some (un integerPopcount)
  | _ => none

/-! ### S-expression codec: `(i <dec>)`, `(b <hex>)` (empty binary: `(b)`), `(t v …)` -/

partial def BArg.ofSx : Sx → Option BArg
  | .list [.atom "i", z] => (Sx.asInt z).map BArg.int
  | .list [.atom "b"] => some (.bin [])
  | .list [.atom "b", .atom h] => (parseHex h).map BArg.bin
  | .list (.atom "t" :: fs) => (fs.mapM BArg.ofSx).map BArg.tup
  | _ => none

partial def BArg.render : BArg → String
  | .int z => s!"(i {z})"
  | .bin [] => "(b)"
  | .bin bs => s!"(b {toHex bs})"
  | .tup fs => "(t" ++ String.join (fs.map (fun f => " " ++ f.render)) ++ ")"

def renderOutcome : Outcome BArg → String
  | .ok v => "ok " ++ v.render
  | .err e => "err " ++ e.name
  | .panic => "panic"

end QM.Builtins
