import QuiverModel.Core.Builtins.Integer
import QuiverModel.Core.Builtins.Binary
import QuiverModel.Core.Builtins.Vector
import QuiverModel.Core.Prelude
/-
Argument values of pure builtins and the by-name dispatcher that the C12 driver and the
correspondence use. `BArg` is first-order: integers, binaries (the rope stored in the heap slot),
tuples (`tup []` is nil). A builtin applied to a value of the wrong shape answers `TypeMismatch`
exactly where the Rust pattern match does (`InvalidArgument` for a wrong tuple length in the
integer family's `extract_two_*`).
-/
namespace QM.Builtins
open QM.Bytes

inductive BArg where
  | int (z : Int)
  | bin (r : Rope)
  | tup (fs : List BArg)
  deriving Inhabited, Repr

def BArg.nil : BArg := .tup []

/-- `extract_two_bigints` -/
def twoInts : BArg → Outcome (Int × Int)
  | .tup fs =>
    if fs.length ≠ 2 then .err .invalidArgument
    else match fs with
      | [.int a, .int b] => .ok (a, b)
      | _ => .err .typeMismatch
  | _ => .err .typeMismatch

/-- `extract_two_integers` (bitwise family): each field is type-checked and narrowed to `i64`
    in turn, so an out-of-range first operand is reported before an ill-typed second one. -/
def twoIntsNarrowed : BArg → Outcome (Int × Int)
  | .tup fs =>
    if fs.length ≠ 2 then .err .invalidArgument
    else match fs with
      | [.int a, y] =>
        (toI64 a).bind fun _ =>
          match y with
          | .int b => .ok (a, b)
          | _ => .err .typeMismatch
      | _ => .err .typeMismatch
  | _ => .err .typeMismatch

def oneInt : BArg → Outcome Int
  | .int z => .ok z
  | _ => .err .typeMismatch

def liftInt (o : Outcome Int) : Outcome BArg := o.map BArg.int

/-- Integer family by registry name; `none` = this builtin has no model here. -/
def callInteger (name : String) (arg : BArg) : Option (Outcome BArg) :=
  let un (f : Int → Outcome Int) : Outcome BArg := liftInt ((oneInt arg).bind f)
  let bi (f : Int → Int → Outcome Int) : Outcome BArg :=
    liftInt ((twoInts arg).bind (fun (a, b) => f a b))
  let bw (f : Int → Int → Outcome Int) : Outcome BArg :=
    liftInt ((twoIntsNarrowed arg).bind (fun (a, b) => f a b))
  match name with
  | "integer_abs" => some (un integerAbs)
  | "integer_sqrt" => some (un integerSqrt)
  | "integer_add" => some (bi integerAdd)
  | "integer_subtract" => some (bi integerSubtract)
  | "integer_multiply" => some (bi integerMultiply)
  | "integer_divide" => some (bi integerDivide)
  | "integer_modulo" => some (bi integerModulo)
  | "integer_gcd" => some (bi integerGcd)
  | "integer_compare" => some (bi integerCompare)
  | "integer_and" => some (bw integerAnd)
  | "integer_or" => some (bw integerOr)
  | "integer_xor" => some (bw integerXor)
  | "integer_not" => some (un integerNot)
  | "integer_shift" => some (bw integerShift)
  | "integer_popcount" => some (un integerPopcount)
  | _ => none

/-! ### argument shapes of the binary and vector families (any mismatch: `TypeMismatch`) -/

def argB : BArg → Outcome Rope
  | .bin r => .ok r
  | _ => .err .typeMismatch
def argBB : BArg → Outcome (Rope × Rope)
  | .tup [.bin a, .bin b] => .ok (a, b)
  | _ => .err .typeMismatch
def argBI : BArg → Outcome (Rope × Int)
  | .tup [.bin a, .int x] => .ok (a, x)
  | _ => .err .typeMismatch
def argBII : BArg → Outcome (Rope × Int × Int)
  | .tup [.bin a, .int x, .int y] => .ok (a, x, y)
  | _ => .err .typeMismatch
def argBIII : BArg → Outcome (Rope × Int × Int × Int)
  | .tup [.bin a, .int x, .int y, .int z] => .ok (a, x, y, z)
  | _ => .err .typeMismatch
def argBIIII : BArg → Outcome (Rope × Int × Int × Int × Int)
  | .tup [.bin a, .int x, .int y, .int z, .int u] => .ok (a, x, y, z, u)
  | _ => .err .typeMismatch
def argBBI : BArg → Outcome (Rope × Rope × Int)
  | .tup [.bin a, .bin b, .int x] => .ok (a, b, x)
  | _ => .err .typeMismatch
def argBIB : BArg → Outcome (Rope × Int × Rope)
  | .tup [.bin a, .int x, .bin b] => .ok (a, x, b)
  | _ => .err .typeMismatch

def retBin (o : Outcome Rope) : Outcome BArg := o.map BArg.bin
def retInt (o : Outcome Int) : Outcome BArg := o.map BArg.int
def retOptBin (o : Outcome (Option Rope)) : Outcome BArg :=
  o.map fun | some r => BArg.bin r | none => BArg.nil
def retOptInt (o : Outcome (Option Int)) : Outcome BArg :=
  o.map fun | some z => BArg.int z | none => BArg.nil
def retOptNat (o : Outcome (Option Nat)) : Outcome BArg :=
  o.map fun | some n => BArg.int (Int.ofNat n) | none => BArg.nil

def callBinary (name : String) (arg : BArg) : Option (Outcome BArg) :=
  match name with
  | "binary_new" => some (retBin ((oneInt arg).bind binaryNew))
  | "binary_length" => some (retInt ((argB arg).bind binaryLength))
  | "binary_concat" => some (retBin ((argBB arg).bind fun (a, b) => binaryConcat a b))
  | "binary_repeat" => some (retBin ((argBI arg).bind fun (a, c) => binaryRepeat a c))
  | "binary_and" => some (retBin ((argBB arg).bind fun (a, b) => binaryAnd a b))
  | "binary_or" => some (retBin ((argBB arg).bind fun (a, b) => binaryOr a b))
  | "binary_xor" => some (retBin ((argBB arg).bind fun (a, b) => binaryXor a b))
  | "binary_not" => some (retBin ((argB arg).bind binaryNot))
  | "binary_shift" => some (retBin ((argBI arg).bind fun (a, s) => binaryShift a s))
  | "binary_popcount" => some (retInt ((argB arg).bind binaryPopcount))
  | "binary_get" => some (retInt ((argBIII arg).bind fun (a, x, y, z) => binaryGet a x y z))
  | "binary_set" => some (retBin ((argBIIII arg).bind fun (a, x, y, v, z) => binarySet a x y v z))
  | "binary_slice" => some (retBin ((argBII arg).bind fun (a, s, e) => binarySlice a s e))
  | "binary_index" => some (retOptNat ((argBII arg).bind fun (a, b, o) => binaryIndex a b o))
  | "binary_hash32" => some (retInt ((argB arg).bind binaryHash32))
  | "binary_hash64" => some (retInt ((argB arg).bind binaryHash64))
  | "binary_append" => some (retBin ((argBII arg).bind fun (a, v, n) => binaryAppend a v n))
  | _ => none

def callVector (name : String) (arg : BArg) : Option (Outcome BArg) :=
  let bbi (f : Rope → Rope → Int → Outcome (Option Rope)) : Outcome BArg :=
    retOptBin ((argBBI arg).bind fun (a, b, w) => f a b w)
  match name with
  | "vector_add" => some (bbi vectorAdd)
  | "vector_subtract" => some (bbi vectorSubtract)
  | "vector_multiply" => some (bbi vectorMultiply)
  | "vector_less_than" => some (bbi vectorLessThan)
  | "vector_equal" => some (bbi vectorEqual)
  | "vector_greater_than" => some (bbi vectorGreaterThan)
  | "vector_dot" => some (retOptInt ((argBBI arg).bind fun (a, b, w) => vectorDot a b w))
  | "vector_take" => some (retOptBin ((argBIB arg).bind fun (d, w, m) => vectorTake d w m))
  | "vector_get" => some (retOptInt ((argBII arg).bind fun (a, w, i) => vectorGet a w i))
  | "vector_push" => some (retOptBin ((argBII arg).bind fun (a, w, v) => vectorPush a w v))
  | "vector_sum" => some (retOptInt ((argBI arg).bind fun (a, w) => vectorSum a w))
  | _ => none

/-- Every modelled pure builtin by registry name; `none` = no model. -/
def callBuiltin (name : String) (arg : BArg) : Option (Outcome BArg) :=
  match callInteger name arg with
  | some o => some o
  | none =>
    match callBinary name arg with
    | some o => some o
    | none => callVector name arg

/-- the names `callBuiltin` answers for (checked against the regenerated registry table) -/
def modelledNames : List String :=
  ["integer_abs", "integer_sqrt", "integer_add", "integer_subtract", "integer_multiply",
   "integer_divide", "integer_modulo", "integer_gcd", "integer_compare", "integer_and",
   "integer_or", "integer_xor", "integer_not", "integer_shift", "integer_popcount",
   "binary_new", "binary_length", "binary_concat", "binary_repeat", "binary_and", "binary_or",
   "binary_xor", "binary_not", "binary_shift", "binary_popcount", "binary_get", "binary_set",
   "binary_slice", "binary_index", "binary_hash32", "binary_hash64", "binary_append",
   "vector_add", "vector_subtract", "vector_multiply", "vector_less_than", "vector_equal",
   "vector_greater_than", "vector_dot", "vector_take", "vector_get", "vector_push", "vector_sum"]

/-! ### S-expression codec
  values: `(i <dec>)`, `(b <hex>)` (empty binary: `(b)`), `(t v …)`, `(r <rope>)`
  ropes (built with the smart constructors, exactly like the Rust side does):
    `(o <hex>)` | `(o)` owned · `(z n)` zeroed · `(s <rope> off len)` slice ·
    `(c <rope> <rope>)` concat · `(x <rope> count)` tiled -/

partial def ropeOfSx : Sx → Option Rope
  | .list [.atom "o"] => some (.owned [])
  | .list [.atom "o", .atom h] => (parseHex h).map Rope.owned
  | .list [.atom "z", n] => (Sx.asNat n).map Rope.zeroed
  | .list [.atom "s", p, off, l] =>
    match ropeOfSx p, Sx.asNat off, Sx.asNat l with
    | some p, some off, some l => Rope.mkSlice p off l
    | _, _, _ => none
  | .list [.atom "c", a, b] =>
    match ropeOfSx a, ropeOfSx b with
    | some a, some b => match Rope.mkConcat a b with | .ok c => some c | _ => none
    | _, _ => none
  | .list [.atom "x", u, c] =>
    match ropeOfSx u, Sx.asNat c with
    | some u, some c => some (Rope.mkTiled u c)
    | _, _ => none
  | _ => none

partial def BArg.ofSx : Sx → Option BArg
  | .list [.atom "i", z] => (Sx.asInt z).map BArg.int
  | .list [.atom "b"] => some (.bin (.owned []))
  | .list [.atom "b", .atom h] => (parseHex h).map fun bs => BArg.bin (.owned bs)
  | .list [.atom "r", e] => (ropeOfSx e).map BArg.bin
  | .list (.atom "t" :: fs) => (fs.mapM BArg.ofSx).map BArg.tup
  | _ => none

/-- results larger than this are rendered as a digest (length + probe bytes), so that maximal
    binaries (16 MiB) can be compared without flattening them in the driver -/
def bigThreshold : Nat := 65536

def probeIndices (n : Nat) : List Nat :=
  [0, 1, n / 4, n / 3, n / 2, n - n / 3, n - 2, n - 1]

def renderRope (r : Rope) : String :=
  if r.len ≤ bigThreshold then
    match r.toVec with
    | .ok [] => "(b)"
    | .ok bs => s!"(b {toHex bs})"
    | _ => "(b !panic)"
  else
    let probes := (probeIndices r.len).map fun i =>
      match r.byteAt i with
      | .ok (some b) => toHex [b]
      | _ => "--"
    s!"(B {r.len} {" ".intercalate probes})"

partial def BArg.render : BArg → String
  | .int z => s!"(i {z})"
  | .bin r => renderRope r
  | .tup fs => "(t" ++ String.join (fs.map (fun f => " " ++ f.render)) ++ ")"

def renderOutcome : Outcome BArg → String
  | .ok v => "ok " ++ v.render
  | .err e => "err " ++ e.name
  | .panic => "panic"

end QM.Builtins
