/-
M-Dict — a hand translation of `/repo/std/dict.qv` (the 32-way HAMT behind `%dict`), function by
function and branch by branch in source order.  Import-free (core Lean only).

* The tree functions (`get`, `put`, `remove`, …) take the key's hash as an argument exactly as in the
  source, so they do not mention the hash function at all; only the exported record (`Api.*`) and
  `from` call it.  Everything is therefore parametric in `hash : K → Nat` (and in the key type `K`
  with decidable equality — the source compares keys with a pinned pattern `k =&key`, structural
  equality of values, so `Str[b]` and `b` are *different* keys with the *same* hash).
* Integers.  The source computes with `%int.and/or/not/shift/popcount` (i64 builtins) and `%num.add/
  sub/lt?` on values that are always in `[0, 2^32)` (hashes, bitmaps, bits) or small (shifts,
  indices).  On that range the i64 operations agree with the `Nat` operations used here:
  `[h, 0 - s] shift` is `h >>> s` (arithmetic right shift of a non-negative value; `≥ 64` gives 0
  as `Nat` does for `h < 2^64`), `[1, f] shift` is `1 <<< f` (`f ≤ 31`), `bit not` is the 64-bit
  complement (`andNot` below), `popcount` counts the 64 low bits (`count_ones` on the u64 image).
  `popcountNat` duplicates `QM.Builtins.popcountNat` (C12) because Core files are import-free;
  `Theorems/C19.lean` ties the two.
* The source's own `Nil | Cons[h, t]` lists are Lean `List`s; the tail-recursive helpers keep their
  accumulators (`revcat`, `insertAt … acc`) so that the *order* of children / bucket entries /
  `entries` output is the source's order (the correspondence compares printed trees and entry lists
  verbatim).
* Recursion.  `get`/`put`/`remove` recurse on `childAt children idx`, which is not a syntactic
  subterm: they are defined by well-founded recursion on `sizeOf`.  `split_pair`/`split_node` recurse
  on `shift + 5` with no structural argument (and really do not terminate when two different hashes
  agree on every fragment from `shift` upwards): they take fuel and return `none` when it runs out;
  `put` passes its fuel on and is `Option`-valued.  `C19.put_fuel_suffices`: under the invariant,
  fuel 8 is always enough (7 levels of 5-bit fragments cover 32 bits).
* nil.  `get` returns `Option V` (`none` = the source's `[]`).  A stored value that is itself `[]`
  is outside the module's documented domain ("a dict cannot usefully store nil").
* `iter` (an `%iter.unfold` over `entries`) is not modelled.
-/
namespace QM.Dict

/-! ### keys and the production hash -/

/-- `'key = Str['bin] | 'bin` -/
inductive Key where
  | bin (bs : List UInt8)
  | str (bs : List UInt8)
  deriving DecidableEq, Repr, Inhabited

/-- `key_bytes = #'key { =Str[b] => b | ='bin => $ }` -/
def keyBytes : Key → List UInt8
  | .str b => b
  | .bin b => b

/-- FNV-1a 32-bit, `builtin_binary_hash32`:
`fold(2166136261u32, |h, byte| (h ^ byte as u32).wrapping_mul(16777619))`. -/
def fnv1a32 (bs : List UInt8) : Nat :=
  bs.foldl (fun h b => ((h ^^^ b.toNat) * 16777619) % 4294967296) 2166136261

/-- `hash = #'key { key_bytes __binary_hash32__ }` — the hash the shipped module uses. -/
def keyHash (k : Key) : Nat := fnv1a32 (keyBytes k)

/-! ### the trie -/

/-- `'<'v> = Empty | Leaf['int, 'key, 'v] | Collision['int, 'list<['key, 'v]>] | Node['int, list]` -/
inductive Dict (K V : Type) where
  | empty
  | leaf (h : Nat) (k : K) (v : V)
  | collision (h : Nat) (entries : List (K × V))
  | node (bitmap : Nat) (children : List (Dict K V))
  deriving Repr, Inhabited

/-! ### integer helpers (i64 builtins restricted to the non-negative range, see header) -/

/-- `count_ones` of the low `fuel` bits. -/
def popcountNat : Nat → Nat → Nat
  | 0, _ => 0
  | fuel + 1, n => if n = 0 then 0 else (n % 2) + popcountNat fuel (n / 2)

/-- `%int.popcount` on a non-negative i64. -/
def popcount (n : Nat) : Nat := popcountNat 64 n

/-- `[a, b %int.not] %int.and` for non-negative `a`, `b < 2^64`: and with the 64-bit complement. -/
def andNot (a b : Nat) : Nat := a &&& (18446744073709551615 - b)

/-- `fragment`: `[0, shift] sub ~> [hash, ~] shift ~> [~, 31] and` -/
def fragment (hash shift : Nat) : Nat := (hash >>> shift) &&& 31

/-- `[hash, shift] fragment [1, ~] %int.shift` — the slot bit, as written in `get`/`put`/`remove`. -/
def bitOf (hash shift : Nat) : Nat := 1 <<< fragment hash shift

/-- `slot_index`: `[bit, 1] sub ~> [bitmap, ~] and ~> popcount` -/
def slotIndex (bitmap bit : Nat) : Nat := popcount (bitmap &&& (bit - 1))

/-! ### generic list helpers -/

def revcat {α : Type} : List α → List α → List α
  | [], rest => rest
  | h :: t, rest => revcat t (h :: rest)

def length {α : Type} : List α → Nat → Nat
  | [], n => n
  | _ :: t, n => length t (n + 1)

def map {α β : Type} : List α → (α → β) → List β → List β
  | [], _, acc => revcat acc []
  | h :: t, f, acc => map t f (f h :: acc)

theorem revcat_sizeOf {α : Type} [SizeOf α] (a b : List α) :
    sizeOf (revcat a b) + 1 = sizeOf a + sizeOf b := by
  induction a generalizing b with
  | nil => simp [revcat]; omega
  | cons h t ih => have := ih (h :: b); simp [revcat] at *; omega

variable {K V : Type}

/-- `child_at`: `Empty` past the end. -/
def childAt : List (Dict K V) → Nat → Dict K V
  | [], _ => .empty
  | h :: t, idx => if idx = 0 then h else childAt t (idx - 1)

def insertAt {α : Type} (lst : List α) (idx : Nat) (val : α) (acc : List α) : List α :=
  if idx = 0 then revcat acc (val :: lst)
  else
    match lst with
    | [] => revcat acc (val :: [])
    | h :: t => insertAt t (idx - 1) val (h :: acc)

def updateAt {α : Type} : List α → Nat → α → List α → List α
  | [], _, _, acc => revcat acc []
  | h :: t, idx, val, acc =>
    if idx = 0 then revcat acc (val :: t) else updateAt t (idx - 1) val (h :: acc)

def removeAt {α : Type} : List α → Nat → List α → List α
  | [], _, acc => revcat acc []
  | h :: t, idx, acc =>
    if idx = 0 then revcat acc t else removeAt t (idx - 1) (h :: acc)

theorem childAt_sizeOf (cs : List (Dict K V)) (i : Nat) : sizeOf (childAt cs i) ≤ sizeOf cs := by
  induction cs generalizing i with
  | nil => simp [childAt]
  | cons h t ih =>
    unfold childAt
    split
    · simp; omega
    · have := ih (i - 1); simp; omega

/-! ### collision buckets -/

variable [DecidableEq K]

def bucketGet : List (K × V) → K → Option V
  | [], _ => none
  | (k, v) :: t, key => if k = key then some v else bucketGet t key

def bucketPut : List (K × V) → K → V → List (K × V) → List (K × V)
  | [], key, value, acc => revcat acc ((key, value) :: [])
  | (k, v) :: t, key, value, acc =>
    if k = key then revcat acc ((key, value) :: t) else bucketPut t key value ((k, v) :: acc)

def bucketRemove : List (K × V) → K → List (K × V) → List (K × V)
  | [], _, acc => revcat acc []
  | (k, v) :: t, key, acc =>
    if k = key then revcat acc t else bucketRemove t key ((k, v) :: acc)

/-! ### tree operations -/

/-- `get = #<'v>['<'v>, 'key, 'int, 'int]` -/
def get (node : Dict K V) (key : K) (hash shift : Nat) : Option V :=
  match node with
  | .empty => none
  | .leaf _ k v => if k = key then some v else none
  | .collision _ entries => bucketGet entries key
  | .node bitmap children =>
    if bitmap &&& bitOf hash shift = 0 then none
    else get (childAt children (slotIndex bitmap (bitOf hash shift))) key hash (shift + 5)
termination_by sizeOf node
decreasing_by
  have := childAt_sizeOf children (slotIndex bitmap (bitOf hash shift))
  simp; omega

/-- `split_pair`: two single entries (differing keys) into a fresh subtree at `shift`. Fuelled. -/
def splitPair : Nat → Nat → K → V → Nat → K → V → Nat → Option (Dict K V)
  | 0, _, _, _, _, _, _, _ => none
  | fuel + 1, h1, k1, v1, h2, k2, v2, shift =>
    if h1 = h2 then
      some (.collision h1 (bucketPut (bucketPut [] k1 v1 []) k2 v2 []))
    else if fragment h1 shift = fragment h2 shift then
      match splitPair fuel h1 k1 v1 h2 k2 v2 (shift + 5) with
      | none => none
      | some c => some (.node (1 <<< fragment h1 shift) (c :: []))
    else if fragment h1 shift < fragment h2 shift then
      some (.node ((1 <<< fragment h1 shift) ||| (1 <<< fragment h2 shift))
        (.leaf h1 k1 v1 :: .leaf h2 k2 v2 :: []))
    else
      some (.node ((1 <<< fragment h1 shift) ||| (1 <<< fragment h2 shift))
        (.leaf h2 k2 v2 :: .leaf h1 k1 v1 :: []))

/-- `split_node`: an existing node (a collision) against a new entry whose hash differs. Fuelled. -/
def splitNode : Nat → Dict K V → Nat → Nat → K → V → Nat → Option (Dict K V)
  | 0, _, _, _, _, _, _ => none
  | fuel + 1, cnode, chash, hash, key, value, shift =>
    if fragment chash shift = fragment hash shift then
      match splitNode fuel cnode chash hash key value (shift + 5) with
      | none => none
      | some c => some (.node (1 <<< fragment chash shift) (c :: []))
    else if fragment chash shift < fragment hash shift then
      some (.node ((1 <<< fragment chash shift) ||| (1 <<< fragment hash shift))
        (cnode :: .leaf hash key value :: []))
    else
      some (.node ((1 <<< fragment chash shift) ||| (1 <<< fragment hash shift))
        (.leaf hash key value :: cnode :: []))

/-- `put = #<'v>[#^ -> '<'v>, '<'v>, 'key, 'v, 'int, 'int]`; `fuel` is only consumed by the splits. -/
def put (fuel : Nat) (node : Dict K V) (key : K) (value : V) (hash shift : Nat) : Option (Dict K V) :=
  match node with
  | .empty => some (.leaf hash key value)
  | .leaf lhash lkey lvalue =>
    if lkey = key then some (.leaf hash key value)
    else splitPair fuel lhash lkey lvalue hash key value shift
  | .collision chash entries =>
    if chash = hash then some (.collision chash (bucketPut entries key value []))
    else splitNode fuel (.collision chash entries) chash hash key value shift
  | .node bitmap children =>
    if bitmap &&& bitOf hash shift = 0 then
      some (.node (bitmap ||| bitOf hash shift)
        (insertAt children (slotIndex bitmap (bitOf hash shift)) (.leaf hash key value) []))
    else
      match put fuel (childAt children (slotIndex bitmap (bitOf hash shift))) key value hash (shift + 5) with
      | none => none
      | some newChild =>
        some (.node bitmap (updateAt children (slotIndex bitmap (bitOf hash shift)) newChild []))
termination_by sizeOf node
decreasing_by
  have := childAt_sizeOf children (slotIndex bitmap (bitOf hash shift))
  simp; omega

/-- `collapse_node`: canonicalise a node after a removal. -/
def collapseNode (bitmap : Nat) (children : List (Dict K V)) : Dict K V :=
  match children with
  | [] => .empty
  | only :: [] =>
    match only with
    | .node _ _ => .node bitmap children
    | leaf => leaf
  | _ => .node bitmap children

/-- `remove_slot`: drop the slot for `bit`, then canonicalise. -/
def removeSlot (bitmap bit : Nat) (children : List (Dict K V)) (idx : Nat) : Dict K V :=
  collapseNode (andNot bitmap bit) (removeAt children idx [])

/-- `remove = #<'v>[#^ -> '<'v>, '<'v>, 'key, 'int, 'int]` -/
def remove (node : Dict K V) (key : K) (hash shift : Nat) : Dict K V :=
  match node with
  | .empty => .empty
  | .leaf lhash k v => if k = key then .empty else .leaf lhash k v
  | .collision chash entries =>
    match bucketRemove entries key [] with
    | [] => .empty
    | (k, v) :: [] => .leaf chash k v
    | kept => .collision chash kept
  | .node bitmap children =>
    if bitmap &&& bitOf hash shift = 0 then .node bitmap children
    else
      match remove (childAt children (slotIndex bitmap (bitOf hash shift))) key hash (shift + 5) with
      | .empty => removeSlot bitmap (bitOf hash shift) children (slotIndex bitmap (bitOf hash shift))
      | new => collapseNode bitmap (updateAt children (slotIndex bitmap (bitOf hash shift)) new [])
termination_by sizeOf node
decreasing_by
  have := childAt_sizeOf children (slotIndex bitmap (bitOf hash shift))
  simp; omega

/-- `entries`: collect every entry by walking a worklist of pending nodes. -/
def entries (worklist : List (Dict K V)) (acc : List (K × V)) : List (K × V) :=
  match worklist with
  | [] => acc
  | node :: rest =>
    match node with
    | .empty => entries rest acc
    | .leaf _ k v => entries rest ((k, v) :: acc)
    | .collision _ ents => entries rest (revcat ents acc)
    | .node _ children => entries (revcat children rest) acc
termination_by sizeOf worklist
decreasing_by
  · simp
  · simp; omega
  · simp; omega
  · rename_i children
    have := revcat_sizeOf children rest; simp; omega

/-- `from = #<'v>[#^ -> '<'v>, '<'v>, 'list<['key, 'v]>]` (calls `hash`). -/
def fromList (hash : K → Nat) (fuel : Nat) : Dict K V → List (K × V) → Option (Dict K V)
  | d, [] => some d
  | d, (k, val) :: t =>
    match put fuel d k val (hash k) 0 with
    | none => none
    | some d' => fromList hash fuel d' t

/-! ### the exported record -/

namespace Api
variable (hash : K → Nat)

/-- `new: #{ Empty }` -/
def new : Dict K V := .empty
/-- `get: [$0, $1, $1 hash, 0] get` -/
def get (d : Dict K V) (k : K) : Option V := Dict.get d k (hash k) 0
/-- `put: [&put, $0, $1, $2, $1 hash, 0] put` -/
def put (fuel : Nat) (d : Dict K V) (k : K) (v : V) : Option (Dict K V) := Dict.put fuel d k v (hash k) 0
/-- `remove: [&remove, $0, $1, $1 hash, 0] remove` -/
def remove (d : Dict K V) (k : K) : Dict K V := Dict.remove d k (hash k) 0
/-- `has?: [$0, $1, $1 hash, 0] get, Ok` -/
def has (d : Dict K V) (k : K) : Bool := (Dict.get d k (hash k) 0).isSome
/-- `entries: Cons[~, Nil] [~, Nil] entries` -/
def entries (d : Dict K V) : List (K × V) := Dict.entries (d :: []) []
/-- `count: Cons[~, Nil] [~, Nil] entries [~, 0] length` -/
def count (d : Dict K V) : Nat := length (Dict.entries (d :: []) []) 0
/-- `keys: entries ~> [~, #{ $0 }, Nil] map` -/
def keys (d : Dict K V) : List K := map (Dict.entries (d :: []) []) (fun e => e.1) []
/-- `values: entries ~> [~, #{ $1 }, Nil] map` -/
def values (d : Dict K V) : List V := map (Dict.entries (d :: []) []) (fun e => e.2) []
/-- `from: [&from, Empty, ~] from` -/
def «from» (fuel : Nat) (pairs : List (K × V)) : Option (Dict K V) := fromList hash fuel .empty pairs
/-- `merge: Cons[$1, Nil] [~, Nil] entries [&from, $0, ~] from` -/
def merge (fuel : Nat) (a b : Dict K V) : Option (Dict K V) :=
  fromList hash fuel a (Dict.entries (b :: []) [])

end Api

/-- Fuel used by the driver and named in `C19.put_fuel_suffices`. -/
def defaultFuel : Nat := 8

end QM.Dict
