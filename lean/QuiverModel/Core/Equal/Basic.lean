import QuiverModel.Core.VM.Basic
import QuiverModel.Core.Outcome
/-
M-Equal (owner: C13) — structural equality of runtime values, the canonical tuple-shape table,
erasure to structural values, `Equal(n)`, ref minting.

Imports only `Core/VM/Basic` (import-free, owner C07) for `Val` / `ValList` / `Bin` / `Const`, and
`Core/Outcome`.

Mirrors
  quiver-core/src/compatibility.rs   `compute_canonical_tuples`            → `canonicalTuples`
  quiver-core/src/executor.rs        `canonical_tuple`                     → `Ctx.canonOf`
                                     `values_equal` (every arm, same order) → `valuesEqual`
                                     `handle_equal`                        → `equalN`
                                     `Value::is_nil` + `handle_not`        → `matchVerdict`
                                     `create_ref`                          → `mintRef`, `createRef`
                                     `handle_self` (function index of the handle) → hypothesis `WF … pf`

Representation decisions
  * The executor's `canonical_tuples : Vec<usize>` is the field `Ctx.canon`; it is *stored* state,
    replaced wholesale at every `update_program` by `compute_canonical_tuples(all tuples)`
    (`execute.rs:58`, `environment.rs:968`).  `Ctx.ofProgram` builds that state.
  * A heap slot holds a *rope* (`binary.rs::BinaryData`: Owned / Zeroed / Slice / Concat / Tiled);
    `values_equal` reads it through `len()` (the O(1) field-based length, used as a fast path) and
    `to_vec()` (flattening) — `Rope.len`, `Rope.toVec`. The comparison must not depend on the rope
    shape: that is `binEqual_eq` under `Rope.LenOK` (the invariant the smart constructors
    `concat` / `slice` / `tiled` establish: the stored length is the flattened length).
    The constants table is `List Const`.  A heap slot / constant index out of range, or a constant
    that is an integer, makes the comparison `false` exactly like the `if let (Some…, Some…) … else false`.
  * Stack: head = top (as in `Core/VM/Step.lean::handleEqual`).
-/
namespace QM.Equal
open QM.VM

/-- `TupleTypeInfo` as far as `compute_canonical_tuples` reads it: the name and the field *labels*
(`info.fields.iter().map(|(label, _)| label.clone())` — the field types are dropped). -/
structure TupleInfo where
  name : Option String
  labels : List (Option String)
  deriving DecidableEq, Repr, Inhabited

/-- The key of the `by_shape` map. -/
abbrev Shape := Option String × List (Option String)

def TupleInfo.shape (t : TupleInfo) : Shape := (t.name, t.labels)

/-- `HashMap::get` on an association list (first hit; keys are unique by construction). -/
def lookupShape (s : Shape) : List (Shape × Nat) → Option Nat
  | [] => none
  | (k, v) :: rest => if k = s then some v else lookupShape s rest

/-- The `.enumerate().map(|(id, info)| *by_shape.entry(shape).or_insert(id))` loop:
`seen` is `by_shape`, `id` the running index. -/
def canonGo (seen : List (Shape × Nat)) (id : Nat) : List TupleInfo → List Nat
  | [] => []
  | t :: ts =>
    match lookupShape t.shape seen with
    | some j => j :: canonGo seen (id + 1) ts
    | none => id :: canonGo ((t.shape, id) :: seen) (id + 1) ts

/-- `compatibility.rs::compute_canonical_tuples`. -/
def canonicalTuples (ts : List TupleInfo) : List Nat := canonGo [] 0 ts

/-- `binary.rs::BinaryData` (the `Rc`s are sharing only). -/
inductive Rope where
  | owned (bytes : List UInt8)
  | zeroed (n : Nat)
  | slice (parent : Rope) (offset length : Nat)
  | concat (left right : Rope) (total : Nat)
  | tiled (unit : Rope) (count : Nat)
  deriving Repr, Inhabited

def usizeMax : Nat := 2 ^ 64 - 1

/-- `BinaryData::len` — O(1), from the stored fields (`saturating_mul` for `Tiled`). -/
def Rope.len : Rope → Nat
  | .owned bs => bs.length
  | .zeroed n => n
  | .slice _ _ l => l
  | .concat _ _ t => t
  | .tiled u c => min (u.len * c) usizeMax

/-- `BinaryData::to_vec` / `write_to_vec`. (`Slice` is `parent_vec[offset..offset+length]`, a Rust
panic when out of range; `BinaryData::slice` checks the bounds — `Rope.LenOK`.) -/
def Rope.toVec : Rope → List UInt8
  | .owned bs => bs
  | .zeroed n => List.replicate n 0
  | .slice p off l => (p.toVec.drop off).take l
  | .concat l r _ => l.toVec ++ r.toVec
  | .tiled u c => (List.replicate c u.toVec).flatten

/-- The invariant the constructors `BinaryData::{new, zeroed, concat, slice, tiled}` establish. -/
def Rope.LenOK : Rope → Prop
  | .owned _ => True
  | .zeroed _ => True
  | .slice p off l => p.LenOK ∧ off + l ≤ p.len
  | .concat l r t => l.LenOK ∧ r.LenOK ∧ t = l.len + r.len
  | .tiled u c => u.LenOK ∧ u.len * c ≤ usizeMax

def Rope.lenOKB : Rope → Bool
  | .owned _ => true
  | .zeroed _ => true
  | .slice p off l => p.lenOKB && decide (off + l ≤ p.len)
  | .concat l r t => l.lenOKB && r.lenOKB && decide (t = l.len + r.len)
  | .tiled u c => u.lenOKB && decide (u.len * c ≤ usizeMax)

/-- `value.rs::MAX_BINARY_SIZE`, enforced by `allocate_binary_data` on `data.len()`. -/
def maxBinarySize : Nat := 16 * 1024 * 1024

/-- `BinaryData::concat`. -/
def Rope.mkConcat (l r : Rope) : Rope := .concat l r (l.len + r.len)

/-- `BinaryData::slice` (bounds check, empty slice, full slice, proper slice). -/
def Rope.mkSlice (p : Rope) (off l : Nat) : Option Rope :=
  if off > p.len ∨ off + l > p.len then none
  else if l = 0 then some (.owned [])
  else if off = 0 ∧ l = p.len then some p
  else some (.slice p off l)

/-- `BinaryData::tiled` (degenerate cases normalised). -/
def Rope.mkTiled (u : Rope) (c : Nat) : Rope :=
  if c = 0 ∨ u.len = 0 then .owned []
  else if c = 1 then u
  else .tiled u c

/-- What the executor holds when it compares: the canonical table, the constants, the heap
(materialised), plus — for `erase` only — the tuple table the canonical table was computed from. -/
structure Ctx where
  tuples : List TupleInfo
  canon : List Nat
  consts : List Const
  heap : List Rope
  deriving Repr, Inhabited

/-- The context a fully updated executor has for program tables `tuples`, `consts`. -/
def Ctx.ofProgram (tuples : List TupleInfo) (consts : List Const) (heap : List Rope) : Ctx :=
  { tuples := tuples, canon := canonicalTuples tuples, consts := consts, heap := heap }

/-- `Executor::canonical_tuple`: `.get(id).copied().unwrap_or(id)`. -/
def Ctx.canonOf (X : Ctx) (id : Nat) : Nat := (X.canon[id]?).getD id

/-- `get_constant(i)` matched against `Some(Constant::Binary(bytes))`. -/
def Ctx.constBytes (X : Ctx) (i : Nat) : Option (List UInt8) :=
  match X.consts[i]? with
  | some (.bin bs) => some bs
  | _ => none

/-- `self.heap.get(i)` then `.to_vec()`. -/
def Ctx.heapBytes (X : Ctx) (i : Nat) : Option (List UInt8) := (X.heap[i]?).map Rope.toVec

/-- The `(Value::Binary(a), Value::Binary(b))` arm, its four sub-arms in source order. -/
def binEqual (X : Ctx) : Bin → Bin → Bool
  | .const ia, .const ib =>
    match X.constBytes ia, X.constBytes ib with
    | some a, some b => a == b
    | _, _ => false
  | .heap ia, .heap ib =>
    match X.heap[ia]?, X.heap[ib]? with
    | some a, some b => if a.len != b.len then false else a.toVec == b.toVec
    | _, _ => false
  | .const ic, .heap ih =>
    match X.constBytes ic, X.heapBytes ih with
    | some c, some h => c == h
    | _, _ => false
  | .heap ih, .const ic =>
    match X.constBytes ic, X.heapBytes ih with
    | some c, some h => c == h
    | _, _ => false

mutual
/-- `Executor::values_equal`, arm for arm, same order. (The `Resource` arm — same resource id, the
resource type id is not compared — exists since `fix: a resource handle never compared equal to
itself`; before, two resources fell to `_ => false`: `valuesEqualLegacyRes`.) -/
def valuesEqual (X : Ctx) : Val → Val → Bool
  | .int a, .int b => a == b
  | .bin a, .bin b => binEqual X a b
  | .tup ta ea, .tup tb eb =>
    X.canonOf ta == X.canonOf tb && (ea.length == eb.length && zipAllEqual X ea eb)
  | .fn ia ca, .fn ib cb => ia == ib && (ca.length == cb.length && zipAllEqual X ca cb)
  | .builtin a, .builtin b => a == b
  | .proc a fa, .proc b fb => a == b && fa == fb
  | .ref a, .ref b => a == b
  | .res a _, .res b _ => a == b
  | _, _ => false
/-- `xs.iter().zip(ys.iter()).all(|(a, b)| self.values_equal(a, b))` (stops at the shorter). -/
def zipAllEqual (X : Ctx) : ValList → ValList → Bool
  | .cons a as, .cons b bs => valuesEqual X a b && zipAllEqual X as bs
  | _, _ => true
end

/-- `handle_equal(count)` on the value stack (head = top). `count > len` is `StackUnderflow`;
`count = 0` indexes `values[0]` of an empty vector: a Rust panic; otherwise the `count` popped
values are replaced by a *verdict*: `Ok` if all are equal to the first (deepest) of them, NIL
otherwise. (Until `fix: pin and repeated-binder equality failed on equal nil values` the code
pushed the first value itself; see `equalNLegacy`.) -/
def equalN (X : Ctx) (count : Nat) (stack : List Val) : Outcome (List Val) :=
  if count > stack.length then .err .stackUnderflow
  else
    match (stack.take count).reverse with
    | [] => .panic
    | first :: rest =>
      let allEqual := (first :: rest).all (fun v => valuesEqual X first v)
      .ok ((if allEqual then Val.ok else Val.nil) :: stack.drop count)

/-- The pre-fix `handle_equal` (pushes `first.clone()`), kept to state what the repaired defect was. -/
def equalNLegacy (X : Ctx) (count : Nat) (stack : List Val) : Outcome (List Val) :=
  if count > stack.length then .err .stackUnderflow
  else
    match (stack.take count).reverse with
    | [] => .panic
    | first :: rest =>
      let allEqual := (first :: rest).all (fun v => valuesEqual X first v)
      .ok ((if allEqual then first else Val.nil) :: stack.drop count)

/-- How every compiled pattern requirement consumes the result of `Equal(2)`
(`pattern.rs::generate_pattern_code`: `Equal(2); Not; JumpIf fail`): the requirement *holds* iff
the value `Equal` left on the stack is not NIL. `a` is the matched value (pushed first), `b` the
pinned variable / literal / other occurrence of the binder. -/
def verdictOf (o : Outcome (List Val)) : Outcome Bool :=
  match o with
  | .ok (r :: _) => .ok (!r.isNil)
  | .ok [] => .panic
  | .err e => .err e
  | .panic => .panic

def matchVerdict (X : Ctx) (a b : Val) : Outcome Bool := verdictOf (equalN X 2 [b, a])

def matchVerdictLegacy (X : Ctx) (a b : Val) : Outcome Bool := verdictOf (equalNLegacy X 2 [b, a])

/-! ### Structural values and erasure -/

mutual
/-- Structural values (DESIGN §4 `V`): what a value *is*, independent of representation. Tuple ids
are replaced by name + field labels, binary handles by their bytes, a process handle by the
process id alone ("the same process"). Functions keep the index of their definition. -/
inductive SV where
  | int (z : Int)
  | bin (bytes : List UInt8)
  | ref (r : Nat)
  | tup (name : Option String) (labels : List (Option String)) (fields : SVList)
  | fn (idx : Nat) (captures : SVList)
  | builtin (id : Nat)
  | proc (pid : Nat)
  | res (rid : Nat)
  /-- an ill-formed runtime value (dangling tuple id / binary handle): erased to a marker -/
  | bad
  deriving DecidableEq, Repr
inductive SVList where
  | nil
  | cons (v : SV) (vs : SVList)
  deriving DecidableEq, Repr
end

def Ctx.bytesOf (X : Ctx) : Bin → Option (List UInt8)
  | .const i => X.constBytes i
  | .heap i => X.heapBytes i

mutual
def erase (X : Ctx) : Val → SV
  | .int z => .int z
  | .bin b => match X.bytesOf b with
    | some bs => .bin bs
    | none => .bad
  | .ref r => .ref r
  | .tup id fs => match X.tuples[id]? with
    | some t => .tup t.name t.labels (eraseList X fs)
    | none => .bad
  | .fn idx caps => .fn idx (eraseList X caps)
  | .builtin id => .builtin id
  | .proc pid _ => .proc pid
  | .res rid _ => .res rid
def eraseList (X : Ctx) : ValList → SVList
  | .nil => .nil
  | .cons v vs => .cons (erase X v) (eraseList X vs)
end

/-! ### Well-formedness (the hypotheses of `valuesEqual_iff_erase`) -/

mutual
/-- A runtime value the executor can actually hold under `X`: tuple ids in range with the
declared arity, binary handles pointing at bytes, and every process handle carrying the function
index `pf pid` the process was started with (`Executor.process_function_indices`). Every producer
of a `Value::Process` uses that index: `notify_spawn`, `handle_self` (since `fix: the self handle
of a process changed after a named tail call`; before, it read `frames.first()`, which a named
tail call replaces — finding C13-B), and `Instruction::Process` re-materialising an existing handle. -/
def WF (X : Ctx) (pf : Nat → Nat) : Val → Prop
  | .int _ => True
  | .bin b => (X.bytesOf b).isSome
  | .ref _ => True
  | .tup id fs => (∃ t, X.tuples[id]? = some t ∧ t.labels.length = fs.length) ∧ WFList X pf fs
  | .fn _ caps => WFList X pf caps
  | .builtin _ => True
  | .proc pid f => f = pf pid
  | .res _ _ => True
def WFList (X : Ctx) (pf : Nat → Nat) : ValList → Prop
  | .nil => True
  | .cons v vs => WF X pf v ∧ WFList X pf vs
end

mutual
/-- Decidable version of `WF` for the driver / harness (process coherence given as a table of
`(pid, function index)` pairs; a pid not in the table is accepted and recorded by the caller). -/
def wfB (X : Ctx) : Val → Bool
  | .int _ => true
  | .bin b => (X.bytesOf b).isSome
  | .ref _ => true
  | .tup id fs => (match X.tuples[id]? with
      | some t => t.labels.length == fs.length
      | none => false) && wfListB X fs
  | .fn _ caps => wfListB X caps
  | .builtin _ => true
  | .proc _ _ => true
  | .res _ _ => true
def wfListB (X : Ctx) : ValList → Bool
  | .nil => true
  | .cons v vs => wfB X v && wfListB X vs
end

/-! ### Producers of process handles -/

/-- What the spawner receives (`worker.rs`: `notify_spawn(pid, Value::Process(spawned_pid,
function_index))`), with `function_index` the function the process is started with — the value
`spawn_process` records in `process_function_indices`. -/
def spawnHandle (pid fidx : Nat) : Val := .proc pid fidx

/-- `handle_self`: the index the process was started with (`process_function_indices.get(pid)`),
falling back to the first frame's function only if there is none. -/
def selfHandle (started : Nat → Option Nat) (firstFrameFn pid : Nat) : Val :=
  .proc pid ((started pid).getD firstFrameFn)

/-- `handle_self` before `fix: the self handle of a process changed after a named tail call`:
always the first frame's function — which `TailCall(false)` replaces. -/
def selfHandleLegacy (firstFrameFn pid : Nat) : Val := .proc pid firstFrameFn

/-! ### Ref minting (`Executor::create_ref`) -/

/-- `((self.worker_id as u64) << 48) | self.next_ref` on machine words. -/
def mintRef (w : UInt16) (c : UInt64) : UInt64 := (w.toUInt64 <<< 48) ||| c

/-- `create_ref`: returns the ref and the incremented counter. `self.next_ref += 1` overflows at
`2^64 - 1`: a panic with overflow checks (debug / the harness profile), wrap-around in release —
modelled as `panic`. -/
def createRef (w : UInt16) (c : UInt64) : Outcome (UInt64 × UInt64) :=
  if c = 0xFFFFFFFFFFFFFFFF then .panic else .ok (mintRef w c, c + 1)

/-- A system of workers, each with its own counter (`Executor.next_ref`, starts at 0); worker ids
are the indices `0 .. n-1` (`Worker::new(.., worker_id)`, distinct `u16`s). -/
structure MintState where
  counters : List UInt64
  /-- every ref minted so far, newest first, with the worker that minted it -/
  minted : List (Nat × UInt64)
  deriving Repr

def MintState.init (n : Nat) : MintState := ⟨List.replicate n 0, []⟩

/-- Worker `w` (any process on it) executes `create_ref`. -/
def MintState.mint (s : MintState) (w : Nat) : Option MintState :=
  match s.counters[w]? with
  | none => none
  | some c =>
    match createRef (UInt16.ofNat w) c with
    | .ok (r, c') => some ⟨s.counters.set w c', (w, r) :: s.minted⟩
    | _ => none

/-- Run a schedule of mint events (which worker mints next). -/
def MintState.run (s : MintState) : List Nat → Option MintState
  | [] => some s
  | w :: ws => match s.mint w with
    | some s' => s'.run ws
    | none => none

end QM.Equal
