/-
M-Sys — protocol-level model of the Quiver environment/worker system (import-free).

Mirrors, at message level:
  /repo/quiver-environment/src/environment.rs  `Environment::step`, `handle_event`, `handle_spawn`,
      `handle_deliver`, `handle_await_processes`, `handle_process_results` (after fix b8eb814: a later
      completion is MERGED into a worker's pending answer), `process_router`, `next_process_id`
  /repo/quiver-environment/src/worker.rs       `Worker::step` (drain visible commands, one executor
      step, `handle_action`, `check_completed_processes`), `query_and_await`, `update_await_results`,
      `notify_result`, `awaited` / `awaiters_for_target`, `get_result`
  /repo/quiver-core/src/executor.rs            `step` (time slice, park on spawn/select, requeue rule,
      finished branch with same-worker awaiter notification), `notify_message`, `notify_result`,
      `notify_spawn`, `mark_active`, `mark_selecting`, `mark_spawning`, `check_expired_timeouts`,
      the select instruction (`initialize_select`, `process_select_sources`) at source granularity.

A process's *program* is abstracted to a script of actions (`Act`): what instructions compute between
two routed actions is irrelevant to the routing protocol.  One execution of a `Select` instruction, one
`Send`, one `Spawn`, the failing instruction of `fail`, and running off the end of the function are
the "attempts" a time slice is made of; `Choice.worker … fuel …` says how many attempts the slice
contains (the real slice length in instructions decides that; the theorems quantify over every
`fuel`, hence over every quantum).

Iteration orders of Rust hash maps/sets that are observable (order of re-queueing, order of emitted
events) are parameters of the choice (`ordQ`, `ordE`); the theorems quantify over them as well.

Deviation (documented): after the first `EnvironmentError` (`fault := true`) the real `step` returns
early and drops the rest of its batch; the model keeps going.  `fault` is sticky, every invariant
includes `fault = false`, and the harness treats any real fault as a violation.
-/
namespace QM.Sys

/-- Variants of the runtime mirrored by the model: each flag is a repair that is (or is about to
be) applied to the code; `false` = the code before the repair.  Every definition that depends on a
flag takes the configuration as an instance argument, so every theorem of the library is a theorem
about EVERY configuration unless it names one.
* `selectWaits` — notes/C05-fixes/01 (`SelectState.unanswered`).
* `releaseDead` — notes/C06-fixes/01 (`release_dead_roots`, `notify_message` drops for dead receivers).
* `exitReports` — notes/C14-fixes/01: the worker reports every terminated process
  (`Event::ProcessExited`) from `check_completed_processes`, before any ProcessResults carrying its
  result; the environment only uses it for resources (no routing, no awaits). -/
class Cfg where
  exitReports : Bool := false
  /-- notes/C05-fixes/01: a select with process sources evaluates nothing until every target has been
  answered (result, failure or the "registered" placeholder); an already failed target is answered
  with its error in the first answer -/
  selectWaits : Bool := false
  /-- notes/C06-fixes/01: at completion a process that cannot be resumed releases its mailbox, select
  state and stored await answers; `notify_message` drops a message for a failed or finished
  non-persistent process before injecting it -/
  releaseDead : Bool := false

/-- the code at /repo HEAD -/
@[instance_reducible] def Cfg.head : Cfg := {}

/-- default configuration (used where no configuration is in scope): the code at HEAD -/
instance (priority := low) instCfgDefault : Cfg := Cfg.head

variable [Cfg]

abbrev Pid := Nat
abbrev Wid := Nat
/-- Flattened canonical value: a tuple is `-1 :: items ++ [-2]`, an integer is itself (≥ 0). -/
abbrev Val := List Int

def Val.nil : Val := [-1, -2]
def Val.tuple (items : List Val) : Val := (-1 : Int) :: (items.flatten ++ [-2])

/-- Result of a process: a value or (the class of) a runtime error. -/
inductive Res where
  | ok (v : Val)
  | err
  deriving DecidableEq, Repr, Inhabited

/-- A message `[tag, seq]`; `src` is a ghost field (the sending process). -/
structure Msg where
  src : Pid
  tag : Nat
  seq : Nat
  deriving DecidableEq, Repr, Inhabited

def Msg.val (m : Msg) : Val := Val.tuple [[(m.tag : Int)], [(m.seq : Int)]]

/-- What a receive source accepts (type-only receive of every message type = `any`; a pure filter on
the tag = `tag k`; a type-only receive of one message type = `range lo hi`: message types are
classes of tags). -/
inductive Filter where
  | any
  | tag (k : Nat)
  | range (lo hi : Nat)
  deriving DecidableEq, Repr, Inhabited

def Filter.accepts : Filter → Msg → Bool
  | .any, _ => true
  | .tag k, m => m.tag == k
  | .range lo hi, m => decide (lo ≤ m.tag) && decide (m.tag < hi)

/-- Select sources; `proc r` awaits the process held in register `r`. -/
inductive Src where
  | proc (reg : Nat)
  | recv (f : Filter)
  | timeout (ms : Nat)
  deriving DecidableEq, Repr, Inhabited

/-- Abstract actions of a process script.  Register 0 holds the process's own pid, registers
1… the pids passed at spawn, then the pids of its own children in spawn order. -/
inductive Act where
  | send (reg : Nat) (tag : Nat) (seq : Nat)
  | spawn (fn : Nat) (pass : List Nat)
  | select (srcs : List Src)
  | fail
  deriving DecidableEq, Repr, Inhabited

abbrev Script := List Act
abbrev Prog := List Script

/-! ### small map / set helpers (lists as sets, functions as maps) -/

def upd {α : Type} (f : Nat → α) (i : Nat) (v : α) : Nat → α := fun j => if j = i then v else f j

@[simp] theorem upd_same {α : Type} (f : Nat → α) (i : Nat) (v : α) : upd f i v i = v := by simp [upd]
@[simp] theorem upd_other {α : Type} (f : Nat → α) (i j : Nat) (v : α) (h : j ≠ i) : upd f i v j = f j := by
  simp [upd, h]

def sinsert (l : List Nat) (x : Nat) : List Nat := if x ∈ l then l else l ++ [x]
def serase (l : List Nat) (x : Nat) : List Nat := l.filter (· ≠ x)

/-- Iterate the set `s` in the order given by the hint `ord` (first occurrences; elements the hint
does not mention come last, in `s` order). Always a permutation of `s` when `s` has no duplicates. -/
def orderBy : List Nat → List Nat → List Nat
  | [], s => s
  | o :: ord, s => if o ∈ s then o :: orderBy ord (serase s o) else orderBy ord s

def alookup {β : Type} : List (Nat × β) → Nat → Option β
  | [], _ => none
  | (k, v) :: rest, x => if k = x then some v else alookup rest x

def ainsert {β : Type} : List (Nat × β) → Nat → β → List (Nat × β)
  | [], x, v => [(x, v)]
  | (k, w) :: rest, x, v => if k = x then (k, v) :: rest else (k, w) :: ainsert rest x v

/-- `HashMap::extend`. -/
def aextend {β : Type} (m : List (Nat × β)) (more : List (Nat × β)) : List (Nat × β) :=
  more.foldl (fun acc kv => ainsert acc kv.1 kv.2) m

/-! ### processes -/

structure Proc where
  fn : Nat
  pc : Nat
  regs : List Pid
  /-- what the process has obtained from its selects so far (its result is the tuple of these) -/
  acc : List Val
  mailbox : List Msg
  /-- `Process.awaiting`: awaited pid ↦ result once known; the entries of a select's process sources
  are dropped by `complete_select` -/
  awaiting : List (Pid × Option Val)
  /-- `Process.awaiting_failed`: awaited pids (of the current select) known to have failed -/
  awaitFailed : List Pid
  /-- `SelectState.unanswered` (variant `selectWaits`; maintained always, read only by the variant):
  process sources of the current select whose worker has not answered the await yet -/
  unanswered : List Pid := []
  /-- the `Spawn` instruction at `pc` has been executed (operands popped, `Action::Spawn` emitted)
  and `notify_spawn` has not yet advanced the counter -/
  spawnIssued : Bool
  /-- `select_state.is_some()` -/
  selInit : Bool
  /-- `select_state.start_time` -/
  selStart : Option Nat
  result : Option Res
  persistent : Bool
  deriving Repr, Inhabited

def Proc.fresh (fn : Nat) (regs : List Pid) : Proc :=
  { fn := fn, pc := 0, regs := regs, acc := [], mailbox := [], awaiting := [], awaitFailed := [], spawnIssued := false, selInit := false,
    selStart := none, result := none, persistent := false }

/-- `spawn_process(id, None, …, persistent = true)`: a sleeping persistent process. -/
def Proc.sleeping (self : Pid) : Proc :=
  { Proc.fresh 0 [self] with result := some (.ok Val.nil), persistent := true }

def Proc.reg (p : Proc) (r : Nat) : Pid := p.regs.getD r 0

def Proc.script (prog : Prog) (p : Proc) : Script := prog.getD p.fn []

/-- the result of a finished process: `[script index, item₁, item₂, …]` -/
def Proc.value (p : Proc) : Val := Val.tuple ([(p.fn : Int)] :: p.acc)

/-- can the process still receive a message (`notify_message`, variant `releaseDead`)?  Not once it has
failed, nor once it has finished unless it is persistent (then it only sleeps). -/
def Proc.deliverable (x : Proc) : Bool :=
  match x.result with
  | none => true
  | some (.ok _) => x.persistent
  | some .err => false

/-- `release_dead_roots` (variant `releaseDead`), the part the protocol model sees: a process that is
not persistent gives up its mailbox, its select state and its stored await answers. -/
def Proc.releaseDead (x : Proc) : Proc :=
  if x.persistent then x
  else { x with mailbox := [], awaiting := [], awaitFailed := [], selInit := false, selStart := none, unanswered := [] }

/-- pid targets of a select (`initialize_select`: the process sources, in order). -/
def selTargets (p : Proc) : List Src → List Pid
  | [] => []
  | .proc r :: rest => p.reg r :: selTargets p rest
  | _ :: rest => selTargets p rest

def firstAccepted (f : Filter) : List Msg → Option (Msg × List Msg)
  | [] => none
  | m :: rest =>
    if f.accepts m then some (m, rest)
    else match firstAccepted f rest with
      | some (x, rest') => some (x, m :: rest')
      | none => none

/-- Readiness of a select source in the process's local state. -/
inductive Ready where
  | no
  /-- ready: the value the select yields and the mailbox afterwards -/
  | yes (v : Val) (mb : List Msg)
  /-- an awaited target failed: the select propagates the error (`handle_select_process`) -/
  | fail
  deriving Repr, Inhabited

/-- Is this single source ready in the process's local state (at clock `now`, select started at
`start`)? -/
def srcReady (p : Proc) (now start : Nat) : Src → Ready
  | .proc r =>
    if p.reg r ∈ p.awaitFailed then .fail
    else match alookup p.awaiting (p.reg r) with
    | some (some v) => .yes v p.mailbox
    | _ => .no
  | .recv f =>
    match firstAccepted f p.mailbox with
    | some (m, rest) => .yes m.val rest
    | none => .no
  | .timeout ms => if now - start ≥ ms then .yes Val.nil p.mailbox else .no

/-- `process_select_sources`: sources in written order, the first ready one decides. -/
def firstReady (p : Proc) (now start : Nat) : List Src → Ready
  | [] => .no
  | s :: rest =>
    match srcReady p now start s with
    | .no => firstReady p now start rest
    | r => r

/-- How a time slice ends. -/
inductive Outcome where
  /-- slice exhausted (or ended at a function return) with nothing routed -/
  | cont
  /-- `Action::Deliver` -/
  | send (target : Pid) (m : Msg)
  /-- `mark_spawning` + `Action::Spawn` -/
  | spawn (fn : Nat) (regs : List Pid)
  /-- `initialize_select` with process sources: `mark_selecting` + `Action::Await` -/
  | awaitInit (targets : List Pid)
  /-- no source ready: `mark_selecting` -/
  | blocked
  /-- an instruction failed: `result = Err`, frames cleared -/
  | failed
  /-- ran off the end of the function: frames exhausted -/
  | done
  deriving Repr, Inhabited

/-- One time slice of process `self`: at most `fuel` attempts (see the file header). -/
def slice (prog : Prog) (now : Nat) (self : Pid) : Nat → Proc → Proc × Outcome
  | 0, p => (p, .cont)
  | fuel + 1, p =>
    match (p.script prog)[p.pc]? with
    | none => (p, .done)
    | some (.send r tag seq) =>
      ({ p with pc := p.pc + 1 }, .send (p.reg r) { src := self, tag := tag, seq := seq })
    | some (.spawn fn pass) =>
      -- a re-executed Spawn (the process was woken while parked in `spawning`) finds its operands
      -- gone: `Err(StackUnderflow)` in statement position
      if p.spawnIssued then ({ p with result := some .err }, .failed)
      else ({ p with spawnIssued := true }, .spawn fn (pass.map p.reg))
    | some .fail => ({ p with result := some .err }, .failed)
    | some (.select srcs) =>
      if !p.selInit then
        -- initialize_select
        let ts := selTargets p srcs
        if ts.isEmpty then
          slice prog now self fuel { p with selInit := true, selStart := some now }
        else
          ({ p with selInit := true, selStart := none, unanswered := ts,
                    awaiting := ts.foldl (fun a t => ainsert a t none) p.awaiting }, .awaitInit ts)
      else if Cfg.selectWaits && !p.unanswered.isEmpty then
        -- variant `selectWaits`: answers pending — `mark_selecting`, nothing is evaluated
        (p, .blocked)
      else
        -- ensure_select_start_time + process_select_sources
        let start := p.selStart.getD now
        let p1 := { p with selStart := some start }
        match firstReady p1 now start srcs with
        | .yes v mb =>
          -- complete_select: the awaits registered for this select end with it
          let ts := selTargets p srcs
          slice prog now self fuel
            { p1 with pc := p.pc + 1, selInit := false, selStart := none, acc := p.acc ++ [v], mailbox := mb,
                      unanswered := [],
                      awaiting := p.awaiting.filter (fun kv => kv.1 ∉ ts),
                      awaitFailed := p.awaitFailed.filter (· ∉ ts) }
        | .fail => ({ p1 with result := some .err }, .failed)
        | .no => (p1, .blocked)

/-! ### messages between environment and workers (`messages.rs`) -/

abbrev Results := List (Pid × Option Res)

inductive Cmd where
  /-- UpdateProgram / CompactLocals / … : no effect on the routing protocol -/
  | misc
  /-- StartProcess {id, function_index: None} -/
  | start (p : Pid)
  | resume (p : Pid) (fn : Nat)
  /-- SpawnProcess {id, function_index, captures…}: `regs` = pids handed to the child -/
  | spawn (p : Pid) (fn : Nat) (regs : List Pid)
  | notifySpawn (caller : Pid) (newPid : Pid)
  | deliver (target : Pid) (m : Msg)
  | queryAwait (awaiter : Pid) (targets : List Pid)
  | updateAwait (awaiter : Pid) (results : Results)
  | getResult (req : Nat) (p : Pid)
  deriving DecidableEq, Repr, Inhabited

inductive Evt where
  /-- SpawnAction; `coloc` = owner process of the first resource among captures/argument, if any -/
  | spawn (caller : Pid) (fn : Nat) (regs : List Pid) (coloc : Option Pid)
  | deliver (target : Pid) (m : Msg)
  | await (awaiter : Pid) (targets : List Pid)
  | procResults (awaiter : Pid) (results : Results)
  | resultResp (req : Nat) (r : Res)
  /-- ProcessExited (variant `exitReports`): the process has terminated -/
  | exited (p : Pid)
  deriving DecidableEq, Repr, Inhabited

/-! ### worker -/

structure WorkerSt where
  /-- keys of `Executor.processes` in insertion order -/
  pids : List Pid
  procs : Pid → Option Proc
  queue : List Pid
  spawning : List Pid
  selecting : List Pid
  awaited : List Pid
  awaitersFor : Pid → List Pid
  resultReqKeys : List Pid
  resultReqs : Pid → List Nat
  deriving Inhabited

def WorkerSt.empty : WorkerSt :=
  { pids := [], procs := fun _ => none, queue := [], spawning := [], selecting := [], awaited := [],
    awaitersFor := fun _ => [], resultReqKeys := [], resultReqs := fun _ => [] }

def WorkerSt.setProc (w : WorkerSt) (p : Pid) (x : Proc) : WorkerSt :=
  { w with procs := upd w.procs p (some x), pids := sinsert w.pids p }

/-- apply `f` to process `p` if it exists -/
def WorkerSt.modProc (w : WorkerSt) (p : Pid) (f : Proc → Proc) : WorkerSt :=
  match w.procs p with
  | some x => { w with procs := upd w.procs p (some (f x)) }
  | none => w

/-- `selecting.remove(&id)` then `queue.push_back(id)` if it was there. -/
def WorkerSt.wakeSelecting (w : WorkerSt) (p : Pid) : WorkerSt :=
  if p ∈ w.selecting then { w with selecting := serase w.selecting p, queue := w.queue ++ [p] } else w

/-- `Executor::mark_active`. -/
def WorkerSt.markActive (w : WorkerSt) (p : Pid) : WorkerSt :=
  if p ∈ w.spawning ∨ p ∈ w.selecting then
    { w with spawning := serase w.spawning p, selecting := serase w.selecting p, queue := w.queue ++ [p] }
  else w

/-- does the awaiter's current select still await the target (`still_awaiting`)? -/
def Proc.stillAwaiting (x : Proc) (awaited : Pid) : Bool :=
  x.result.isNone && (alookup x.awaiting awaited).isSome

/-- `Executor::notify_result` (Ok value): stored only if still awaited; re-queue if parked. -/
def WorkerSt.notifyResultOk (w : WorkerSt) (awaiter awaited : Pid) (v : Val) : WorkerSt :=
  (w.modProc awaiter (fun x =>
    if x.stillAwaiting awaited then
      { x with awaiting := ainsert x.awaiting awaited (some v), unanswered := x.unanswered.filter (· ≠ awaited) }
    else x)).wakeSelecting awaiter

/-- `Executor::notify_failure`: a failed target is a ready source of the awaiter's current select. -/
def WorkerSt.notifyFailure (w : WorkerSt) (awaiter awaited : Pid) : WorkerSt :=
  match w.procs awaiter with
  | some x =>
    if x.stillAwaiting awaited then
      (w.modProc awaiter (fun x => { x with awaitFailed := sinsert x.awaitFailed awaited,
                                            unanswered := x.unanswered.filter (· ≠ awaited) })).wakeSelecting awaiter
    else w
  | none => w

/-- `Executor::notify_pending` (variant `selectWaits`): the target's worker has answered "not finished,
you are registered" -/
def WorkerSt.notifyPending (w : WorkerSt) (awaiter awaited : Pid) : WorkerSt :=
  w.modProc awaiter (fun x => { x with unanswered := x.unanswered.filter (· ≠ awaited) })

/-- `Worker::notify_result`. -/
def WorkerSt.notifyResult (w : WorkerSt) (awaiter awaited : Pid) : Res → WorkerSt
  | .ok v => w.notifyResultOk awaiter awaited v
  | .err => w.notifyFailure awaiter awaited

/-- `get_status` ∈ {Completed, Sleeping}. -/
def WorkerSt.completedStatus (w : WorkerSt) (p : Pid) : Option Res :=
  match w.procs p with
  | none => none
  | some x =>
    if p ∈ w.queue then none
    else if p ∈ w.spawning ∨ p ∈ w.selecting then none
    else match x.result with
      | some (.ok v) => some (.ok v)
      -- variant `selectWaits`: a failed process is complete as well (its error is in this answer)
      | some .err => if Cfg.selectWaits then some .err else none
      | none => none

def WorkerSt.resultOf (w : WorkerSt) (p : Pid) : Option Res :=
  match w.procs p with
  | some x => x.result
  | none => none

/-! ### environment -/

structure PendingAwait where
  expected : List Wid
  responses : List (Wid × Results)
  deriving Repr, Inhabited

structure Env where
  router : Pid → Option Wid
  pending : Pid → Option PendingAwait
  nextPid : Nat
  /-- answered requests (`pending_requests`) -/
  results : List (Nat × Res)
  deriving Inhabited

/-! ### the system -/

structure Sys where
  n : Nat
  prog : Prog
  env : Env
  wk : Wid → WorkerSt
  cmdQ : Wid → List Cmd
  evtQ : Wid → List Evt
  now : Nat
  /-- an `EnvironmentError` was returned by `Environment::step` / `Worker::step` -/
  fault : Bool
  /- ghost history -/
  /-- (receiver, message) in the order the sends were handled by the senders' workers -/
  sent : List (Pid × Msg)
  /-- (receiver, message) in the order `notify_message` handled them for a process the worker knows:
  appended to the mailbox (all of them unless variant `releaseDead` is on, see `deadDropped`) -/
  appended : List (Pid × Msg)
  /-- (receiver, message) dropped by `notify_message` because the process does not exist -/
  dropped : List (Pid × Msg)
  /-- (caller, new pid) for every SpawnAction handled by the environment -/
  spawned : List (Pid × Pid)
  /-- (caller, new pid) for every NotifySpawn applied by a worker; Bool = caller was re-queued -/
  spawnNotified : List (Pid × Pid × Bool)
  /-- (awaiter, target) for every completed target a worker reported in a ProcessResults event -/
  reported : List (Pid × Pid)
  /-- (awaiter, target) for every result (or error) applied to the awaiter by its worker -/
  learned : List (Pid × Pid)
  /-- variant `releaseDead`: the entries of `appended` that `notify_message` did NOT put into the mailbox
  because the receiver had failed or had finished and cannot be resumed -/
  deadDropped : List (Pid × Msg) := []
  deriving Inhabited

def Sys.pushCmd (s : Sys) (w : Wid) (c : Cmd) : Sys := { s with cmdQ := upd s.cmdQ w (s.cmdQ w ++ [c]) }
def Sys.pushEvt (s : Sys) (w : Wid) (e : Evt) : Sys := { s with evtQ := upd s.evtQ w (s.evtQ w ++ [e]) }
def Sys.setWk (s : Sys) (w : Wid) (x : WorkerSt) : Sys := { s with wk := upd s.wk w x }
def Sys.setFault (s : Sys) : Sys := { s with fault := true }

/-! #### environment handlers -/

/-- Placement of a new process: on the worker of the owner of the first resource it is handed, else
round-robin by pid. -/
def placement (s : Sys) (coloc : Option Pid) (newPid : Pid) : Wid :=
  match coloc.bind s.env.router with
  | some w => w
  | none => newPid % s.n

/-- `handle_spawn`. -/
def handleSpawn (s : Sys) (caller : Pid) (fn : Nat) (regs : List Pid) (coloc : Option Pid) : Sys :=
  let newPid := s.env.nextPid
  let w := placement s coloc newPid
  let s1 := { s with env := { s.env with nextPid := newPid + 1, router := upd s.env.router newPid (some w) } }
  let s2 := s1.pushCmd w (.spawn newPid fn regs)
  match s2.env.router caller with
  | none => s2.setFault
  | some cw => { s2.pushCmd cw (.notifySpawn caller newPid) with spawned := s2.spawned ++ [(caller, newPid)] }

/-- `handle_deliver`. -/
def handleDeliver (s : Sys) (target : Pid) (m : Msg) : Sys :=
  match s.env.router target with
  | none => s.setFault
  | some w => s.pushCmd w (.deliver target m)

/-- workers of the targets in first-occurrence order (`targets_by_worker.keys()`) -/
def targetWorkers (router : Pid → Option Wid) : List Pid → List Wid
  | [] => []
  | t :: rest =>
    let ws := targetWorkers router rest
    match router t with
    | some w => w :: ws.filter (· ≠ w)
    | none => ws

/-- `handle_await_processes`. -/
def handleAwait (s : Sys) (awaiter : Pid) (targets : List Pid) : Sys :=
  if targets.any (fun t => (s.env.router t).isNone) then s.setFault
  else
    let ws := targetWorkers s.env.router targets
    let s1 := { s with env := { s.env with pending := upd s.env.pending awaiter (some { expected := ws, responses := [] }) } }
    ws.foldl (fun acc w => acc.pushCmd w (.queryAwait awaiter (targets.filter (fun t => s.env.router t = some w)))) s1

/-- how `handle_process_results` combines a worker's new answer with its pending one -/
def mergeAnswer (old : Option Results) (new : Results) : Results :=
  match old with
  | some r => aextend r new
  | none => new

/-- the pre-b8eb814 behaviour: `responses.insert(worker_id, results)` -/
def replaceAnswer (_old : Option Results) (new : Results) : Results := new

/-- The two places where the code was repaired after defects this model exposed; the current
rules are `Rules.current`, the earlier ones are kept to show that the theorems depend on the fixes. -/
structure Rules where
  /-- `handle_process_results`: how a worker's later answer is combined with its pending one -/
  combine : Option Results → Results → Results
  /-- `update_await_results`: how the awaiter is woken after the answer's results have been applied -/
  emptyWake : WorkerSt → Pid → WorkerSt
  /-- … only if the answer carries no result at all (before fix 755cedc) -/
  wakeOnlyIfEmpty : Bool

/-- `handle_process_results`, parametric in how a worker's answers are combined. -/
def handleProcResultsWith (combine : Option Results → Results → Results)
    (s : Sys) (awaiter : Pid) (results : Results) : Sys :=
  let sender : Option Wid := match results with
    | [] => none
    | (p, _) :: _ => s.env.router p
  match s.env.pending awaiter with
  | some pa =>
    match sender with
    | none => s
    | some w =>
      let responses := ainsert pa.responses w (combine (alookup pa.responses w) results)
      let expected := pa.expected.filter (· ≠ w)
      if expected.isEmpty then
        let all : Results := (responses.map (·.2)).flatten
        let s1 := { s with env := { s.env with pending := upd s.env.pending awaiter none } }
        match s1.env.router awaiter with
        | none => s1.setFault
        | some aw => s1.pushCmd aw (.updateAwait awaiter all)
      else
        { s with env := { s.env with pending := upd s.env.pending awaiter (some { expected := expected, responses := responses }) } }
  | none =>
    match s.env.router awaiter with
    | none => s.setFault
    | some aw => s.pushCmd aw (.updateAwait awaiter results)

def handleEventWith (combine : Option Results → Results → Results) (s : Sys) : Evt → Sys
  | .spawn caller fn regs coloc => handleSpawn s caller fn regs coloc
  | .deliver t m => handleDeliver s t m
  | .await a ts => handleAwait s a ts
  | .procResults a rs => handleProcResultsWith combine s a rs
  | .resultResp req r => { s with env := { s.env with results := s.env.results ++ [(req, r)] } }
  -- `handle_process_exited`: resources only — nothing the protocol model has
  | .exited _ => s

/-- the environment consumes the first queued event of worker `w` -/
def envStep1With (combine : Option Results → Results → Results) (s : Sys) (w : Wid) : Sys :=
  match s.evtQ w with
  | [] => s
  | e :: rest => handleEventWith combine { s with evtQ := upd s.evtQ w rest } e

/-! #### worker command handlers -/

/-- `query_and_await`: returns the new worker state, the results map and the reported targets. -/
def queryTargets (w : WorkerSt) (awaiter : Pid) : List Pid → WorkerSt × Results
  | [] => (w, [])
  | t :: rest =>
    match w.completedStatus t with
    | some r =>
      ((queryTargets w awaiter rest).1, ainsert (queryTargets w awaiter rest).2 t (some r))
    | none =>
      let w1 := { w with awaited := sinsert w.awaited t, awaitersFor := upd w.awaitersFor t (w.awaitersFor t ++ [awaiter]) }
      ((queryTargets w1 awaiter rest).1, ainsert (queryTargets w1 awaiter rest).2 t none)

def reportedOf (awaiter : Pid) (rs : Results) : List (Pid × Pid) :=
  rs.filterMap (fun tr => match tr.2 with | some _ => some (awaiter, tr.1) | none => none)

/-- `update_await_results`: apply every present result, else `mark_active`. -/
def applyResults (w : WorkerSt) (awaiter : Pid) : Results → WorkerSt
  | [] => w
  | (t, some r) :: rest => applyResults (w.notifyResult awaiter t r) awaiter rest
  | (t, none) :: rest => applyResults (w.notifyPending awaiter t) awaiter rest

def handleCmdWith (R : Rules) (s : Sys) (i : Wid) : Cmd → Sys
  | .misc => s
  | .start p => s.setWk i ((s.wk i).setProc p (Proc.sleeping p))
  | .resume p fn =>
    let w := s.wk i
    if fn ≥ s.prog.length then s.setFault
    else match w.procs p with
    | none => s.setFault
    | some x =>
      match x.result with
      | some (.ok _) =>
        if x.persistent then
          s.setWk i { w with procs := upd w.procs p (some { x with result := none, fn := fn, pc := 0, acc := [] }),
                             queue := w.queue ++ [p] }
        else s.setFault
      | _ => s.setFault
  | .spawn p fn regs =>
    let w := s.wk i
    if fn ≥ s.prog.length then s.setFault
    else s.setWk i { (w.setProc p (Proc.fresh fn (p :: regs))) with queue := w.queue ++ [p] }
  | .notifySpawn caller newPid =>
    let w := s.wk i
    let was := decide (caller ∈ w.spawning)
    let w1 := { w with spawning := serase w.spawning caller }
    match w1.procs caller with
    | none => { s.setWk i w1 with spawnNotified := s.spawnNotified ++ [(caller, newPid, false)] }
    | some x =>
      let w2 := { w1 with procs := upd w1.procs caller (some { x with regs := x.regs ++ [newPid], pc := x.pc + 1, spawnIssued := false }) }
      let w3 := if was then { w2 with queue := w2.queue ++ [caller] } else w2
      { s.setWk i w3 with spawnNotified := s.spawnNotified ++ [(caller, newPid, was)] }
  | .deliver t m =>
    let w := s.wk i
    match w.procs t with
    | some x =>
      if Cfg.releaseDead && !x.deliverable then
        -- variant `releaseDead`: handled (`appended` = handled by `notify_message` for a known process)
        -- but not put into the mailbox of a process that can never receive it
        { s.setWk i (w.wakeSelecting t) with appended := s.appended ++ [(t, m)], deadDropped := s.deadDropped ++ [(t, m)] }
      else
      let w1 := { w with procs := upd w.procs t (some { x with mailbox := x.mailbox ++ [m] }) }
      { s.setWk i (w1.wakeSelecting t) with appended := s.appended ++ [(t, m)] }
    | none => { s.setWk i (w.wakeSelecting t) with dropped := s.dropped ++ [(t, m)] }
  | .queryAwait a ts =>
    let q := queryTargets (s.wk i) a ts
    { (s.setWk i q.1).pushEvt i (.procResults a q.2) with reported := s.reported ++ reportedOf a q.2 }
  | .updateAwait a rs =>
    let w := s.wk i
    let w1 := applyResults w a rs
    let w' := if R.wakeOnlyIfEmpty && rs.any (fun tr => tr.2.isSome) then w1 else R.emptyWake w1 a
    { s.setWk i w' with learned := s.learned ++ reportedOf a rs }
  | .getResult req p =>
    let w := s.wk i
    match w.procs p with
    | none => s.setFault
    | some x =>
      match x.result with
      | some r => s.pushEvt i (.resultResp req r)
      | none => s.setWk i { w with resultReqKeys := sinsert w.resultReqKeys p, resultReqs := upd w.resultReqs p (w.resultReqs p ++ [req]) }

/-- worker `i` consumes its first queued command -/
def cmdStep1With (R : Rules) (s : Sys) (i : Wid) : Sys :=
  match s.cmdQ i with
  | [] => s
  | c :: rest => handleCmdWith R { s with cmdQ := upd s.cmdQ i rest } i c

/-! #### executor step -/

/-- does a parked select have an expired timeout (`check_expired_timeouts`)? -/
def timeoutExpired (now : Nat) (start : Nat) : List Src → Bool
  | [] => false
  | .timeout ms :: rest => decide (now - start ≥ ms) || timeoutExpired now start rest
  | _ :: rest => timeoutExpired now start rest

def currentSelect (prog : Prog) (x : Proc) : Option (List Src) :=
  match (x.script prog)[x.pc]? with
  | some (.select srcs) => some srcs
  | _ => none

def procExpired (prog : Prog) (now : Nat) (x : Proc) : Bool :=
  x.selInit &&
  match x.selStart, currentSelect prog x with
  | some start, some srcs => timeoutExpired now start srcs
  | _, _ => false

def WorkerSt.expired (w : WorkerSt) (prog : Prog) (now : Nat) : List Pid :=
  w.selecting.filter (fun p => match w.procs p with
    | some x => procExpired prog now x
    | none => false)

/-- `check_expired_timeouts`. -/
def WorkerSt.checkExpired (w : WorkerSt) (prog : Prog) (now : Nat) (ordQ : List Pid) : WorkerSt :=
  let ex := orderBy ordQ (w.expired prog now)
  { w with queue := w.queue ++ ex, selecting := w.selecting.filter (· ∉ ex) }

/-- the result a finishing process stores: the error already set during execution, else its value -/
def Proc.finalRes (x : Proc) : Res :=
  match x.result with
  | some .err => .err
  | _ => .ok x.value

/-- processes on this executor whose `awaiting` map has the key `cur` -/
def WorkerSt.localAwaiters (w : WorkerSt) (cur : Pid) : List Pid :=
  w.pids.filter (fun a => match w.procs a with
    | some y => (alookup y.awaiting cur).isSome
    | none => false)

/-- The finished branch of `Executor::step`: store the result and notify the awaiters that live on
the same executor (`notify_result` / `notify_failure`). -/
def WorkerSt.release (w : WorkerSt) (cur : Pid) : WorkerSt :=
  if Cfg.releaseDead then w.modProc cur Proc.releaseDead else w

def WorkerSt.finish (w : WorkerSt) (cur : Pid) (x : Proc) (ordQ : List Pid) : WorkerSt :=
  let w1 := { w with procs := upd w.procs cur (some { x with result := some x.finalRes }) }
  ((orderBy ordQ (w1.localAwaiters cur)).foldl (fun acc a => acc.notifyResult a cur x.finalRes) w1).release cur

/-- does a finishing process only go to sleep (persistent and successful)? -/
def Proc.sleepsAfter (x : Proc) : Bool :=
  x.persistent && (match x.finalRes with | .ok _ => true | .err => false)

/-- variant `exitReports`: the worker reports the process that terminated in this step
(`take_exited` in `check_completed_processes`: after the step's action — a finishing step has none —
and before the ProcessResults / ResultResponse events of the same worker step) -/
def Sys.noteExit (s : Sys) (i : Wid) (cur : Pid) (x : Proc) : Sys :=
  if Cfg.exitReports && !x.sleepsAfter then s.pushEvt i (.exited cur) else s

/-- One `Executor::step` of worker `i` followed by `handle_action`. -/
def execStep (s : Sys) (i : Wid) (fuel : Nat) (ordQ : List Pid) : Sys :=
  let w0 := (s.wk i).checkExpired s.prog s.now ordQ
  match w0.queue with
  | [] => s.setWk i w0
  | cur :: rest =>
    let w1 := { w0 with queue := rest }
    match w1.procs cur with
    | none => s.setWk i w1
    | some x =>
      if x.result = some .err then
        -- frames were cleared by an error propagated earlier: finished branch at once
        (s.setWk i (w1.finish cur x ordQ)).noteExit i cur x
      else
        let (x', out) := slice s.prog s.now cur fuel x
        let w2 := { w1 with procs := upd w1.procs cur (some x') }
        match out with
        | .cont => s.setWk i { w2 with queue := w2.queue ++ [cur] }
        | .send t m =>
          { (s.setWk i { w2 with queue := w2.queue ++ [cur] }).pushEvt i (.deliver t m) with
              sent := s.sent ++ [(t, m)] }
        | .spawn fn regs =>
          (s.setWk i { w2 with spawning := sinsert w2.spawning cur }).pushEvt i (.spawn cur fn regs none)
        | .awaitInit ts =>
          (s.setWk i { w2 with selecting := sinsert w2.selecting cur }).pushEvt i (.await cur ts)
        | .blocked => s.setWk i { w2 with selecting := sinsert w2.selecting cur }
        | .failed => (s.setWk i (w2.finish cur x' ordQ)).noteExit i cur x'
        | .done => (s.setWk i (w2.finish cur x' ordQ)).noteExit i cur x'

/-! #### check_completed_processes -/

def completedAwaited (w : WorkerSt) : List Pid :=
  w.awaited.filter (fun t => (w.resultOf t).isSome)

/-- report one completed awaited target to all its awaiters -/
def reportTarget (s : Sys) (i : Wid) (t : Pid) : Sys :=
  let w := s.wk i
  match w.resultOf t with
  | none => s
  | some r =>
    let s1 := (w.awaitersFor t).foldl (fun acc a =>
      { acc.pushEvt i (.procResults a [(t, some r)]) with reported := acc.reported ++ [(a, t)] }) s
    s1.setWk i { w with awaitersFor := upd w.awaitersFor t [], awaited := serase w.awaited t }

def answerRequests (s : Sys) (i : Wid) (p : Pid) : Sys :=
  let w := s.wk i
  match w.resultOf p with
  | none => s
  | some r =>
    let s1 := (w.resultReqs p).foldl (fun acc req => acc.pushEvt i (.resultResp req r)) s
    s1.setWk i { w with resultReqKeys := serase w.resultReqKeys p, resultReqs := upd w.resultReqs p [] }

/-- `check_completed_processes`. -/
def checkStep (s : Sys) (i : Wid) (ordE : List Pid) : Sys :=
  let s1 := (orderBy ordE (completedAwaited (s.wk i))).foldl (fun acc t => reportTarget acc i t) s
  (s1.wk i).resultReqKeys.foldl (fun acc p => answerRequests acc i p) s1

/-! #### scheduler choices (exactly `qverif::sim::Choice`, plus the slice/iteration parameters) -/

inductive Choice where
  /-- environment step; `vis[w]` = how many queued events of worker `w` it may consume -/
  | env (vis : List Nat)
  /-- worker step: sees at most `vis` queued commands; the time slice contains `fuel` attempts -/
  | worker (i : Wid) (vis : Nat) (fuel : Nat) (ordQ : List Pid) (ordE : List Pid)
  | tick (ms : Nat)
  deriving Repr, Inhabited

def iter {α : Type} (f : α → α) : Nat → α → α
  | 0, a => a
  | k + 1, a => iter f k (f a)

/-- `Environment::step`: collect up to `vis[w]` events of each worker (in worker order), handle them. -/
def envStepWith (combine : Option Results → Results → Results) (s : Sys) (vis : List Nat) : Sys :=
  (List.range s.n).foldl (fun acc w =>
    iter (fun a => envStep1With combine a w) (min (vis.getD w (acc.evtQ w).length) (acc.evtQ w).length) acc) s

/-- `Worker::step`. -/
def workerStepWith (R : Rules) (s : Sys) (i : Wid) (vis fuel : Nat) (ordQ ordE : List Pid) : Sys :=
  let s1 := iter (fun a => cmdStep1With R a i) (min vis (s.cmdQ i).length) s
  checkStep (execStep s1 i fuel ordQ) i ordE

def sysStepWith (R : Rules) (s : Sys) : Choice → Sys
  | .env vis => envStepWith R.combine s vis
  | .worker i vis fuel ordQ ordE => if i < s.n then workerStepWith R s i vis fuel ordQ ordE else s
  | .tick ms => { s with now := s.now + ms }

/-- The code as it is now: answers merged (b8eb814); every await answer wakes the awaiter's select
(755cedc), and only a select (c08a680). -/
def Rules.current : Rules := { combine := mergeAnswer, emptyWake := WorkerSt.wakeSelecting, wakeOnlyIfEmpty := false }
/-- Before fix b8eb814: a later answer of a worker replaces its pending one. -/
def Rules.replaceAnswers : Rules := { Rules.current with combine := replaceAnswer }
/-- Before fix 755cedc: the awaiter is woken only by an answer without any result. -/
def Rules.wakeOnlyOnEmptyAnswer : Rules := { Rules.current with wakeOnlyIfEmpty := true }
/-- Before fix c08a680: an empty answer calls `mark_active`, which also un-parks a spawner. -/
def Rules.markActiveOnEmpty : Rules := { Rules.current with emptyWake := WorkerSt.markActive, wakeOnlyIfEmpty := true }

abbrev handleCmd := handleCmdWith Rules.current
abbrev cmdStep1 := cmdStep1With Rules.current
abbrev handleEvent := handleEventWith mergeAnswer
abbrev envStep1 := envStep1With mergeAnswer
abbrev envStep := envStepWith mergeAnswer
abbrev workerStep := workerStepWith Rules.current

/-- The system as the code is now. -/
def sysStep : Sys → Choice → Sys := sysStepWith Rules.current

def run (s : Sys) (cs : List Choice) : Sys := cs.foldl sysStep s
def runWith (R : Rules) (s : Sys) (cs : List Choice) : Sys := cs.foldl (sysStepWith R) s

/-- State right after `Repl::new` (persistent process 0 asleep on worker 0) and `Repl::evaluate`
of a program whose top-level script is `prog[0]` (commands queued, nothing consumed yet). -/
def Sys.init (n : Nat) (prog : Prog) (req : Nat) : Sys :=
  { n := n, prog := prog,
    env := { router := upd (fun _ => none) 0 (some 0), pending := fun _ => none, nextPid := 1, results := [] },
    wk := upd (fun _ => WorkerSt.empty) 0 (WorkerSt.empty.setProc 0 (Proc.sleeping 0)),
    cmdQ := fun w => if w = 0 then [.misc, .misc, .resume 0 0, .getResult req 0] else if w < n then [.misc] else [],
    evtQ := fun _ => [], now := 0, fault := false,
    sent := [], appended := [], dropped := [], spawned := [], spawnNotified := [], reported := [], learned := [] }

/-! #### quiescence (`Sim::quiescent`) -/

def WorkerSt.hasTimeout (w : WorkerSt) (prog : Prog) : Bool :=
  w.selecting.any (fun p => match w.procs p with
    | some x => x.selInit && x.selStart.isSome &&
        (match currentSelect prog x with
         | some srcs => srcs.any (fun s => match s with | .timeout _ => true | _ => false)
         | none => false)
    | none => false)

def Sys.idle (s : Sys) : Prop :=
  ∀ w, w < s.n → s.cmdQ w = [] ∧ s.evtQ w = [] ∧ (s.wk w).queue = []

def Sys.quiescent (s : Sys) : Prop :=
  s.idle ∧ ∀ w, w < s.n → (s.wk w).hasTimeout s.prog = false

end QM.Sys
