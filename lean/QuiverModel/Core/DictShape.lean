/-
The table M-Dict (`Core/Dict.lean`) was written against: the *shape* of `std/dict.qv` — its type
aliases, every top-level definition and every field of the exported record, each with its type
parameters, parameter type text, total number of branches (over all nested blocks), callee names in
source order (top-level definitions not shadowed by a local binding, imports, builtins, tail calls
`^`, references `&f`), integer literals in source order, and a structural skeleton of the body
(blocks `{ … | … }`, `cond => consequence`, patterns, constructors; local variables erased to `v`).

HAND-MAINTAINED, next to the model. `harness/src/bin/gen_dictshape.rs` regenerates the same table
from the live source with the real parser into `Generated/DictShape.lean` on every `./check C19`;
`C19.dict_shape_matches` (`Theorems/C19Shape.lean`) is the kernel-checked equality of the two. When
`std/dict.qv` gains an export, gains / loses / reorders a branch, calls something else or changes a
constant, the theorem fails until the model and this table follow (the trailing comment of each row
names the model definition that mirrors it). One row per line: the harness compares rows textually
to *name* the definition that changed.
-/
namespace QM.Dict

structure DefShape where
  name : String
  typeParams : List String
  param : String
  branches : Nat
  callees : List String
  ints : List Int
  skeleton : String
  deriving DecidableEq, Repr

structure ModuleShape where
  /-- (alias name — "" for the module's default type —, type parameters, definition) -/
  types : List (String × List String × String)
  defs : List DefShape
  exports : List DefShape
  deriving DecidableEq, Repr

def modelShape : ModuleShape := {
  types := [
    ("key", [], "(Str['bin] | 'bin)"),
    ("list", ["t"], "(Nil | Cons['t, ^])"),
    ("", ["v"], "(Empty | Leaf['int, 'key, 'v] | Collision['int, 'list<['key, 'v]>] | Node['int, (Nil | Cons[^, ^1])])")
  ],
  defs := [
    { name := "key_bytes", typeParams := [], param := "'key", branches := 2, callees := [], ints := [], skeleton := "{ =Str[v] => v | ='bin => $ }" },  -- ↔ keyBytes
    { name := "hash", typeParams := [], param := "'key", branches := 1, callees := ["key_bytes", "binary_hash32"], ints := [], skeleton := "{ key_bytes binary_hash32 }" },  -- ↔ keyHash (the `hash` argument of `Api.*` / `fromList` in general)
    { name := "fragment", typeParams := [], param := "['int, 'int]", branches := 1, callees := ["%num.sub", "%int.shift", "%int.and"], ints := [0, 31], skeleton := "{ =[v, v], [0, v] %num.sub [v, ~] %int.shift [~, 31] %int.and }" },  -- ↔ fragment
    { name := "slot_index", typeParams := [], param := "['int, 'int]", branches := 1, callees := ["%num.sub", "%int.and", "%int.popcount"], ints := [1], skeleton := "{ =[v, v], [v, 1] %num.sub [v, ~] %int.and %int.popcount }" },  -- ↔ slotIndex
    { name := "revcat", typeParams := ["t"], param := "['list<'t>, 'list<'t>]", branches := 3, callees := ["^"], ints := [], skeleton := "{ =[v, v], v { =Nil => v | =Cons[v, v] => Cons[v, v] [v, ~] ^ } }" },  -- ↔ revcat
    { name := "length", typeParams := ["t"], param := "['list<'t>, 'int]", branches := 3, callees := ["%num.add", "^"], ints := [1], skeleton := "{ =[v, v], v { =Nil => v | =Cons[_, v] => [v, [v, 1] %num.add] ^ } }" },  -- ↔ length
    { name := "map", typeParams := ["t", "u"], param := "['list<'t>, #'t -> 'u, 'list<'u>]", branches := 3, callees := ["revcat", "^"], ints := [], skeleton := "{ =[v, v, v], v { =Nil => [v, Nil] revcat | =Cons[v, v] => Cons[v v, v] [v, &v, ~] ^ } }" },  -- ↔ map
    { name := "child_at", typeParams := ["v"], param := "['list<'<'v>>, 'int]", branches := 5, callees := ["%num.sub", "^"], ints := [0, 1], skeleton := "{ =[v, v], v { =Nil => Empty | =Cons[v, v] => { v =0 => v | [v, 1] %num.sub [v, ~] ^ } } }" },  -- ↔ childAt
    { name := "insert_at", typeParams := ["t"], param := "['list<'t>, 'int, 't, 'list<'t>]", branches := 5, callees := ["revcat", "revcat", "%num.sub", "^"], ints := [0, 1], skeleton := "{ =[v, v, v, v], { v =0 => Cons[v, v] [v, ~] revcat | v { =Nil => Cons[v, Nil] [v, ~] revcat | =Cons[v, v] => [v, 1] %num.sub [v, ~, v, Cons[v, v]] ^ } } }" },  -- ↔ insertAt
    { name := "update_at", typeParams := ["t"], param := "['list<'t>, 'int, 't, 'list<'t>]", branches := 5, callees := ["revcat", "revcat", "%num.sub", "^"], ints := [0, 1], skeleton := "{ =[v, v, v, v], v { =Nil => [v, Nil] revcat | =Cons[v, v] => { v =0 => [v, Cons[v, v]] revcat | [v, 1] %num.sub [v, ~, v, Cons[v, v]] ^ } } }" },  -- ↔ updateAt
    { name := "remove_at", typeParams := ["t"], param := "['list<'t>, 'int, 'list<'t>]", branches := 5, callees := ["revcat", "revcat", "%num.sub", "^"], ints := [0, 1], skeleton := "{ =[v, v, v], v { =Nil => [v, Nil] revcat | =Cons[v, v] => { v =0 => [v, v] revcat | [v, 1] %num.sub [v, ~, Cons[v, v]] ^ } } }" },  -- ↔ removeAt
    { name := "bucket_get", typeParams := ["v"], param := "['list<['key, 'v]>, 'key]", branches := 5, callees := ["^"], ints := [], skeleton := "{ =[v, v], v { =Nil => [] | =Cons[[v, v], v] => { v =&v => v | [v, v] ^ } } }" },  -- ↔ bucketGet
    { name := "bucket_put", typeParams := ["v"], param := "['list<['key, 'v]>, 'key, 'v, 'list<['key, 'v]>]", branches := 5, callees := ["revcat", "revcat", "^"], ints := [], skeleton := "{ =[v, v, v, v], v { =Nil => Cons[[v, v], Nil] [v, ~] revcat | =Cons[[v, v], v] => { v =&v => Cons[[v, v], v] [v, ~] revcat | Cons[[v, v], v] [v, v, v, ~] ^ } } }" },  -- ↔ bucketPut
    { name := "bucket_remove", typeParams := ["v"], param := "['list<['key, 'v]>, 'key, 'list<['key, 'v]>]", branches := 5, callees := ["revcat", "revcat", "^"], ints := [], skeleton := "{ =[v, v, v], v { =Nil => [v, Nil] revcat | =Cons[[v, v], v] => { v =&v => [v, v] revcat | Cons[[v, v], v] [v, v, ~] ^ } } }" },  -- ↔ bucketRemove
    { name := "get", typeParams := ["v"], param := "['<'v>, 'key, 'int, 'int]", branches := 11, callees := ["bucket_get", "fragment", "%int.shift", "%int.and", "slot_index", "child_at", "%num.add", "^"], ints := [1, 0, 5], skeleton := "{ =[v, v, v, v], v { =Empty => [] | =Leaf[_, v, v] => { v =&v => v | [] } | =Collision[_, v] => [v, v] bucket_get | =Node[v, v] => { v = [v, v] fragment [1, ~] %int.shift, { [v, v] %int.and =0 => [] | { v = [v, v] slot_index [v, ~] child_at, [v, 5] %num.add [v, v, v, ~] ^ } } } } }" },  -- ↔ get
    { name := "split_pair", typeParams := ["v"], param := "[#^ -> '<'v>, 'int, 'key, 'v, 'int, 'key, 'v, 'int]", branches := 9, callees := ["bucket_put", "bucket_put", "fragment", "fragment", "%num.add", "%int.shift", "%int.shift", "%int.shift", "%int.or", "%num.lt?"], ints := [5, 1, 1, 1], skeleton := "{ =[v, v, v, v, v, v, v, v], { v =&v => [Nil, v, v, Nil] bucket_put [~, v, v, Nil] bucket_put Collision[v, ~] | v = [v, v] fragment, v = [v, v] fragment, { v =&v => { v = [v, 5] %num.add [&v, v, v, v, v, v, v, ~] v Cons[~, Nil], [1, v] %int.shift Node[~, v] } | { v = [[1, v] %int.shift, [1, v] %int.shift] %int.or, { [v, v] %num.lt? => Node[v, Cons[Leaf[v, v, v], Cons[Leaf[v, v, v], Nil]]] | Node[v, Cons[Leaf[v, v, v], Cons[Leaf[v, v, v], Nil]]] } } } } }" },  -- ↔ splitPair (fuelled)
    { name := "split_node", typeParams := ["v"], param := "[#^ -> '<'v>, '<'v>, 'int, 'int, 'key, 'v, 'int]", branches := 5, callees := ["fragment", "fragment", "%int.shift", "%num.add", "%int.shift", "%int.shift", "%int.or", "%num.lt?"], ints := [1, 5, 1, 1], skeleton := "{ =[v, v, v, v, v, v, v], v = [v, v] fragment, v = [v, v] fragment, { v =&v => Node[[1, v] %int.shift, Cons[[&v, v, v, v, v, v, [v, 5] %num.add] v, Nil]] | v = [[1, v] %int.shift, [1, v] %int.shift] %int.or, { [v, v] %num.lt? => Node[v, Cons[v, Cons[Leaf[v, v, v], Nil]]] | Node[v, Cons[Leaf[v, v, v], Cons[v, Nil]]] } } }" },  -- ↔ splitNode (fuelled)
    { name := "put", typeParams := ["v"], param := "[#^ -> '<'v>, '<'v>, 'key, 'v, 'int, 'int]", branches := 14, callees := ["&split_pair", "split_pair", "bucket_put", "&split_node", "split_node", "fragment", "%int.shift", "slot_index", "%int.and", "%int.or", "insert_at", "child_at", "%num.add", "update_at"], ints := [1, 0, 5], skeleton := "{ =[v, v, v, v, v, v], v { =Empty => Leaf[v, v, v] | =Leaf[v, v, v] => { v =&v => Leaf[v, v, v] | { [&split_pair, v, v, v, v, v, v, v] split_pair } } | =Collision[v, v] => { v =&v => Collision[v, [v, v, v, Nil] bucket_put] | { [&split_node, v, v, v, v, v, v] split_node } } | =Node[v, v] => { v = [v, v] fragment [1, ~] %int.shift, v = [v, v] slot_index, { [v, v] %int.and =0 => Node[[v, v] %int.or, [v, v, Leaf[v, v, v], Nil] insert_at] | v = [v, v] child_at, v = [&v, v, v, v, v, [v, 5] %num.add] v, Node[v, [v, v, v, Nil] update_at] } } } }" },  -- ↔ put
    { name := "collapse_node", typeParams := ["v"], param := "['int, 'list<'<'v>>]", branches := 6, callees := [], ints := [], skeleton := "{ =[v, v], { v =Nil => Empty | v =Cons[v, Nil] => v { =Node[_, _] => Node[v, v] | =v => v } | Node[v, v] } }" },  -- ↔ collapseNode
    { name := "remove_slot", typeParams := ["v"], param := "['int, 'int, 'list<'<'v>>, 'int]", branches := 1, callees := ["%int.not", "%int.and", "remove_at", "collapse_node"], ints := [], skeleton := "{ =[v, v, v, v], [[v, v %int.not] %int.and, [v, v, Nil] remove_at] collapse_node }" },  -- ↔ removeSlot
    { name := "remove", typeParams := ["v"], param := "[#^ -> '<'v>, '<'v>, 'key, 'int, 'int]", branches := 17, callees := ["bucket_remove", "fragment", "%int.shift", "%int.and", "slot_index", "child_at", "%num.add", "remove_slot", "update_at", "collapse_node"], ints := [1, 0, 5], skeleton := "{ =[v, v, v, v, v], v { =Empty => Empty | =Leaf[v, v, v] => { v =&v => Empty | Leaf[v, v, v] } | =Collision[v, v] => { v = [v, v, Nil] bucket_remove, { v =Nil => Empty | v =Cons[[v, v], Nil] => Leaf[v, v, v] | Collision[v, v] } } | =Node[v, v] => { v = [v, v] fragment [1, ~] %int.shift, { [v, v] %int.and =0 => Node[v, v] | v = [v, v] slot_index, v = [v, v] child_at, [&v, v, v, v, [v, 5] %num.add] v { =Empty => [v, v, v, v] remove_slot | =v => { [v, [v, v, v, Nil] update_at] collapse_node } } } } } }" },  -- ↔ remove
    { name := "entries", typeParams := ["v"], param := "['list<'<'v>>, 'list<['key, 'v]>]", branches := 7, callees := ["^", "^", "revcat", "^", "revcat", "^"], ints := [], skeleton := "{ =[v, v], v { =Nil => v | =Cons[v, v] => v { =Empty => [v, v] ^ | =Leaf[_, v, v] => [v, Cons[[v, v], v]] ^ | =Collision[_, v] => [v, [v, v] revcat] ^ | =Node[_, v] => [[v, v] revcat, v] ^ } } }" },  -- ↔ entries
    { name := "from", typeParams := ["v"], param := "[#^ -> '<'v>, '<'v>, 'list<['key, 'v]>]", branches := 4, callees := ["&put", "hash", "put"], ints := [0], skeleton := "{ =[v, v, v], v { =Nil => v | =Cons[[v, v], v] => { [&put, v, v, v, v hash, 0] put [&v, ~, v] v } } }" }  -- ↔ fromList
  ],
  exports := [
    { name := "new", typeParams := [], param := "", branches := 1, callees := [], ints := [], skeleton := "{ Empty }" },  -- ↔ Api.new
    { name := "get", typeParams := ["v"], param := "['<'v>, 'key]", branches := 1, callees := ["hash", "get"], ints := [0], skeleton := "{ [$.0, $.1, $.1 hash, 0] get }" },  -- ↔ Api.get
    { name := "put", typeParams := ["v"], param := "['<'v>, 'key, 'v]", branches := 1, callees := ["&put", "hash", "put"], ints := [0], skeleton := "{ [&put, $.0, $.1, $.2, $.1 hash, 0] put }" },  -- ↔ Api.put
    { name := "remove", typeParams := ["v"], param := "['<'v>, 'key]", branches := 1, callees := ["&remove", "hash", "remove"], ints := [0], skeleton := "{ [&remove, $.0, $.1, $.1 hash, 0] remove }" },  -- ↔ Api.remove
    { name := "has?", typeParams := ["v"], param := "['<'v>, 'key]", branches := 1, callees := ["hash", "get"], ints := [0], skeleton := "{ [$.0, $.1, $.1 hash, 0] get, Ok }" },  -- ↔ Api.has
    { name := "count", typeParams := ["v"], param := "'<'v>", branches := 1, callees := ["entries", "length"], ints := [0], skeleton := "{ Cons[~, Nil] [~, Nil] entries [~, 0] length }" },  -- ↔ Api.count
    { name := "entries", typeParams := ["v"], param := "'<'v>", branches := 1, callees := ["entries"], ints := [], skeleton := "{ Cons[~, Nil] [~, Nil] entries }" },  -- ↔ Api.entries
    { name := "keys", typeParams := ["v"], param := "'<'v>", branches := 2, callees := ["entries", "map"], ints := [], skeleton := "{ Cons[~, Nil] [~, Nil] entries [~, # { $.0 }, Nil] map }" },  -- ↔ Api.keys
    { name := "values", typeParams := ["v"], param := "'<'v>", branches := 2, callees := ["entries", "map"], ints := [], skeleton := "{ Cons[~, Nil] [~, Nil] entries [~, # { $.1 }, Nil] map }" },  -- ↔ Api.values
    { name := "iter", typeParams := ["v"], param := "'<'v>", branches := 3, callees := ["entries", "%iter.unfold"], ints := [], skeleton := "{ Cons[~, Nil] [~, Nil] entries [~, #<'v>'list<['key, 'v]> { =Cons[v, v] => [v, v] | =Nil => [] }] %iter.unfold }" },  -- ↔ (no model definition: `entries` handed out one by one; the harness compares `iter … count` with `Api.count`)
    { name := "from", typeParams := ["v"], param := "'list<['key, 'v]>", branches := 1, callees := ["&from", "from"], ints := [], skeleton := "{ [&from, Empty, ~] from }" },  -- ↔ Api.from
    { name := "merge", typeParams := ["v"], param := "['<'v>, '<'v>]", branches := 1, callees := ["entries", "&from", "from"], ints := [], skeleton := "{ Cons[$.1, Nil] [~, Nil] entries [&from, $.0, ~] from }" }  -- ↔ Api.merge
  ] }


/-- FNV-1a 32-bit parameters the model's `fnv1a32` was written with -/
def modelHashOffset32 : Nat := 2166136261
def modelHashPrime32 : Nat := 16777619

end QM.Dict
