/-
Shared, import-free helpers for the model drivers: hex and integer parsing, the line loop.
Nothing in here is part of any model; it is driver glue (trusted, see DESIGN §3).
-/
namespace QM

def hexDigit (c : Char) : Option Nat :=
  if '0' ≤ c ∧ c ≤ '9' then some (c.toNat - '0'.toNat)
  else if 'a' ≤ c ∧ c ≤ 'f' then some (c.toNat - 'a'.toNat + 10)
  else if 'A' ≤ c ∧ c ≤ 'F' then some (c.toNat - 'A'.toNat + 10)
  else none

/-- Parse an even-length hex string into bytes (as `Nat`s < 256). -/
def parseHexNat : List Char → Option (List Nat)
  | [] => some []
  | [_] => none
  | a :: b :: rest =>
    match hexDigit a, hexDigit b, parseHexNat rest with
    | some x, some y, some r => some ((x * 16 + y) :: r)
    | _, _, _ => none

def parseHex (s : String) : Option (List UInt8) :=
  (parseHexNat s.toList).map (·.map (fun n => UInt8.ofNat n))

def hexChar (n : Nat) : Char :=
  if n < 10 then Char.ofNat ('0'.toNat + n) else Char.ofNat ('a'.toNat + (n - 10))

def toHex (bs : List UInt8) : String :=
  String.ofList (bs.foldr (fun b acc => hexChar (b.toNat / 16) :: hexChar (b.toNat % 16) :: acc) [])

def parseInt (s : String) : Option Int := s.toInt?

def parseNat (s : String) : Option Nat := s.toNat?

/-- Split a request line into space-separated tokens (no empty tokens). -/
def tokens (line : String) : List String :=
  (line.trimAscii.toString.splitOn " ").filter (· ≠ "")

/-- The driver loop: read a line, answer with one line, flush. Ends at EOF. -/
partial def lineLoop {σ : Type} (step : σ → String → σ × String) (init : σ) : IO Unit := do
  let stdin ← IO.getStdin
  let stdout ← IO.getStdout
  let rec go (s : σ) : IO Unit := do
    let line ← stdin.getLine
    if line.isEmpty then return ()
    let (s', out) := step s line
    stdout.putStrLn out
    stdout.flush
    go s'
  go init

end QM

namespace QM

/-- S-expressions: the structured payload syntax of all driver protocols. -/
inductive Sx where
  | atom (s : String)
  | list (xs : List Sx)
  deriving Inhabited, Repr

namespace Sx

partial def render : Sx → String
  | atom s => s
  | list xs => "(" ++ " ".intercalate (xs.map render) ++ ")"

/-- Tokenise: parentheses are their own tokens; atoms are maximal runs of other non-space chars. -/
def lex (cs : List Char) : List String :=
  let rec go (cs : List Char) (cur : List Char) (acc : List String) : List String :=
    -- `flush` is a thunk: a strict `let` here would rebuild the pending atom on every character
    -- (quadratic in the length of an atom; an 32 kB hex payload took half a minute).
    let flush := fun (_ : Unit) => if cur.isEmpty then acc else String.ofList cur.reverse :: acc
    match cs with
    | [] => (flush ()).reverse
    | c :: rest =>
      if c = '(' ∨ c = ')' then go rest [] (String.singleton c :: flush ())
      else if c = ' ' ∨ c = '\n' ∨ c = '\r' ∨ c = '\t' then go rest [] (flush ())
      else go rest (c :: cur) acc
  go cs [] []

/-- Parse a token stream into a list of S-expressions (top level). -/
partial def parseMany (toks : List String) : Option (List Sx × List String) :=
  match toks with
  | [] => some ([], [])
  | ")" :: _ => some ([], toks)
  | "(" :: rest =>
    match parseMany rest with
    | some (inner, ")" :: rest') =>
      match parseMany rest' with
      | some (more, r) => some (list inner :: more, r)
      | none => none
    | _ => none
  | t :: rest =>
    match parseMany rest with
    | some (more, r) => some (atom t :: more, r)
    | none => none

def parseLine (line : String) : Option (List Sx) :=
  match parseMany (lex line.toList) with
  | some (xs, []) => some xs
  | _ => none

def asAtom : Sx → Option String
  | atom s => some s
  | _ => none

def asList : Sx → Option (List Sx)
  | list xs => some xs
  | _ => none

def asNat (x : Sx) : Option Nat := x.asAtom.bind String.toNat?
def asInt (x : Sx) : Option Int := x.asAtom.bind String.toInt?

end Sx

/-- Line loop over parsed S-expression requests; unparsable input answers `bad-request`. -/
def sxLoop {σ : Type} (step : σ → List Sx → σ × String) (init : σ) : IO Unit :=
  lineLoop (fun s line =>
    match Sx.parseLine line with
    | some xs => step s xs
    | none => (s, "bad-request")) init

end QM
