/-
M-Repl — the REPL session as a state machine (import-free; owner: C11).

Mirrors
  quiver-environment/src/repl.rs      `evaluate` (parse → `compact` → compile on clones → commit program /
                                      module cache / bindings only on success → resume → request result
                                      with `keep_indices`), `keep_indices`, `compact`
  quiver-environment/src/worker.rs    `compact_locals` (new locals = kept values, in keep order; a bad index
                                      is an error and leaves the locals alone), `resume_process` (previous
                                      result pushed as the new line's argument, frame with `locals_base = 0`),
                                      `get_result` with `keep_locals` → `release_orphan_locals` on success
  quiver-core/src/executor.rs         `replace_locals`, `release_orphan_locals` (non-kept slots overwritten
                                      with nil, indices stay), the `should_clear_locals` rule of frame exit
  quiver-compiler/src/compiler.rs     `compile`: `local_count = max bound index + 1`; first `Store` puts the
                                      parameter (previous result) at `local_count`

The state: `bindings` (variable name → local index; type aliases carry no index and are omitted),
`locals` of the persistent process, `lastResult` (the process's stored result, which `resume_process`
pushes as the next line's argument). Values are a parameter `α` (the theorems never look inside one;
the driver instantiates `α := String` with tokens the harness maps to canonical values).

What a line *does* (compilation + execution) is not modelled — it is summarised by a `LineEffect`:
the bindings the compiler returned, the locals the line's function appended (its parameter slot,
temporaries, new variables — after its own `Reset`s), and its result. The assumptions about that
summary (where the compiler puts new bindings, that old slots are not touched) are explicit hypotheses
of `runLine_preserves_aligned` and are checked per line by the correspondence harness.
-/
namespace QM.Repl

/-- Insertion sort on indices (`indices.sort()` in `keep_indices`; duplicates kept). -/
def insertSorted (a : Nat) : List Nat → List Nat
  | [] => [a]
  | b :: bs => if a ≤ b then a :: b :: bs else b :: insertSorted a bs

def sortNat : List Nat → List Nat
  | [] => []
  | a :: as => insertSorted a (sortNat as)

structure Session (α : Type) where
  bindings : List (String × Nat)
  locals : List α
  lastResult : α
  /-- `Repl.last_result_type`: the static type the next line's parameter is compiled against (a token;
      the model never looks inside a type) -/
  lastResultTy : String := "[]"
  /-- `Repl.module_cache` (the ids of the cached modules; the cached values themselves are C10's
      subject). Compilation works on a per-line **clone** that is committed only on success. -/
  moduleCache : List String := []
  deriving Repr

variable {α : Type}

/-- `Repl::keep_indices`: sorted local indices of every bound variable. -/
def keepIndices (bindings : List (String × Nat)) : List Nat := sortNat (bindings.map (·.2))

/-- `index_mapping` of `Repl::compact`: `for (new, old) in keep.enumerate() { map.insert(old, new) }` —
    a later occurrence of the same old index overwrites an earlier one, so the image of `old` is the
    position of its **last** occurrence in `keep` (offset `base` for the recursion). -/
def newIndexFrom (base : Nat) (old : Nat) : List Nat → Option Nat
  | [] => none
  | k :: ks =>
    match newIndexFrom (base + 1) old ks with
    | some j => some j
    | none => if k = old then some base else none

def newIndex (keep : List Nat) (old : Nat) : Option Nat := newIndexFrom 0 old keep

/-- `Worker::compact_locals`: the kept values in keep order; `none` = `LocalNotFound` (some index out
    of range), in which case the locals are left alone (`Repl::compact` ignores the error). -/
def keptValues (locals : List α) : List Nat → Option (List α)
  | [] => some []
  | i :: is =>
    match locals[i]?, keptValues locals is with
    | some v, some vs => some (v :: vs)
    | _, _ => none

/-- `Repl::compact` (+ `Environment::compact_locals` → `Worker::compact_locals` → `replace_locals`). -/
def compact (s : Session α) : Session α :=
  let keep := keepIndices s.bindings
  { bindings := s.bindings.map (fun p => (p.1, (newIndex keep p.2).getD p.2)),
    locals := (keptValues s.locals keep).getD s.locals,
    lastResult := s.lastResult,
    lastResultTy := s.lastResultTy,
    moduleCache := s.moduleCache }

/-- Value of a variable as `request_variable` reads it: binding index, then that local. -/
def lookup (s : Session α) (x : String) : Option α :=
  match s.bindings.lookup x with
  | some i => s.locals[i]?
  | none => none

/-- `Executor::release_orphan_locals`: every slot whose index is not kept is overwritten with nil. -/
def releaseFrom (nil : α) (keep : List Nat) (base : Nat) : List α → List α
  | [] => []
  | v :: vs => (if keep.contains base then v else nil) :: releaseFrom nil keep (base + 1) vs

def releaseOrphans (nil : α) (keep : List Nat) (locals : List α) : List α := releaseFrom nil keep 0 locals

/-- Summary of a successfully compiled and executed line. -/
structure LineEffect (α : Type) where
  /-- the bindings `Compiler::compile` returned (variables only) -/
  bindings : List (String × Nat)
  /-- what the line's function left appended to the locals when its frame exited (persistent
      top-level frame: locals are kept) -/
  appended : List α
  result : α
  /-- the line's static result type (`Compiled.result_type`) -/
  resultTy : String := "[]"
  /-- modules the line imported (entries its compilation added to the cloned module cache) -/
  imports : List String := []

/-- What can happen to a submitted line. -/
inductive LineOutcome (α : Type) where
  /-- `parse` failed: `evaluate` returns before touching anything -/
  | parseError
  /-- `Compiler::compile` failed: `compact` already ran, nothing else is committed — in particular not
      the modules the line had `attempted` to import before the error (they live in the discarded clone
      of the module cache, with ids of the discarded clone of the program) -/
  | compileError (attempted : List String)
  /-- type definitions / imports only: bindings and module cache committed, nothing runs -/
  | noCode (bindings : List (String × Nat)) (imports : List String)
  /-- compiled, resumed, ran to a value, result delivered (with the orphan release) -/
  | ran (eff : LineEffect α)

/-- `Repl::evaluate` followed by the delivery of the result.

    A line that runs no code (`noCode`: type definitions only) commits its bindings and **keeps both the
    stored result and its type**: nothing is resumed, so the value that will flow into the next line is
    still the old one and must still be typed as such (repl.rs since 7b757f2: `last_result_type` is
    assigned only `if !instructions.is_empty()`). -/
def addModules (cache imports : List String) : List String :=
  imports.foldl (fun c m => if c.contains m then c else c ++ [m]) cache

def runLine (nil : α) (s : Session α) : LineOutcome α → Session α
  | .parseError => s
  | .compileError _ => compact s
  | .noCode b im => { compact s with bindings := b, moduleCache := addModules s.moduleCache im }
  | .ran eff =>
    let c := compact s
    { bindings := eff.bindings,
      locals := releaseOrphans nil (keepIndices eff.bindings) (c.locals ++ eff.appended),
      lastResult := eff.result,
      lastResultTy := eff.resultTy,
      moduleCache := addModules s.moduleCache eff.imports }

/-- The rule before 7b757f2 (finding F-C11-1), kept as a witness: every successfully compiled line —
    also a code-less one, whose `compile_top_level` result type is nil — overwrote `last_result_type`. -/
def runLineOld (nil : α) (s : Session α) : LineOutcome α → Session α
  | .noCode b im => { compact s with bindings := b, lastResultTy := "[]", moduleCache := addModules s.moduleCache im }
  | o => runLine nil s o

/-- A rule that keeps the module cache of a line that failed to compile (the shape of the seeded
    changes C11-1 / C10-3 / C07-3: compile into `self.module_cache`, or commit the clone on failure),
    kept as a witness: the rejected line is then no longer a no-op. -/
def runLineLeaky (nil : α) (s : Session α) : LineOutcome α → Session α
  | .compileError att => { compact s with moduleCache := addModules s.moduleCache att }
  | o => runLine nil s o

/-- The flowing value is typed by the recorded type (`hasTy` is whatever typing judgement one likes). -/
def ArgTyped (hasTy : α → String → Prop) (s : Session α) : Prop := hasTy s.lastResult s.lastResultTy

/-- The argument the next line's function starts with (`resume_process` pushes `process.result`). -/
def nextArgument (s : Session α) : α := s.lastResult

/-- `local_count` the compiler starts a line with: `max bound index + 1` (0 without variables). -/
def localCount (bindings : List (String × Nat)) : Nat :=
  bindings.foldl (fun m p => max m (p.2 + 1)) 0

/-- The alignment invariant: every bound variable's slot holds that variable's value. -/
def Aligned (s : Session α) (valueOf : String → α) : Prop :=
  ∀ x i, s.bindings.lookup x = some i → s.locals[i]? = some (valueOf x)

/-- Every binding index is a valid local index. -/
def InRange (s : Session α) : Prop := ∀ p ∈ s.bindings, p.2 < s.locals.length

/-- `should_clear_locals = !persistent || !is_last_frame` (frame auto-pop in `Executor::step`). -/
def shouldClearLocals (persistent isLastFrame : Bool) : Bool := !persistent || !isLastFrame

/-- Locals after a frame with `locals_base = base` exits. -/
def localsAfterFrameExit (persistent isLastFrame : Bool) (base : Nat) (locals : List α) : List α :=
  if shouldClearLocals persistent isLastFrame then locals.take base else locals

end QM.Repl
