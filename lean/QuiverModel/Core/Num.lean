import QuiverModel.Core.Builtins.Integer
/-
M-Num — hand translation of `std/num.qv` (function by function, branch by branch, in source order)
and of the literal desugaring in `quiver-compiler/src/parser.rs` (`reduce_rational`,
`decimal_parts`, `fraction_parts`, `rational_term`).

Conventions of the translation
* A Quiver value that may be nil is an `Option`: nil = `none`.
* Every builtin call goes through the integer model of `QuiverModel.Core.Builtins.Integer`
  (`i*` wrappers below).  A builtin *error* (division / modulo by zero, square root of a negative)
  is NOT turned into nil: it stays visible as `Res.err`, a Rust panic as `Res.panic`.
* The two self tail calls (`^` in `reduce` and `sqfree`) are loops; Lean wants them total, so they
  carry a fuel counter and answer `Res.fuelOut` when it runs out.  `reduce` gets fuel 2 (it calls
  itself at most once), `sqfree` gets fuel `m.toNat + 2`; theorems `C20.reduce_never_fuelOut` /
  `C20.sqfree_terminates` show the fuel is never exhausted, i.e. the loops terminate.
* A literal pattern `=-1` / `=0` / `=1` on the result of `__integer_compare__` is `if c = -1 …`;
  a failing pattern makes the condition nil, i.e. control goes to the next branch.
* Arguments are evaluated left to right, as the compiler emits them.
-/
namespace QM.Num
open QM QM.Builtins

/-- Outcome of a modelled `num.qv` function. -/
inductive Res (α : Type) where
  | ok (v : α)
  | err (e : ErrClass)
  | panic
  | fuelOut
  deriving DecidableEq, Repr

namespace Res
def bind {α β} (o : Res α) (f : α → Res β) : Res β :=
  match o with
  | .ok v => f v
  | .err e => .err e
  | .panic => .panic
  | .fuelOut => .fuelOut

def isOk {α} : Res α → Bool
  | .ok _ => true
  | _ => false
end Res

instance : Monad Res where
  pure := .ok
  bind := Res.bind

def lift {α} : Outcome α → Res α
  | .ok v => .ok v
  | .err e => .err e
  | .panic => .panic

/-! ### builtin calls used by num.qv -/
def iAdd (a b : Int) : Res Int := lift (integerAdd a b)
def iSub (a b : Int) : Res Int := lift (integerSubtract a b)
def iMul (a b : Int) : Res Int := lift (integerMultiply a b)
def iDiv (a b : Int) : Res Int := lift (integerDivide a b)
def iMod (a b : Int) : Res Int := lift (integerModulo a b)
def iGcd (a b : Int) : Res Int := lift (integerGcd a b)
def iCompare (a b : Int) : Res Int := lift (integerCompare a b)
def iAbs (a : Int) : Res Int := lift (integerAbs a)
def iSqrt (a : Int) : Res Int := lift (integerSqrt a)

/-! ### values -/

/-- `Rational[n, d]` -/
structure Rt where
  n : Int
  d : Int
  deriving DecidableEq, Repr, Inhabited

/-- `'coeff = 'int | 'rational` -/
inductive Coeff where
  | int (z : Int)
  | rat (n d : Int)
  deriving DecidableEq, Repr, Inhabited

/-- `' = 'coeff | 'surd`; `'opt` is `Option Num`. -/
inductive Num where
  | int (z : Int)
  | rat (n d : Int)
  | surd (a b : Coeff) (n : Int)
  deriving DecidableEq, Repr, Inhabited

def Coeff.toNum : Coeff → Num
  | .int z => .int z
  | .rat n d => .rat n d

def Rt.toCoeff (r : Rt) : Coeff := .rat r.n r.d
def Rt.toNum (r : Rt) : Num := .rat r.n r.d

/-! ### rational kernel -/

/-- `reduce`, with the self tail call of the first branch as a fuelled loop. -/
def reduceF : Nat → Rt → Res Rt
  | 0, _ => .fuelOut
  | fuel + 1, ⟨n, d⟩ => do
    let c ← iCompare d 0
    if c = -1 then do
      let n' ← iMul n (-1)
      let d' ← iMul d (-1)
      reduceF fuel ⟨n', d'⟩
    else do
      let g ← iGcd n d
      let n' ← iDiv n g
      let d' ← iDiv d g
      pure ⟨n', d'⟩

def reduce (r : Rt) : Res Rt := reduceF 2 r

/-- `lower = #'coeff { =Rational[n, 1] => n | =x => x }` -/
def lower : Coeff → Coeff
  | .rat n 1 => .int n
  | x => x

/-- `to_rational` -/
def toRational : Coeff → Rt
  | .rat n d => ⟨n, d⟩
  | .int n => ⟨n, 1⟩

def rsign (r : Rt) : Res Int := iCompare r.n 0

def rneg (r : Rt) : Res Rt := do
  let n' ← iMul r.n (-1)
  reduce ⟨n', r.d⟩

def radd (x y : Rt) : Res Rt := do
  let ad ← iMul x.n y.d
  let cb ← iMul y.n x.d
  let s ← iAdd ad cb
  let bd ← iMul x.d y.d
  reduce ⟨s, bd⟩

def rsub (x y : Rt) : Res Rt := do
  let ad ← iMul x.n y.d
  let cb ← iMul y.n x.d
  let s ← iSub ad cb
  let bd ← iMul x.d y.d
  reduce ⟨s, bd⟩

def rmul (x y : Rt) : Res Rt := do
  let ac ← iMul x.n y.n
  let bd ← iMul x.d y.d
  reduce ⟨ac, bd⟩

def rquot (x y : Rt) : Res Rt := do
  let ad ← iMul x.n y.d
  let bc ← iMul x.d y.n
  reduce ⟨ad, bc⟩

def rcompare (x y : Rt) : Res Int := do
  let ad ← iMul x.n y.d
  let cb ← iMul y.n x.d
  iCompare ad cb

/-! ### surd kernel -/

/-- `sqfree = #['int, 'int, 'int] { =[k, m, d] … }` as a fuelled loop. -/
def sqfreeF : Nat → Int → Int → Int → Res (Int × Int)
  | 0, _, _, _ => .fuelOut
  | fuel + 1, k, m, d => do
    let dd ← iMul d d
    let c ← iCompare dd m
    if c = 1 then pure (k, m)
    else do
      let dd2 ← iMul d d
      let r ← iMod m dd2
      if r = 0 then do
        let k' ← iMul k d
        let dd3 ← iMul d d
        let m' ← iDiv m dd3
        sqfreeF fuel k' m' d
      else do
        let d' ← iAdd d 1
        sqfreeF fuel k m d'

/-- `[k, m, d] sqfree`; the fuel bound is justified by `C20.sqfree_terminates`. -/
def sqfree (k m d : Int) : Res (Int × Int) := sqfreeF (m.toNat + 2) k m d

/-- `explode` -/
def explode : Num → Rt × Rt × Int
  | .surd a b n => (toRational a, toRational b, n)
  | .int z => (toRational (.int z), ⟨0, 1⟩, 1)
  | .rat n d => (toRational (.rat n d), ⟨0, 1⟩, 1)

/-- `radical`: the shared radical, or nil. -/
def radical (b1 : Rt) (n1 : Int) (b2 : Rt) (n2 : Int) : Res (Option Int) := do
  let s1 ← rsign b1
  if s1 = 0 then pure (some n2)
  else do
    let s2 ← rsign b2
    if s2 = 0 then pure (some n1)
    else do
      let c ← iCompare n1 n2
      if c = 0 then pure (some n1) else pure none

/-- `build` -/
def build (a b : Rt) (n : Int) : Res Num := do
  let c ← iCompare n 1
  if c = 0 then do
    let r ← radd a b
    pure (lower r.toCoeff).toNum
  else do
    let s ← rsign b
    if s = 0 then pure (lower a.toCoeff).toNum
    else pure (.surd (lower a.toCoeff) (lower b.toCoeff) n)

/-- `ssign` -/
def ssign (a b : Rt) (n : Int) : Res Int := do
  let sb ← rsign b
  let c0 ← iCompare sb 0
  if c0 = 0 then rsign a
  else do
    let a2 ← rmul a a
    let bb ← rmul b b
    let b2n ← rmul bb ⟨n, 1⟩
    let dsign ← rcompare a2 b2n
    let sa ← rsign a
    let c1 ← iCompare sb 0
    if c1 = 1 then do
      let c2 ← iCompare sa 0
      if c2 = -1 then iMul dsign (-1) else pure 1
    else do
      let c3 ← iCompare sa 0
      if c3 = 1 then pure dsign else pure (-1)

def surdAdd (x y : Num) : Res (Option Num) :=
  match explode x, explode y with
  | (a1, b1, n1), (a2, b2, n2) => do
    match ← radical b1 n1 b2 n2 with
    | none => pure none
    | some n => do
      let a ← radd a1 a2
      let b ← radd b1 b2
      let z ← build a b n
      pure (some z)

def surdSub (x y : Num) : Res (Option Num) :=
  match explode x, explode y with
  | (a1, b1, n1), (a2, b2, n2) => do
    match ← radical b1 n1 b2 n2 with
    | none => pure none
    | some n => do
      let a ← rsub a1 a2
      let b ← rsub b1 b2
      let z ← build a b n
      pure (some z)

def surdMul (x y : Num) : Res (Option Num) :=
  match explode x, explode y with
  | (a1, b1, n1), (a2, b2, n2) => do
    match ← radical b1 n1 b2 n2 with
    | none => pure none
    | some n => do
      let a1a2 ← rmul a1 a2
      let b1b2 ← rmul b1 b2
      let b1b2n ← rmul b1b2 ⟨n, 1⟩
      let a ← radd a1a2 b1b2n
      let a1b2 ← rmul a1 b2
      let a2b1 ← rmul a2 b1
      let b ← radd a1b2 a2b1
      let z ← build a b n
      pure (some z)

def surdDiv (x y : Num) : Res (Option Num) :=
  match explode x, explode y with
  | (a1, b1, n1), (a2, b2, n2) => do
    match ← radical b1 n1 b2 n2 with
    | none => pure none
    | some n => do
      let a2a2 ← rmul a2 a2
      let b2b2 ← rmul b2 b2
      let b2b2n ← rmul b2b2 ⟨n, 1⟩
      let dd ← rsub a2a2 b2b2n
      let s ← rsign dd
      if s = 0 then pure none
      else do
        let a1a2 ← rmul a1 a2
        let b1b2 ← rmul b1 b2
        let b1b2n ← rmul b1b2 ⟨n, 1⟩
        let na ← rsub a1a2 b1b2n
        let a ← rquot na dd
        let b1a2 ← rmul b1 a2
        let a1b2 ← rmul a1 b2
        let nb ← rsub b1a2 a1b2
        let b ← rquot nb dd
        let z ← build a b n
        pure (some z)

def surdCompare (x y : Num) : Res (Option Int) :=
  match explode x, explode y with
  | (a1, b1, n1), (a2, b2, n2) => do
    match ← radical b1 n1 b2 n2 with
    | none => pure none
    | some n => do
      let a ← rsub a1 a2
      let b ← rsub b1 b2
      let s ← ssign a b n
      pure (some s)

/-- view of a non-surd number as a coefficient -/
def Num.coeff? : Num → Option Coeff
  | .int z => some (.int z)
  | .rat n d => some (.rat n d)
  | .surd _ _ _ => none

/-- `compare = #['opt, 'opt] { … }` — seven branches in source order. -/
def compare : Option Num → Option Num → Res (Option Int)
  | none, _ => pure none
  | _, none => pure none
  | some (.surd a b n), some y => surdCompare (.surd a b n) y
  | some x, some (.surd a b n) => surdCompare x (.surd a b n)
  | some (.rat a b), some (.int y) => do let c ← rcompare ⟨a, b⟩ (toRational (.int y)); pure (some c)
  | some (.rat a b), some (.rat c d) => do let r ← rcompare ⟨a, b⟩ (toRational (.rat c d)); pure (some r)
  | some (.int x), some (.rat c d) => do let r ← rcompare (toRational (.int x)) ⟨c, d⟩; pure (some r)
  | some (.int x), some (.int y) => do let c ← iCompare x y; pure (some c)

/-- `to_int` -/
def toInt : Option Num → Res (Option Int)
  | some (.surd a b n) => do
    let ar := toRational a
    let br := toRational b
    let sgn ← ssign ar br n
    let c ← iCompare sgn 0
    let (pq : Rt × Rt) ← (if c = -1 then do
        let x ← rneg ar
        let y ← rneg br
        pure (x, y)
      else pure (ar, br))
    match pq with
    | (⟨pa, qa⟩, ⟨pb, qb⟩) => do
      let p ← iMul pa qb
      let q ← iMul pb qa
      let d ← iMul qa qb
      let qq ← iMul q q
      let qqn ← iMul qq n
      let s ← iSqrt qqn
      let c1 ← iCompare q 0
      let nlo ← (if c1 = 1 then iAdd p s
        else do
          let s1 ← iAdd s 1
          iSub p s1)
      let t ← iDiv nlo d
      let r ← iMul sgn t
      pure (some r)
  | some (.int z) =>
    match toRational (.int z) with
    | ⟨m, d⟩ => do let t ← iDiv m d; pure (some t)
  | some (.rat n d') =>
    match toRational (.rat n d') with
    | ⟨m, d⟩ => do let t ← iDiv m d; pure (some t)
  | none => pure none

/-- `sign = #'opt { [$, 0] compare }` -/
def sign (x : Option Num) : Res (Option Int) := compare x (some (.int 0))

/-- `min`: `[x, y] compare` is its own step, so a nil comparison (incompatible radicals)
short-circuits to nil; then `{ | =1 => y | x }`. -/
def min : Option Num → Option Num → Res (Option Num)
  | none, _ => pure none
  | some _, none => pure none
  | some x, some y => do
    match ← compare (some x) (some y) with
    | none => pure none
    | some c => if c = 1 then pure (some y) else pure (some x)

/-- `max` -/
def max : Option Num → Option Num → Res (Option Num)
  | none, _ => pure none
  | some _, none => pure none
  | some x, some y => do
    match ← compare (some x) (some y) with
    | none => pure none
    | some c => if c = -1 then pure (some y) else pure (some x)

/-- `clamp`: `[x, lo] compare, { | =-1 => lo | [x, hi] compare, { | =1 => hi | x } }` — each
comparison is a step of a sequence, nil short-circuits; `hi` is only looked at when `x ≥ lo`. -/
def clamp : Option Num → Option Num → Option Num → Res (Option Num)
  | none, _, _ => pure none
  | some _, none, _ => pure none
  | some _, some _, none => pure none
  | some x, some lo, some hi => do
    match ← compare (some x) (some lo) with
    | none => pure none
    | some c =>
      if c = -1 then pure (some lo)
      else do
        match ← compare (some x) (some hi) with
        | none => pure none
        | some c' => if c' = 1 then pure (some hi) else pure (some x)

/-- `floor` (as of 1b40f7e): `| =[] => [] | =x => { t = x to_int, { | [x, t] compare =-1 => … | t } }`.
For nil the first branch's condition is the matched nil, so control reaches `=x`, whose bare binder
matches nil as well and again yields nil: the block is nil. For a number `t = x to_int` is an
integer (the `none` arm below is the bare binder letting a nil `t` through: the comparison is then
nil, the `=-1` test fails and the result is `t`, i.e. nil). -/
def floor : Option Num → Res (Option Int)
  | none => pure none
  | some x => do
    match ← toInt (some x) with
    | none => pure none
    | some t => do
      let c ← compare (some x) (some (.int t))
      if c = some (-1) then do let r ← iSub t 1; pure (some r) else pure (some t)

/-- `ceil` (same shape as `floor`) -/
def ceil : Option Num → Res (Option Int)
  | none => pure none
  | some x => do
    match ← toInt (some x) with
    | none => pure none
    | some t => do
      let c ← compare (some x) (some (.int t))
      if c = some 1 then do let r ← iAdd t 1; pure (some r) else pure (some t)

/-- `round`: the first branch (`=[] => []`) and a nil `floor` both end in nil. -/
def round : Option Num → Res (Option Int)
  | none => pure none
  | some x => do
    match ← floor (some x) with
    | none => pure none
    | some f => do
      let f2 ← iMul f 2
      let f21 ← iAdd f2 1
      let mid : Num := .rat f21 2
      let c ← compare (some x) (some mid)
      if c = some 1 then do let r ← iAdd f 1; pure (some r)
      else do
        let c' ← compare (some x) (some mid)
        if c' = some (-1) then pure (some f)
        else do
          let c'' ← iCompare f 0
          if c'' = -1 then pure (some f)
          else do let r ← iAdd f 1; pure (some r)

/-! ### the exported record -/

def numer : Option Num → Res (Option Int)
  | some (.surd _ _ _) => pure none
  | some (.rat n _) => pure (some n)
  | some (.int z) => pure (some z)
  | none => pure none

def denom : Option Num → Res (Option Int)
  | some (.surd _ _ _) => pure none
  | some (.rat _ d) => pure (some d)
  | some (.int _) => pure (some 1)
  | none => pure none

/-- body of the `'coeff` branch of `sqrt` -/
def sqrtCoeff (c : Coeff) : Res (Option Num) :=
  match toRational c with
  | ⟨p, q⟩ => do
    let c1 ← iCompare p 0
    if c1 = -1 then pure none
    else do
      let c2 ← iCompare p 0
      if c2 = 0 then pure (some (.int 0))
      else do
        let pq ← iMul p q
        let (k, m) ← sqfree 1 pq 2
        let b ← reduce ⟨k, q⟩
        let z ← build ⟨0, 1⟩ b m
        pure (some z)

def sqrt : Option Num → Res (Option Num)
  | some (.surd _ _ _) => pure none
  | some (.int z) => sqrtCoeff (.int z)
  | some (.rat n d) => sqrtCoeff (.rat n d)
  | none => pure none

def add : Option Num → Option Num → Res (Option Num)
  | none, _ => pure none
  | _, none => pure none
  | some (.surd a b n), some y => surdAdd (.surd a b n) y
  | some x, some (.surd a b n) => surdAdd x (.surd a b n)
  | some (.rat a b), some (.int y) => do let r ← radd ⟨a, b⟩ (toRational (.int y)); pure (some r.toNum)
  | some (.rat a b), some (.rat c d) => do let r ← radd ⟨a, b⟩ (toRational (.rat c d)); pure (some r.toNum)
  | some (.int x), some (.rat c d) => do let r ← radd (toRational (.int x)) ⟨c, d⟩; pure (some r.toNum)
  | some (.int a), some (.int b) => do let r ← iAdd a b; pure (some (.int r))

def sub : Option Num → Option Num → Res (Option Num)
  | none, _ => pure none
  | _, none => pure none
  | some (.surd a b n), some y => surdSub (.surd a b n) y
  | some x, some (.surd a b n) => surdSub x (.surd a b n)
  | some (.rat a b), some (.int y) => do let r ← rsub ⟨a, b⟩ (toRational (.int y)); pure (some r.toNum)
  | some (.rat a b), some (.rat c d) => do let r ← rsub ⟨a, b⟩ (toRational (.rat c d)); pure (some r.toNum)
  | some (.int x), some (.rat c d) => do let r ← rsub (toRational (.int x)) ⟨c, d⟩; pure (some r.toNum)
  | some (.int a), some (.int b) => do let r ← iSub a b; pure (some (.int r))

def mul : Option Num → Option Num → Res (Option Num)
  | none, _ => pure none
  | _, none => pure none
  | some (.surd a b n), some y => surdMul (.surd a b n) y
  | some x, some (.surd a b n) => surdMul x (.surd a b n)
  | some (.rat a b), some (.int y) => do let r ← rmul ⟨a, b⟩ (toRational (.int y)); pure (some r.toNum)
  | some (.rat a b), some (.rat c d) => do let r ← rmul ⟨a, b⟩ (toRational (.rat c d)); pure (some r.toNum)
  | some (.int x), some (.rat c d) => do let r ← rmul (toRational (.int x)) ⟨c, d⟩; pure (some r.toNum)
  | some (.int a), some (.int b) => do let r ← iMul a b; pure (some (.int r))

/-- last branch of `div`: both operands int/rational -/
def divCoeff (x y : Coeff) : Res (Option Num) :=
  match toRational x, toRational y with
  | ⟨a, b⟩, ⟨c, d⟩ =>
    if c = 0 then pure none
    else do
      let ad ← iMul a d
      let bc ← iMul b c
      let r ← reduce ⟨ad, bc⟩
      pure (some r.toNum)

def div : Option Num → Option Num → Res (Option Num)
  | none, _ => pure none
  | _, none => pure none
  | some (.surd a b n), some y => surdDiv (.surd a b n) y
  | some x, some (.surd a b n) => surdDiv x (.surd a b n)
  | some (.rat a b), some (.int y) => divCoeff (.rat a b) (.int y)
  | some (.rat a b), some (.rat c d) => divCoeff (.rat a b) (.rat c d)
  | some (.int x), some (.rat c d) => divCoeff (.int x) (.rat c d)
  | some (.int x), some (.int y) => divCoeff (.int x) (.int y)

def neg : Option Num → Res (Option Num)
  | some (.surd a b n) => do
    let a' ← rneg (toRational a)
    let b' ← rneg (toRational b)
    let z ← build a' b' n
    pure (some z)
  | some (.rat m d) => do
    let m' ← iMul m (-1)
    let r ← reduce ⟨m', d⟩
    pure (some r.toNum)
  | some (.int z) => do let r ← iMul z (-1); pure (some (.int r))
  | none => pure none

def abs : Option Num → Res (Option Num)
  | some (.surd a b n) => do
    let ar := toRational a
    let br := toRational b
    let s ← ssign ar br n
    if s = -1 then do
      let a' ← rneg ar
      let b' ← rneg br
      let z ← build a' b' n
      pure (some z)
    else pure (some (.surd a b n))
  | some (.rat m d) => do let m' ← iAbs m; pure (some (.rat m' d))
  | some (.int z) => do let r ← iAbs z; pure (some (.int r))
  | none => pure none

/-- `eq?: #['opt, 'opt] { compare =0, Ok }` — `some ()` is `Ok`. -/
def eqQ (x y : Option Num) : Res (Option Unit) := do
  let c ← compare x y
  if c = some 0 then pure (some ()) else pure none
def ltQ (x y : Option Num) : Res (Option Unit) := do
  let c ← compare x y
  if c = some (-1) then pure (some ()) else pure none
def leQ (x y : Option Num) : Res (Option Unit) := do
  let c ← compare x y
  if c = some (-1) then pure (some ()) else if c = some 0 then pure (some ()) else pure none
def gtQ (x y : Option Num) : Res (Option Unit) := do
  let c ← compare x y
  if c = some 1 then pure (some ()) else pure none
def geQ (x y : Option Num) : Res (Option Unit) := do
  let c ← compare x y
  if c = some 0 then pure (some ()) else if c = some 1 then pure (some ()) else pure none

/-! ### literal desugaring (`parser.rs`) -/

/-- `reduce_rational` (num-bigint `gcd` is non-negative; `/` truncates) -/
def reduceRational (numer denom : Int) : Int × Int :=
  let g : Int := Int.ofNat (Int.gcd numer denom)
  if g = 0 then (numer, denom) else (Int.tdiv numer g, Int.tdiv denom g)

/-- value of a decimal digit string (`str::parse::<BigInt>`), most significant digit first -/
def digitsVal (ds : List Nat) : Nat := ds.foldl (fun acc d => acc * 10 + d) 0

/-- `decimal_parts`: sign, integer-part digits, fraction-part digits -/
def decimalParts (neg : Bool) (ip fp : List Nat) : Int × Int :=
  let magnitude : Int := Int.ofNat (digitsVal (ip ++ fp))
  let numer := if neg then -magnitude else magnitude
  (numer, (10 : Int) ^ fp.length)

/-- `fraction_parts`: `none` is the parse error for a zero denominator -/
def fractionParts (neg : Bool) (np dp : List Nat) : Option (Int × Int) :=
  let magnitude : Int := Int.ofNat (digitsVal np)
  let numer := if neg then -magnitude else magnitude
  let denom : Int := Int.ofNat (digitsVal dp)
  if denom = 0 then none else some (numer, denom)

/-- `rational_term` -/
def rationalTerm (nd : Int × Int) : Num :=
  match reduceRational nd.1 nd.2 with
  | (n, d) => .rat n d

def decimalLit (neg : Bool) (ip fp : List Nat) : Num := rationalTerm (decimalParts neg ip fp)
def fractionLit (neg : Bool) (np dp : List Nat) : Option Num :=
  (fractionParts neg np dp).map rationalTerm

end QM.Num
