/-
M-Sys, resource part (property C14) — import-free, executable.

Mirrors, branch by branch and in source order,
  * quiver-environment/src/environment.rs : `resource_ownership`, `handle_effect_request`,
    `report_effect_error`, `handle_effect_completion`, `transfer_resource_ownership`,
    `handle_deliver`, `handle_spawn` (incl. the co-location rule, which reads the ownership map),
    `handle_process_results → cleanup_process_resources`, `start_process`, and the
    `process_completions` prologue of `Environment::step`;
  * quiver-core/src/effects.rs : `Effect::resource_id`, `EffectBackend::{execute,
    process_completions, close_resource}`;
  * quiver-io/src/effects.rs + native_backend.rs at the level "which resource id an effect uses /
    creates / closes": ids come from a counter starting at 1 and are never reused, `execute` of a
    using/closing effect on an id that is not in the registry fails at submission, accept/connect
    allocate the new id when their completion is collected.

The backend is a LOG (`executed`, `closeCalls`) plus the id allocator and the registry of open ids.
Whether the outside world lets an operation succeed is an input bit (`w`) of the event.

What is NOT modelled here: message routing / await bookkeeping (`pending_awaits`, forwarding of
`UpdateAwaitResults`) — that is M-Sys proper (`Core/Sys`, properties C04/C15); a missing backend
(`effect_backend = None`: `handle_effect_request` returns an `EnvironmentError`, cleanup is skipped);
resource *types* (`\File` vs `\Dir` — a static matter).
-/
namespace QM.Resources

abbrev Pid := Nat
abbrev Rid := Nat
abbrev Wid := Nat

/-! ## Values, as far as resources are concerned (`quiver_core::value::Value`) -/

/-- `Value::Resource` / `Value::Tuple(_, fields)` / `Value::Function(_, captures)` / everything
else (integers, binaries, process ids, builtins: `_ => {}` in `transfer_resource_ownership`). -/
inductive Val where
  | res (r : Rid)
  | tuple (fields : List Val)
  | func (captures : List Val)
  | other
  deriving Repr, Inhabited

mutual
/-- Every resource id occurring in a value, in traversal order, through tuples and captures. -/
def Val.resources : Val → List Rid
  | .res r => [r]
  | .tuple fs => resourcesList fs
  | .func cs => resourcesList cs
  | .other => []
def resourcesList : List Val → List Rid
  | [] => []
  | v :: vs => v.resources ++ resourcesList vs
end

/-! ## The ownership map (`HashMap<ResourceId, ProcessId>`) as an association list -/

abbrev Own := List (Rid × Pid)

/-- `HashMap::get` -/
def ownGet : Own → Rid → Option Pid
  | [], _ => none
  | (k, p) :: t, r => if k = r then some p else ownGet t r

/-- `HashMap::remove` -/
def ownErase (m : Own) (r : Rid) : Own := m.filter (fun e => e.1 ≠ r)

/-- `HashMap::insert` (replaces an existing entry) -/
def ownInsert (m : Own) (r : Rid) (p : Pid) : Own := (r, p) :: ownErase m r

/-- `.iter().filter(|(_, owner)| **owner == process_id).map(|(rid, _)| *rid).collect()` -/
def ownedBy (m : Own) (p : Pid) : List Rid := (m.filter (fun e => e.2 = p)).map (·.1)

def ownKeys (m : Own) : List Rid := m.map (·.1)

mutual
/-- `transfer_resource_ownership(value, new_owner)` -/
def transfer (m : Own) (v : Val) (q : Pid) : Own :=
  match v with
  | .res r => ownInsert m r q
  | .tuple fs => transferList m fs q
  | .func cs => transferList m cs q
  | .other => m
/-- `for field in fields.iter() { self.transfer_resource_ownership(field, new_owner) }` -/
def transferList (m : Own) (vs : List Val) (q : Pid) : Own :=
  match vs with
  | [] => m
  | v :: rest => transferList (transfer m v q) rest q
end

/-! ## Effects (`quiver_io::NativeEffect`) -/

inductive Kind where
  | fileOpen | fileRead | fileWrite | fileFlush | fileClose
  | stat
  | readDirOpen | readDirNext | readDirClose
  | dnsResolve | dnsNext | dnsClose
  | tcpConnect | tcpListen | tcpListenerAccept | tcpListenerClose
  | tcpSocketRead | tcpSocketWrite | tcpSocketClose
  deriving DecidableEq, Repr, Inhabited

/-- `Effect::resource_id()` is `Some(_)` exactly for these kinds (quiver-io/src/effects.rs). -/
def Kind.usesResource : Kind → Bool
  | .fileOpen | .stat | .readDirOpen | .dnsResolve | .tcpConnect | .tcpListen => false
  | .fileRead | .fileWrite | .fileFlush | .fileClose | .readDirNext | .readDirClose
  | .dnsNext | .dnsClose | .tcpListenerAccept | .tcpListenerClose
  | .tcpSocketRead | .tcpSocketWrite | .tcpSocketClose => true

/-- How the native backend treats a kind at the level of resource ids. -/
inductive Shape where
  | createSync    -- allocates an id in `execute`, immediate `Ok(Resource(id))`
  | createAsync   -- tcp_connect: submitted; the id is allocated when the completion is collected
  | statLike      -- no resource at all, immediate
  | useSync       -- registry lookup, immediate
  | useAsync      -- registry lookup, submitted to the ring
  | acceptAsync   -- registry lookup, submitted; completion allocates a new id
  | closeSync     -- registry remove, immediate
  deriving DecidableEq, Repr

def Kind.shape : Kind → Shape
  | .fileOpen | .readDirOpen | .dnsResolve | .tcpListen => .createSync
  | .tcpConnect => .createAsync
  | .stat => .statLike
  | .readDirNext | .dnsNext => .useSync
  | .fileRead | .fileWrite | .fileFlush | .tcpSocketRead | .tcpSocketWrite => .useAsync
  | .tcpListenerAccept => .acceptAsync
  | .fileClose | .readDirClose | .dnsClose | .tcpSocketClose | .tcpListenerClose => .closeSync

/-- An effect: its kind and (for the kinds that operate on an existing resource) the id. -/
structure Effect where
  kind : Kind
  rid : Rid := 0
  deriving DecidableEq, Repr, Inhabited

def Effect.resourceId (e : Effect) : Option Rid :=
  if e.kind.usesResource then some e.rid else none

/-! ## The backend: a log + the id allocator + the registry -/

/-- What a completion carries, as far as `handle_effect_completion` can tell. -/
inductive Res where
  | okRes (r : Rid)   -- `Ok((Value::Resource(r, _), _))`
  | okOther           -- `Ok((v, _))`, `v` not a bare resource
  | err               -- `Err(_)`
  deriving DecidableEq, Repr, Inhabited

inductive Pending where
  | plain (ok : Bool)      -- Read / Write / Flush in flight
  | creating (ok : Bool)   -- Accept / Connect in flight: success allocates a fresh id at collection
  deriving DecidableEq, Repr, Inhabited

/-- Result of `EffectBackend::execute`. -/
inductive Reply where
  | immediate (r : Res)   -- `Ok(Some(result))`
  | submitted             -- `Ok(None)`
  | failed                -- `Err(error)`
  deriving DecidableEq, Repr, Inhabited

structure Backend where
  /-- every `execute(pid, effect)` call, oldest first -/
  executed : List (Pid × Effect) := []
  /-- every `close_resource(id)` call, oldest first (`closedByCleanup`) -/
  closeCalls : List Rid := []
  /-- ghost: every close (explicit close effect or `close_resource`) that removed an open id -/
  effClosed : List Rid := []
  /-- `next_resource_id` -/
  nextRid : Rid := 1
  /-- keys of `resources` -/
  openSet : List Rid := []
  /-- `pending` (FIFO of submitted operations) -/
  pending : List (Pid × Pending) := []
  deriving Repr, Inhabited

def Backend.alloc (b : Backend) : Backend × Rid :=
  ({ b with nextRid := b.nextRid + 1, openSet := b.nextRid :: b.openSet }, b.nextRid)

/-- `EffectBackend::execute(process_id, effect)`; `w` = the outside world lets it succeed. -/
def Backend.execute (b : Backend) (p : Pid) (e : Effect) (w : Bool) : Backend × Reply :=
  let b := { b with executed := b.executed ++ [(p, e)] }
  match e.kind.shape with
  | .createSync =>
    if w then let (b', r) := b.alloc; (b', .immediate (.okRes r)) else (b, .failed)
  | .createAsync => ({ b with pending := b.pending ++ [(p, .creating w)] }, .submitted)
  | .statLike => if w then (b, .immediate .okOther) else (b, .failed)
  | .useSync =>
    if e.rid ∈ b.openSet then (if w then (b, .immediate .okOther) else (b, .failed))
    else (b, .failed)
  | .useAsync =>
    if e.rid ∈ b.openSet then ({ b with pending := b.pending ++ [(p, .plain w)] }, .submitted)
    else (b, .failed)
  | .acceptAsync =>
    if e.rid ∈ b.openSet then ({ b with pending := b.pending ++ [(p, .creating w)] }, .submitted)
    else (b, .failed)
  | .closeSync =>
    if e.rid ∈ b.openSet then
      ({ b with openSet := b.openSet.filter (· ≠ e.rid), effClosed := b.effClosed ++ [e.rid] },
        .immediate .okOther)
    else (b, .failed)

/-- `EffectBackend::close_resource(id)`: remove from the registry; no-op if absent. -/
def Backend.closeResource (b : Backend) (r : Rid) : Backend :=
  { b with
    closeCalls := b.closeCalls ++ [r]
    openSet := b.openSet.filter (· ≠ r)
    effClosed := if r ∈ b.openSet then b.effClosed ++ [r] else b.effClosed }

/-- Collect one finished operation (`handle_*_completion`). -/
def Backend.completeOne (b : Backend) (x : Pid × Pending) : Backend × (Pid × Res) :=
  match x.2 with
  | .plain ok => (b, (x.1, if ok then .okOther else .err))
  | .creating true => let (b', r) := b.alloc; (b', (x.1, .okRes r))
  | .creating false => (b, (x.1, .err))

def Backend.completeAll (b : Backend) : List (Pid × Pending) → Backend × List (Pid × Res)
  | [] => (b, [])
  | x :: xs =>
    let (b1, c) := b.completeOne x
    let (b2, cs) := b1.completeAll xs
    (b2, c :: cs)

/-- `EffectBackend::process_completions()`: the `n` oldest submitted operations have finished. -/
def Backend.processCompletions (b : Backend) (n : Nat) : Backend × List (Pid × Res) :=
  let done := b.pending.take n
  { b with pending := b.pending.drop n }.completeAll done

/-! ## The environment -/

/-- Commands the environment sends to workers (only those this model is concerned with). -/
inductive Cmd where
  | effectCompletion (p : Pid) (r : Res)
  | spawnProcess (w : Wid) (id : Pid)
  | notifySpawn (caller : Pid) (spawned : Pid)
  | deliverMessage (target : Pid)
  | startProcess (w : Wid) (id : Pid)
  deriving DecidableEq, Repr, Inhabited

/-- `EnvironmentError`s a handler can return early with. -/
inductive Fault where
  | processNotFound (p : Pid)
  deriving DecidableEq, Repr, Inhabited

structure Env where
  owner : Own := []
  router : List (Pid × Wid) := []
  nextPid : Pid := 0
  nWorkers : Nat := 1
  /-- `persistent_processes`: processes started through `start_process` (the REPL's process, the main
  process of `quiv run`): a successful result of such a process means "sleeping until resumed" -/
  persistent : List Pid := []
  /-- `exited_processes` (repair of F10, /repo 5cb2956): processes whose `ProcessExited` has been handled. They own
  nothing: what they owned was closed then, what is handed to them later is closed on arrival. -/
  exited : List Pid := []
  backend : Backend := {}
  out : List Cmd := []
  faults : List Fault := []
  deriving Repr, Inhabited

def routeGet : List (Pid × Wid) → Pid → Option Wid
  | [], _ => none
  | (k, w) :: t, p => if k = p then some w else routeGet t p

/-- `report_effect_error(process_id, _)` -/
def reportEffectError (s : Env) (p : Pid) : Env :=
  match routeGet s.router p with
  | none => { s with faults := s.faults ++ [.processNotFound p] }
  | some _ => { s with out := s.out ++ [.effectCompletion p .err] }

/-- `handle_effect_completion(process_id, result)`: register a created resource to the requesting
process FIRST, then forward the completion. -/
def handleEffectCompletion (s : Env) (p : Pid) (res : Res) : Env :=
  let s := match res with
    | .okRes r => { s with owner := ownInsert s.owner r p }
    | _ => s
  match routeGet s.router p with
  | none => { s with faults := s.faults ++ [.processNotFound p] }
  | some _ => { s with out := s.out ++ [.effectCompletion p res] }

/-- The ownership check of `handle_effect_request`: `Some(rid) = effect.resource_id() &&
Some(owner) = resource_ownership.get(rid) && owner != process_id`. -/
def violatesOwnership (m : Own) (p : Pid) (e : Effect) : Bool :=
  match e.resourceId with
  | none => false
  | some r =>
    match ownGet m r with
    | none => false
    | some o => o != p

/-- `handle_effect_request(process_id, effect)` -/
def handleEffectRequest (s : Env) (p : Pid) (e : Effect) (w : Bool) : Env :=
  if violatesOwnership s.owner p e then reportEffectError s p
  else
    let (b', reply) := s.backend.execute p e w
    let s := { s with backend := b' }
    match reply with
    | .immediate res => handleEffectCompletion s p res
    | .submitted => s
    | .failed => reportEffectError s p

def handleCompletionsList (s : Env) : List (Pid × Res) → Env
  | [] => s
  | (p, r) :: rest => handleCompletionsList (handleEffectCompletion s p r) rest

/-- Prologue of `Environment::step`: collect finished operations and forward each. -/
def handleCompletions (s : Env) (n : Nat) : Env :=
  let (b', cs) := s.backend.processCompletions n
  handleCompletionsList { s with backend := b' } cs

/-- The co-location rule of `handle_spawn`: the first *top-level* resource among captures ++
[argument] whose owner is known and routed decides the worker; otherwise round-robin. -/
def colocate (m : Own) (router : List (Pid × Wid)) : List Val → Option Wid
  | [] => none
  | .res r :: rest =>
    match (ownGet m r).bind (routeGet router) with
    | some w => some w
    | none => colocate m router rest
  | _ :: rest => colocate m router rest

/-- `handle_spawn(caller, _, captures, argument, _)` -/
def handleSpawn (s : Env) (caller : Pid) (captures : List Val) (argument : Val) : Env :=
  let newPid := s.nextPid
  let w := (colocate s.owner s.router (captures ++ [argument])).getD (newPid % s.nWorkers)
  let s1 : Env :=
    { s with
      nextPid := s.nextPid + 1
      router := (newPid, w) :: s.router.filter (fun e => e.1 ≠ newPid)
      owner := transfer (transferList s.owner captures newPid) argument newPid
      out := s.out ++ [Cmd.spawnProcess w newPid] }
  match routeGet s1.router caller with
  | none => { s1 with faults := s1.faults ++ [Fault.processNotFound caller] }
  | some _ => { s1 with out := s1.out ++ [Cmd.notifySpawn caller newPid] }

/-- `start_process(_)` (the REPL's persistent process, `quiv run`'s main process). -/
def startProcess (s : Env) : Env :=
  let pid := s.nextPid
  let w := pid % s.nWorkers
  { s with nextPid := pid + 1
           router := (pid, w) :: s.router.filter (fun e => e.1 ≠ pid)
           persistent := pid :: s.persistent
           out := s.out ++ [.startProcess w pid] }

def closeAll (b : Backend) : List Rid → Backend
  | [] => b
  | r :: rs => closeAll (b.closeResource r) rs

def eraseAll (m : Own) : List Rid → Own
  | [] => m
  | r :: rs => eraseAll (ownErase m r) rs

/-- `cleanup_process_resources(process_id)`: close every resource registered to `process_id` and
drop its registration. (The Rust loop interleaves `close_resource` and `remove`; the two touch
disjoint state, so the model does all closes then all removes.) -/
def cleanupProcessResources (s : Env) (p : Pid) : Env :=
  let rs := ownedBy s.owner p
  { s with backend := closeAll s.backend rs, owner := eraseAll s.owner rs }

/-- `handle_deliver(target, message, _)`: transfer first; if the target has already terminated
(`exited_processes`, repair of F10b) what the message carries is closed at once; then route. -/
def handleDeliver (s : Env) (target : Pid) (msg : Val) : Env :=
  let s : Env := { s with owner := transfer s.owner msg target }
  let s : Env := if s.exited.contains target then cleanupProcessResources s target else s
  match routeGet s.router target with
  | none => { s with faults := s.faults ++ [.processNotFound target] }
  | some _ => { s with out := s.out ++ [.deliverMessage target] }

/-- `handle_process_exited(process_id)` (repair of F10): the worker reports the termination of
every process, awaited or not (a persistent process that merely went to sleep is not reported);
everything it still owns is closed now. -/
def handleProcessExited (s : Env) (p : Pid) : Env :=
  cleanupProcessResources { s with exited := p :: s.exited } p

/-- One entry of a `ProcessResultsMap`: `None` / `Some(Ok(_))` / `Some(Err(_))`. -/
inductive Rep where
  | pending
  | ok
  | failed
  deriving DecidableEq, Repr, Inhabited

/-- Does `handle_process_results` clean up for this entry? (since the repair 200f50e)
`let sleeping = persistent_processes.contains(pid) && matches!(result, Some(Ok(_)));`
`if result.is_some() && !sleeping { cleanup_process_resources(pid) }` -/
def cleans (persistent : List Pid) (x : Pid × Rep) : Bool :=
  let sleeping := persistent.contains x.1 && x.2 == .ok
  x.2 != .pending && !sleeping

/-- The rule BEFORE the repair (finding F14/F38): `if result.is_some()`. -/
def cleansOld (x : Pid × Rep) : Bool := x.2 != .pending

/-- The cleanup loop over the entries already classified (Bool = "clean this one up"). -/
def handleCleanups (s : Env) : List (Pid × Bool) → Env
  | [] => s
  | (p, true) :: rest => handleCleanups (cleanupProcessResources s p) rest
  | (_, false) :: rest => handleCleanups s rest

/-- The resource part of `handle_process_results(awaiter, results)`: for every entry, in order,
decide `cleans` and clean up. (`persistent_processes` is not touched by a cleanup, so classifying
all entries first and then looping is the same computation as the Rust loop.) -/
def handleProcessResults (s : Env) (rs : List (Pid × Rep)) : Env :=
  handleCleanups s (rs.map fun x => (x.1, cleans s.persistent x))

/-- The same with the pre-repair rule (kept for the F14 witness). -/
def handleProcessResultsOld (s : Env) (rs : List (Pid × Rep)) : Env :=
  handleCleanups s (rs.map fun x => (x.1, cleansOld x))

/-! ## Histories -/

/-- What the environment sees, plus `terminate` (a worker-side fact the environment does not see;
since the repair of F10 the worker then emits `ProcessExited`, which the environment handles as the
event `exited`).
`send`'s sender and `results`' awaiter are ghosts: `DeliverAction` carries only the target and the
cleanup in `handle_process_results` does not look at the awaiter. -/
inductive Event where
  | start
  | request (p : Pid) (e : Effect) (w : Bool)
  | completions (n : Nat)
  | send (sender target : Pid) (msg : Val)
  | spawn (caller : Pid) (captures : List Val) (argument : Val)
  | terminate (p : Pid)
  | exited (p : Pid)
  | results (awaiter : Pid) (rs : List (Pid × Rep))
  deriving Repr, Inhabited

/-- The scenario vocabulary of the property statement, as abbreviations. -/
def Event.open (p : Pid) : Event := .request p { kind := .fileOpen } true
def Event.use (p : Pid) (r : Rid) : Event := .request p { kind := .fileRead, rid := r } true
def Event.close (p : Pid) (r : Rid) : Event := .request p { kind := .fileClose, rid := r } true
def Event.awaitReport (awaiter p : Pid) : Event := .results awaiter [(p, .ok)]
def Event.awaitFailure (awaiter p : Pid) : Event := .results awaiter [(p, .failed)]

/-- Environment + ghost facts about the workers. -/
structure Sys where
  env : Env := {}
  /-- ghost: processes that are dead: body finished (non-persistent) or failed (persistent) -/
  terminated : List Pid := []
  /-- ghost: processes for which some `ProcessResults` carried `Some(result)` -/
  reported : List Pid := []
  deriving Repr, Inhabited

def reportedOf (rs : List (Pid × Rep)) : List Pid := (rs.filter (·.2 != .pending)).map (·.1)

def step (s : Sys) : Event → Sys
  | .start => { s with env := startProcess s.env }
  | .request p e w => { s with env := handleEffectRequest s.env p e w }
  | .completions n => { s with env := handleCompletions s.env n }
  | .send _ target msg => { s with env := handleDeliver s.env target msg }
  | .spawn caller caps arg => { s with env := handleSpawn s.env caller caps arg }
  | .terminate p => { s with terminated := p :: s.terminated }
  | .exited p => { s with env := handleProcessExited s.env p }
  | .results _ rs =>
    { s with env := handleProcessResults s.env rs, reported := reportedOf rs ++ s.reported }

def run (s : Sys) : List Event → Sys
  | [] => s
  | ev :: rest => run (step s ev) rest

def init (nWorkers : Nat := 1) : Sys := { env := { nWorkers := nWorkers } }

/-! ## What workers guarantee about the events they emit (well-formed histories) -/

/-- Resource handles cannot be forged: every id carried by a message / spawn / request has been
handed out by the backend. -/
def handlesExist (s : Sys) : Event → Bool
  | .send _ _ msg => msg.resources.all (· < s.env.backend.nextRid)
  | .spawn _ caps arg => (resourcesList caps ++ arg.resources).all (· < s.env.backend.nextRid)
  | .request _ e _ =>
    match e.resourceId with
    | some r => r < s.env.backend.nextRid
    | none => true
  | _ => true

/-- A terminated process emits nothing; a worker reports `Some(result)` only for a process whose
body has finished, or — `query_and_await` treats `Sleeping` like `Completed` — `Some(Ok(_))` for a
persistent process that sleeps between two resumptions. For a persistent process "terminated" means
failed (it can never be resumed); a sleeping one is alive. A process terminates only once, exists,
and is not waiting for an effect; `ProcessExited` is sent only for a terminated process. -/
def livenessOk (s : Sys) : Event → Bool
  | .request p _ _ => !s.terminated.contains p
  | .send p _ _ => !s.terminated.contains p
  | .spawn p _ _ => !s.terminated.contains p
  | .terminate p =>
    !s.terminated.contains p && decide (p < s.env.nextPid) &&
      !(s.env.backend.pending.map (·.1)).contains p
  | .exited p => s.terminated.contains p
  | .results _ rs =>
    rs.all fun x => x.2 == .pending || s.terminated.contains x.1 ||
      (s.env.persistent.contains x.1 && x.2 == .ok)
  | _ => true

def eventOk (s : Sys) (ev : Event) : Bool := handlesExist s ev && livenessOk s ev

def wfFrom (s : Sys) : List Event → Bool
  | [] => true
  | ev :: rest => eventOk s ev && wfFrom (step s ev) rest

end QM.Resources
