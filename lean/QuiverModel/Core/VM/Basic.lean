/-
M-VM, part 1 — data (import-free; owner: C07; imported read-only by C01, C02, C06, C10, C16).

Mirrors
  quiver-core/src/value.rs      `Value`, `Binary`
  quiver-core/src/bytecode.rs   `Instruction` (all 24 variants), `Function`, `Constant`
  quiver-core/src/process.rs    `Frame`, `Process`, `SelectState`, `Action`
  quiver-core/src/executor.rs   the program tables an `Executor` holds (`constants`, `functions`,
                                `tuples` = arities, `builtins`, `types`/`type_compatibility` = a count here)

Representation decisions (stable API — see notes/C07.md):
  * `Proc.stack`  : `List Val`, **head = top of stack** (Rust: `Vec`, last = top).
  * `Proc.locals` : `List Val`, index 0 first (Rust order); `Store` appends at the end.
  * `Proc.frames` : `List Frame`, **head = current frame** (Rust: `Vec`, last = current);
                    `frames.getLast?` is Rust's `frames.first()`.
  * `usize` quantities are `Nat` (sizes are far below 2^64; the one place where wrap-around is
    observable — `Jump` — is modelled with the code's `wrapping_add_signed`, see `jumpTarget`).
  * Membership of the process in the executor's `spawning` / `selecting` / `effecting` sets is the
    field `Proc.park`.
-/
namespace QM.VM

/-- `value.rs::Binary`. -/
inductive Bin where
  | const (idx : Nat)
  | heap (idx : Nat)
  deriving DecidableEq, Repr, Inhabited

mutual
/-- `value.rs::Value`. `ref` is the u64 `(worker << 48) | counter`; `int` is a BigInt. -/
inductive Val where
  | int (z : Int)
  | bin (b : Bin)
  | ref (r : Nat)
  | tup (id : Nat) (fields : ValList)
  | fn (idx : Nat) (captures : ValList)
  | builtin (id : Nat)
  | proc (pid : Nat) (fidx : Nat)
  | res (rid : Nat) (ty : Nat)
  deriving DecidableEq, Repr
/-- Payload list of a tuple / closure (declared mutually so that `DecidableEq` derives). -/
inductive ValList where
  | nil
  | cons (v : Val) (vs : ValList)
  deriving DecidableEq, Repr
end

namespace ValList
def toList : ValList → List Val
  | .nil => []
  | .cons v vs => v :: vs.toList
def ofList : List Val → ValList
  | [] => .nil
  | v :: vs => .cons v (ofList vs)
@[simp] theorem toList_ofList (l : List Val) : (ofList l).toList = l := by
  induction l with
  | nil => rfl
  | cons v vs ih => simp [ofList, toList, ih]
@[simp] theorem ofList_toList : (l : ValList) → ofList l.toList = l
  | .nil => rfl
  | .cons v vs => by simp [ofList, toList, ofList_toList vs]
def length (l : ValList) : Nat := l.toList.length
@[simp] theorem toList_nil : ValList.nil.toList = [] := rfl
@[simp] theorem toList_cons (v : Val) (vs : ValList) : (ValList.cons v vs).toList = v :: vs.toList := rfl
end ValList

instance : Inhabited Val := ⟨.tup 0 .nil⟩

namespace Val
/-- `types::NIL = 0`, `types::OK = 1`. -/
def nil : Val := .tup 0 .nil
def ok : Val := .tup 1 .nil
/-- `Value::is_nil`: tuple id NIL with no fields. -/
def isNil : Val → Bool
  | .tup 0 .nil => true
  | _ => false
def typeName : Val → String
  | .int _ => "integer" | .bin _ => "binary" | .ref _ => "ref" | .tup _ _ => "tuple"
  | .fn _ _ => "function" | .builtin _ => "builtin" | .proc _ _ => "process" | .res _ _ => "resource"
end Val

/-- `bytecode.rs::Instruction`, same order. Jump offsets are `isize`. -/
inductive Instr where
  | constant (i : Nat)
  | pop
  | duplicate
  | pick (n : Nat)
  | rotate (n : Nat)
  | reset (n : Nat)
  | load (i : Nat)
  | store
  | tuple (id : Nat)
  | get (i : Nat)
  | isType (id : Nat)
  | jump (off : Int)
  | jumpIf (off : Int)
  | call
  | tailCall (recurse : Bool)
  | function (i : Nat)
  | builtin (i : Nat)
  | equal (n : Nat)
  | not
  | spawn
  | send
  | self_
  | select
  | process (pid : Nat) (fidx : Nat)
  deriving DecidableEq, Repr, Inhabited

/-- `bytecode.rs::Constant`; the bytes of a binary constant are irrelevant at this level. -/
inductive Const where
  | int (z : Int)
  | bin (bytes : List UInt8)
  deriving DecidableEq, Repr, Inhabited

/-- `bytecode.rs::Function`. -/
structure Function where
  instructions : Array Instr
  captures : Nat
  typeId : Nat
  deriving Repr, Inhabited

/-- The tables of a loaded program as the executor sees them. `tuples[i]` is the arity of tuple
id `i` (`Executor.tuples : Vec<usize>`); `types` / `builtins` are table sizes. -/
structure Prog where
  constants : Array Const
  functions : Array Function
  tuples : Array Nat
  types : Nat
  builtins : Nat
  deriving Repr, Inhabited

/-- `process.rs::Frame`. -/
structure Frame where
  functionIndex : Nat
  localsBase : Nat
  capturesCount : Nat
  counter : Nat
  deriving DecidableEq, Repr, Inhabited

/-- `Frame::new`. -/
def Frame.new (fi lb cc : Nat) : Frame := ⟨fi, lb, cc, 0⟩

/-- `process.rs::SelectState` at the shape level: `frame` / `instruction` locate the `Select`
being evaluated, `sources` are the popped sources, `receiving` is the message a filter function is
currently being run on. (`cursors`, `start_time` belong to M-Exec / C05.) -/
structure SelectState where
  frame : Nat
  instruction : Nat
  sources : List Val
  receiving : Option (Nat × Val)
  deriving Repr, Inhabited

/-- Which of the executor's parking sets the process is in. -/
inductive Park where
  | none
  | spawning
  | selecting
  | effecting
  deriving DecidableEq, Repr, Inhabited

/-- Runtime errors. The first block mirrors `error.rs::Error` by class; `tupleUndefined` is the
`TypeMismatch{expected: "known tuple type"}` that `handle_tuple` raises for an unknown tuple id;
`panic` is a Rust panic (index out of bounds in `functions[frame.function_index]`, `values[0]` of
`Equal(0)`, `stack.remove(len)` of `Rotate(0)`, `offset + 1` overflow); `builtinFailed` is whatever
error class a builtin implementation returned; `awaitedFailed` is the error of *another* process
that this one awaited in a `Select` (propagated by `handle_select_process`); `oracleInvalid` marks an oracle answer that is not
a possible behaviour in the current state (never produced by the executor). -/
inductive Err where
  | stackUnderflow
  | callInvalid
  | functionUndefined (i : Nat)
  | builtinUndefined (i : Nat)
  | frameUnderflow
  | variableUndefined (i : Nat)
  | constantUndefined (i : Nat)
  | fieldAccessInvalid (i : Nat)
  | typeMismatch
  | invalidArgument
  | operationNotAllowed
  | tupleUndefined (id : Nat)
  | panic
  | builtinFailed (cls : String)
  | awaitedFailed (cls : String)
  | oracleInvalid
  deriving DecidableEq, Repr, Inhabited

namespace Err
/-- Error class name as `qverif::canon::error_class` prints it. -/
def className : Err → String
  | stackUnderflow => "StackUnderflow" | callInvalid => "CallInvalid"
  | functionUndefined _ => "FunctionUndefined" | builtinUndefined _ => "BuiltinUndefined"
  | frameUnderflow => "FrameUnderflow" | variableUndefined _ => "VariableUndefined"
  | constantUndefined _ => "ConstantUndefined" | fieldAccessInvalid _ => "FieldAccessInvalid"
  | typeMismatch => "TypeMismatch" | invalidArgument => "InvalidArgument"
  | operationNotAllowed => "OperationNotAllowed" | tupleUndefined _ => "TypeMismatch"
  | panic => "panic" | builtinFailed c => c | awaitedFailed c => c | oracleInvalid => "oracle-invalid"

/-- *Structural* failures — the ones C07 excludes for checked programs: the bytecode itself is
malformed (underflow, undefined local/constant/function/builtin/tuple id, frame underflow, a Rust
panic). Everything else is a failure of the *values* (C01) or of the environment. -/
def isStructural : Err → Bool
  | stackUnderflow | functionUndefined _ | builtinUndefined _ | frameUnderflow
  | variableUndefined _ | constantUndefined _ | tupleUndefined _ | panic => true
  | _ => false
end Err

/-- `process.rs::Action` (payloads that matter at this level). -/
inductive Action where
  | spawn (fidx : Nat) (captures : List Val) (argument : Val)
  | deliver (target : Nat) (value : Val)
  | await (targets : List Nat)
  | requestEffect
  deriving Repr, Inhabited

/-- `process.rs::Process` (+ `pid`, `park`, which the executor keeps beside it). -/
structure Proc where
  pid : Nat := 0
  stack : List Val := []
  locals : List Val := []
  frames : List Frame := []
  mailbox : List Val := []
  persistent : Bool := false
  result : Option (Except Err Val) := none
  selectState : Option SelectState := none
  park : Park := .none
  deriving Inhabited

/-- The state `Executor::spawn_process(id, Some(fi), captures, argument, _, persistent)` creates. -/
def Proc.spawn (pid fi : Nat) (captures : List Val) (argument : Val) (persistent : Bool := false) : Proc :=
  { pid := pid, stack := [argument], locals := captures,
    frames := [Frame.new fi 0 captures.length], persistent := persistent }

/-- Function record of a frame, as `functions[frame.function_index]` (out of range = Rust panic). -/
def Prog.fnOf (P : Prog) (f : Frame) : Option Function := P.functions[f.functionIndex]?

/-- `Executor::current_instruction`: `none` when there is no frame, or the counter is outside the
function (frame exhausted). `panic` on a frame whose function index is out of range is handled by
the caller (`Step.lean`). -/
def Prog.currentInstr (P : Prog) (p : Proc) : Option Instr :=
  match p.frames with
  | [] => none
  | f :: _ =>
    match P.functions[f.functionIndex]? with
    | none => none
    | some fn => fn.instructions[f.counter]?

end QM.VM
