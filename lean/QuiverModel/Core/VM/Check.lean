import QuiverModel.Core.VM.Step
/-
M-Check — the verified bytecode checker (no Rust counterpart; owner: C07).

`checkAnn P f anns` checks an *annotation array* for function `f` of `P`: one optional abstract
state `{height, locals}` per instruction (`none` = unreachable). `height` is the operand-stack
height relative to the frame's entry (the argument is slot 0, so entry height = 1); `locals` is a
*lower bound* on the number of frame-relative locals (MIN over all paths reaching the pc — locals
counts legitimately differ at joins in what the compiler emits, DESIGN §5 C07 "Calibration").

Rules (checked per annotated instruction, all local):
  * the instruction's operands are there (`height` large enough; `Load i` with `i < locals`;
    `Reset n` with `n ≤ locals`; `Rotate n`/`Equal n` with `n ≥ 1`),
  * static indices (constant / tuple / type / function / builtin) are in range,
  * every successor pc is inside the function or exactly its end; jumps are computed as
    `pc + offset + 1`,
  * each successor's annotation has the **same height** as the state flowing into it and
    **at most** its locals (MIN rule); flowing to the end of the function requires height 1
    (the argument has been replaced by exactly one result),
  * `TailCall(true)` needs height exactly 1, `TailCall(false)` exactly 2 (they re-enter a function
    on the same frame, so nothing may be left below the argument); `TailCall(true)` also needs
    `locals ≥ captures` (it truncates the locals to `locals_base + captures_count` and re-enters
    at pc 0, whose annotation promises the captures),
  * entry: the state `{1, captures}` flows into pc 0.
  * **nil guard** (path-sensitive part, `Guard`): a branch condition that is a multi-step sequence
    short-circuits on nil to the END of the condition with fewer locals than the full path, and
    the consequence (which loads the condition's bindings) is reached only when the value is
    non-nil. The annotation therefore may carry `top g` = "if the top value is non-nil there are
    at least `g` locals"; `Duplicate` / `Not` / `JumpIf` carry the fact along (`dup`, `neg`), the
    taken side of the `JumpIf` knows the value is nil (`nilTop`), the other side gets the `g`
    locals. Every other instruction forgets the guard.
`inferAnn` produces annotations by a worklist dataflow; it is **untrusted** — only its output is
checked. Soundness (`Theorems/C07.lean`): in every state M-VM reaches from an entry state of a
program all of whose functions pass, the shape of the process is the annotated one, and no step
fails structurally.
-/
namespace QM.VM

/-- What is known about the top of the operand stack (the path-sensitive part of the abstract
state). `g` counts frame-relative locals. -/
inductive Guard where
  | none
  /-- if the top value is non-nil, there are at least `g` locals -/
  | top (g : Nat)
  /-- the two top cells hold the same value; if it is non-nil, there are at least `g` locals -/
  | dup (g : Nat)
  /-- the top cell is `Not` of the cell below; if the cell below is non-nil, at least `g` locals -/
  | neg (g : Nat)
  /-- the top value is nil -/
  | nilTop
  deriving DecidableEq, Repr, Inhabited

structure Ann where
  height : Nat
  locals : Nat
  guard : Guard := .none
  deriving DecidableEq, Repr, Inhabited

/-- Wire / diagnostic form of a guard: `""`, `t<g>`, `d<g>`, `n<g>`, `z`. -/
def Guard.render : Guard → String
  | .none => ""
  | .top g => s!"t{g}"
  | .dup g => s!"d{g}"
  | .neg g => s!"n{g}"
  | .nilTop => "z"

/-- Locals there are if the top value turns out non-nil. -/
def Ann.eff (a : Ann) : Nat :=
  match a.guard with
  | .top g => max g a.locals
  | .dup g => max g a.locals
  | _ => a.locals

abbrev Anns := Array (Option Ann)

/-- Statically computed jump target `pc + offset + 1`. -/
def staticTarget (pc : Nat) (off : Int) : Int := (pc : Int) + off + 1

/-- Abstract transfer of one instruction at `pc` of a function of `n` instructions and `caps`
captures: either a reason for rejection, or the list of `(successor pc, state flowing into it)`. -/
def transfer (P : Prog) (n caps pc : Nat) (a : Ann) : Instr → Except String (List (Nat × Ann))
  | .constant i =>
    if i < P.constants.size then .ok [(pc + 1, ⟨a.height + 1, a.locals, .none⟩)] else .error "constant-index"
  | .pop =>
    if 1 ≤ a.height then .ok [(pc + 1, ⟨a.height - 1, a.locals, .none⟩)] else .error "stack-underflow"
  | .duplicate =>
    if 1 ≤ a.height then
      .ok [(pc + 1, ⟨a.height + 1, a.locals,
        match a.guard with
        | .top g => .dup (max g a.locals)
        | _ => .dup a.locals⟩)]
    else .error "stack-underflow"
  | .pick k =>
    if k < a.height then .ok [(pc + 1, ⟨a.height + 1, a.locals, .none⟩)] else .error "stack-underflow"
  | .rotate k =>
    if 1 ≤ k ∧ k ≤ a.height then .ok [(pc + 1, ⟨a.height, a.locals, .none⟩)] else .error "rotate-operand"
  | .reset k =>
    if k ≤ a.locals then .ok [(pc + 1, ⟨a.height, k, .none⟩)] else .error "reset-beyond-locals"
  | .load i =>
    if i < a.locals then .ok [(pc + 1, ⟨a.height + 1, a.locals, .none⟩)] else .error "load-undefined-local"
  | .store =>
    if 1 ≤ a.height then .ok [(pc + 1, ⟨a.height - 1, a.locals + 1, .none⟩)] else .error "stack-underflow"
  | .tuple id =>
    match P.tuples[id]? with
    | none => .error "tuple-index"
    | some arity =>
      if arity ≤ a.height then .ok [(pc + 1, ⟨a.height - arity + 1, a.locals, .none⟩)] else .error "stack-underflow"
  | .get _ =>
    if 1 ≤ a.height then .ok [(pc + 1, ⟨a.height, a.locals, .none⟩)] else .error "stack-underflow"
  | .isType id =>
    if id < P.types then
      if 1 ≤ a.height then .ok [(pc + 1, ⟨a.height, a.locals, .none⟩)] else .error "stack-underflow"
    else .error "type-index"
  | .jump off =>
    let t := staticTarget pc off
    if 0 ≤ t ∧ t ≤ n ∧ off ≠ isizeMax then .ok [(t.toNat, a)] else .error "jump-out-of-range"
  | .jumpIf off =>
    let t := staticTarget pc off
    if 1 ≤ a.height then
      if 0 ≤ t ∧ t ≤ n ∧ off ≠ isizeMax then
        match a.guard with
        | .neg g =>
          -- taken: the tested value (now on top) is nil; not taken: it is non-nil
          .ok [(t.toNat, ⟨a.height - 1, a.locals, .nilTop⟩), (pc + 1, ⟨a.height - 1, max g a.locals, .none⟩)]
        | _ => .ok [(t.toNat, ⟨a.height - 1, a.locals, .none⟩), (pc + 1, ⟨a.height - 1, a.locals, .none⟩)]
      else .error "jump-out-of-range"
    else .error "stack-underflow"
  | .call =>
    if 2 ≤ a.height then .ok [(pc + 1, ⟨a.height - 1, a.locals, .none⟩)] else .error "stack-underflow"
  | .tailCall true =>
    if a.height = 1 then
      if caps ≤ a.locals then .ok [] else .error "tailcall-captures-dropped"
    else .error "tailcall-height"
  | .tailCall false =>
    if a.height = 2 then .ok [] else .error "tailcall-height"
  | .function i =>
    match P.functions[i]? with
    | none => .error "function-index"
    | some fn =>
      if fn.captures ≤ a.height then .ok [(pc + 1, ⟨a.height - fn.captures + 1, a.locals, .none⟩)]
      else .error "stack-underflow"
  | .builtin i =>
    if i < P.builtins then .ok [(pc + 1, ⟨a.height + 1, a.locals, .none⟩)] else .error "builtin-index"
  | .equal k =>
    if 1 ≤ k ∧ k ≤ a.height then .ok [(pc + 1, ⟨a.height - k + 1, a.locals, .none⟩)] else .error "equal-operand"
  | .not =>
    if 1 ≤ a.height then
      .ok [(pc + 1, ⟨a.height, a.locals,
        match a.guard with
        | .dup g => .neg g
        | _ => .none⟩)]
    else .error "stack-underflow"
  | .spawn =>
    if 2 ≤ a.height then .ok [(pc + 1, ⟨a.height - 1, a.locals, .none⟩)] else .error "stack-underflow"
  | .send =>
    if 2 ≤ a.height then .ok [(pc + 1, ⟨a.height - 1, a.locals, .none⟩)] else .error "stack-underflow"
  | .self_ => .ok [(pc + 1, ⟨a.height + 1, a.locals, .none⟩)]
  | .select =>
    if 1 ≤ a.height then .ok [(pc + 1, ⟨a.height, a.locals, .none⟩)] else .error "stack-underflow"
  | .process _ fidx =>
    if fidx < P.functions.size then .ok [(pc + 1, ⟨a.height + 1, a.locals, .none⟩)] else .error "function-index"

/-- Does what `out` knows about the top of the stack imply what `b` claims? -/
def guardFlows (out b : Ann) : Bool :=
  match b.guard with
  | .none => true
  | .top g => out.guard == .nilTop || decide (g ≤ out.eff)
  | .dup g =>
    match out.guard with
    | .dup g' => decide (g ≤ max g' out.locals)
    | _ => false
  | .neg g =>
    match out.guard with
    | .neg g' => decide (g ≤ max g' out.locals)
    | _ => false
  | .nilTop => out.guard == .nilTop

/-- May the abstract state `out` flow into `pc'`? At the end of the function (`pc' = n`) the
height must be 1; inside, the annotation must have the same height, no more locals, and a guard
that follows from `out`'s. -/
def flowsTo (n : Nat) (anns : Anns) (pc' : Nat) (out : Ann) : Bool :=
  if pc' = n then out.height == 1
  else
    match anns[pc']? with
    | some (some b) => b.height == out.height && decide (b.locals ≤ out.locals) && guardFlows out b
    | _ => false

/-- Local check of the annotated instruction at `pc`. -/
def checkPc (P : Prog) (code : Array Instr) (caps : Nat) (anns : Anns) (pc : Nat) : Bool :=
  match anns[pc]?, code[pc]? with
  | some (some a), some i =>
    match transfer P code.size caps pc a i with
    | .error _ => false
    | .ok succs => succs.all (fun s => flowsTo code.size anns s.1 s.2)
  | _, _ => true

/-- Largest function the checker accepts (so that `pc + offset + 1` never wraps). -/
def maxCode : Nat := 2 ^ 62

def checkFn (P : Prog) (fn : Function) (anns : Anns) : Bool :=
  anns.size == fn.instructions.size
    && decide (fn.instructions.size < maxCode)
    && flowsTo fn.instructions.size anns 0 ⟨1, fn.captures, .none⟩
    && (List.range fn.instructions.size).all (fun pc => checkPc P fn.instructions fn.captures anns pc)

/-- **The checker.** -/
def checkAnn (P : Prog) (f : Nat) (anns : Anns) : Bool :=
  match P.functions[f]? with
  | none => false
  | some fn => checkFn P fn anns

/-- Static indices of one instruction are in range for the program's tables. -/
def instrIndicesOk (P : Prog) : Instr → Bool
  | .constant i => decide (i < P.constants.size)
  | .tuple id => decide (id < P.tuples.size)
  | .isType id => decide (id < P.types)
  | .function i => decide (i < P.functions.size)
  | .builtin i => decide (i < P.builtins)
  | .process _ fidx => decide (fidx < P.functions.size)
  | _ => true

/-- Every instruction of every function (reachable or not) has its static indices in range. -/
def indicesOk (P : Prog) : Bool :=
  P.functions.all (fun fn => fn.instructions.all (instrIndicesOk P))

/-- Diagnostic (untrusted): first annotated pc that fails its local check, with the reason. -/
def explainReject (P : Prog) (fn : Function) (anns : Anns) : Option (Nat × String) :=
  let n := fn.instructions.size
  if anns.size ≠ n then some (0, "annotation-array-size")
  else if ¬ n < maxCode then some (0, "function-too-large")
  else if !flowsTo n anns 0 ⟨1, fn.captures, .none⟩ then some (0, "entry-state")
  else
    (List.range n).findSome? (fun pc =>
      match anns[pc]?, fn.instructions[pc]? with
      | some (some a), some i =>
        match transfer P n fn.captures pc a i with
        | .error r => some (pc, r)
        | .ok succs =>
          match succs.find? (fun s => !flowsTo n anns s.1 s.2) with
          | some s =>
            let tgt := match anns[s.1]? with
              | some (some b) => s!"has h={b.height} l={b.locals} g={b.guard.render}"
              | _ => if s.1 = n then "is the function end (needs h=1)" else "is unannotated/out of range"
            some (pc, s!"flow-mismatch to pc {s.1}: incoming h={s.2.height} l={s.2.locals} g={s.2.guard.render}, target {tgt}")
          | none => none
      | _, _ => none)

/-! ### Inference (untrusted) -/

/-- Result of merging an incoming state into the annotation at `pc'`. -/
inductive Merge where
  | unchanged
  | updated (anns : Anns)
  | conflict (old : Ann) (incoming : Ann)

/-- Join of the guards of two states flowing into the same pc (`l` = the joined locals). -/
def joinGuard (x y : Ann) (l : Nat) : Guard :=
  let norm (g : Nat) : Guard := if g ≤ l then .none else .top g
  match x.guard, y.guard with
  | .nilTop, .nilTop => .nilTop
  | .nilTop, _ => norm y.eff
  | _, .nilTop => norm x.eff
  | .dup g1, .dup g2 => .dup (min (max g1 x.locals) (max g2 y.locals))
  | .neg g1, .neg g2 => .neg (min (max g1 x.locals) (max g2 y.locals))
  | _, _ => norm (min x.eff y.eff)

def mergeInto (anns : Anns) (pc' : Nat) (out : Ann) : Merge :=
  match anns[pc']? with
  | some (some b) =>
    if b.height ≠ out.height then .conflict b out
    else
      let l := min b.locals out.locals
      let nb : Ann := ⟨b.height, l, joinGuard b out l⟩
      if nb = b then .unchanged else .updated (anns.set! pc' (some nb))
  | some none => .updated (anns.set! pc' (some out))
  | none => .unchanged

structure InferResult where
  anns : Anns
  /-- first problem met: `(pc, reason)`; inference continues past transfer errors -/
  problem : Option (Nat × String) := none

/-- Worklist dataflow: heights must agree at joins (a disagreement is recorded as the problem and
the first annotation is kept), locals take the minimum. -/
def inferLoop (P : Prog) (fn : Function) : Nat → List Nat → InferResult → InferResult
  | 0, _, r => r
  | _, [], r => r
  | fuel + 1, pc :: work, r =>
    let n := fn.instructions.size
    match r.anns[pc]?, fn.instructions[pc]? with
    | some (some a), some i =>
      match transfer P n fn.captures pc a i with
      | .error reason =>
        inferLoop P fn fuel work { r with problem := r.problem.orElse (fun _ => some (pc, reason)) }
      | .ok succs =>
        let (r', work') := succs.foldl (fun (acc : InferResult × List Nat) s =>
          let (r1, w1) := acc
          if s.1 = n then
            if s.2.height = 1 then (r1, w1)
            else ({ r1 with problem := r1.problem.orElse (fun _ =>
              some (pc, s!"exit-height: function end reached with h={s.2.height} l={s.2.locals} (needs h=1)")) }, w1)
          else if s.1 > n then
            ({ r1 with problem := r1.problem.orElse (fun _ => some (pc, "successor-out-of-range")) }, w1)
          else
            match mergeInto r1.anns s.1 s.2 with
            | .unchanged => (r1, w1)
            | .updated anns' => ({ r1 with anns := anns' }, s.1 :: w1)
            | .conflict old inc =>
              ({ r1 with problem := r1.problem.orElse (fun _ =>
                some (pc, s!"join-height-conflict at pc {s.1}: annotated h={old.height} l={old.locals}, incoming h={inc.height} l={inc.locals}")) }, w1))
          (r, work)
        inferLoop P fn fuel work' r'
    | _, _ => inferLoop P fn fuel work r

def inferFn (P : Prog) (fn : Function) : InferResult :=
  let n := fn.instructions.size
  if n = 0 then { anns := #[] }
  else
    let anns : Anns := (Array.replicate n none).set! 0 (some ⟨1, fn.captures, .none⟩)
    inferLoop P fn (2 * n * (n + 2) + 1024) [0] { anns := anns }

/-- **Inference** for function `f` of `P` (empty array if `f` is out of range). -/
def inferAnn (P : Prog) (f : Nat) : Anns :=
  match P.functions[f]? with
  | none => #[]
  | some fn => (inferFn P fn).anns

/-- Infer then check every function: `none` = every function certified; otherwise the first
function that does not pass with `(function, pc, reason)`. -/
def certify (P : Prog) : Option (Nat × Nat × String) :=
  if !indicesOk P then
    -- locate the offending instruction
    (List.range P.functions.size).findSome? (fun f =>
      match P.functions[f]? with
      | none => none
      | some fn => (List.range fn.instructions.size).findSome? (fun pc =>
          match fn.instructions[pc]? with
          | some i => if instrIndicesOk P i then none else some (f, pc, "static-index-out-of-range")
          | none => none))
      |>.orElse (fun _ => some (0, 0, "static-index-out-of-range"))
  else
    (List.range P.functions.size).findSome? (fun f =>
      match P.functions[f]? with
      | none => none
      | some fn =>
        let r := inferFn P fn
        if checkAnn P f r.anns then none
        else
          match r.problem with
          | some (pc, why) => some (f, pc, why)
          | none =>
            match explainReject P fn r.anns with
            | some (pc, why) => some (f, pc, why)
            | none => some (f, 0, "rejected"))

end QM.VM
