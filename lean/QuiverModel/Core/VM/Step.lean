import QuiverModel.Core.VM.Basic
/-
M-VM, part 2 — one instruction / one scheduler-visible transition of a single process
(owner: C07; imported read-only by C01, C02, C06, C10, C16).

Mirrors `quiver-core/src/executor.rs`:
  `execute_hot` handlers  handle_constant … handle_not            → `handle*` below, same checks in
                                                                     the same order, same error class
  `execute_cold` handlers handle_spawn / send / self / process_ref / select (shape level)
  `Executor::step`        the frame auto-pop loop                  → `popFrame`
                          "finished" bookkeeping                   → `finish`
  `notify_spawn`, `notify_effect_completion`, `notify_message`,
  `notify_result`/timeouts (re-queue of a selecting process)       → `Event`s of `transition`

What is abstracted (an `Oracle`, chosen freshly at every step — theorems quantify over all of them):
  * `isType v id`      the verdict of `check_type_compatible` (C08 owns the table),
  * `valuesEqual a b`  `values_equal` (C13),
  * `builtin id v`     the result of running builtin `id` on `v`: a value, an error class, an
                       effect request, or "no implementation registered",
  * `select`           what `process_select_sources` decides on this execution of `Select`:
                       complete with a value / run the filter function `sources[k]` on a message /
                       park / fail (resource or invalid source, or the propagated error of an
                       awaited process that failed). Mailbox scanning, cursors, time-outs
                       and await bookkeeping are M-Exec (C05); here only their effect on the shape
                       of the process is modelled.
Binary constants are pushed as `bin (const i)` (the executor pushes the cached heap handle of
constant `i`; slot numbers are never compared). Refcounting (`retain`/`release`) is M-Heap (C06).
`usize` counters do not overflow (sizes ≪ 2^64) except through `Jump`, which uses `jumpTarget`.
-/
namespace QM.VM

inductive BuiltinOut where
  | value (v : Val)
  | fail (cls : String)
  | action
  | unrecognised
  deriving Repr, Inhabited

inductive SelectDecision where
  /-- `complete_select(pid, v)` -/
  | complete (v : Val)
  /-- `call_receive_function` with `source = sources[srcIdx]` (a function with a body) on `msg` -/
  | callReceive (srcIdx : Nat) (msg : Val)
  /-- no source ready: `mark_selecting` -/
  | park
  /-- `TypeMismatch` (resource source) -/
  | failType
  /-- `InvalidArgument` (invalid select source / missing receive result) -/
  | failInvalid
  /-- an awaited source has failed: `handle_select_process` propagates that process's error
  (`awaiting_failed`, repo commit bc74ad3) -/
  | failAwaited (cls : String)
  deriving Repr, Inhabited

structure Oracle where
  isType : Val → Nat → Bool
  valuesEqual : Val → Val → Bool
  builtin : Nat → Val → BuiltinOut
  select : SelectDecision

abbrev Res := Except Err (Proc × Option Action)

namespace Proc

/-- `frame.counter += 1` on the current frame (`if let Some(frame) = frames.last_mut()`). -/
def bump (p : Proc) : Proc :=
  match p.frames with
  | [] => p
  | f :: r => { p with frames := { f with counter := f.counter + 1 } :: r }

def push (p : Proc) (v : Val) : Proc := { p with stack := v :: p.stack }

/-- Set the current frame's counter. -/
def setCounter (p : Proc) (c : Nat) : Proc :=
  match p.frames with
  | [] => p
  | f :: r => { p with frames := { f with counter := c } :: r }

end Proc

/-- `counter.wrapping_add_signed(offset + 1)` on a 64-bit `usize`. -/
def jumpTarget (counter : Nat) (off : Int) : Nat :=
  (((counter : Int) + off + 1) % (2 ^ 64 : Int)).toNat

/-- `isize::MAX`: `offset + 1` overflows (panic with overflow checks). -/
def isizeMax : Int := 2 ^ 63 - 1

def ok (p : Proc) : Res := .ok (p, none)

def handleConstant (P : Prog) (p : Proc) (i : Nat) : Res :=
  match P.constants[i]? with
  | none => .error (.constantUndefined i)
  | some (.int z) => ok ((p.push (.int z)).bump)
  | some (.bin _) => ok ((p.push (.bin (.const i))).bump)

def handlePop (p : Proc) : Res :=
  match p.stack with
  | [] => .error .stackUnderflow
  | _ :: s => ok ({ p with stack := s }.bump)

def handleDuplicate (p : Proc) : Res :=
  match p.stack with
  | [] => .error .stackUnderflow
  | v :: s => ok ({ p with stack := v :: v :: s }.bump)

def handlePick (p : Proc) (n : Nat) : Res :=
  match p.stack[n]? with
  | none => .error .stackUnderflow
  | some v => ok ((p.push v).bump)

/-- `stack.remove(len - n)` then push: the item at depth `n-1` moves to the top. `n = 0` is
`remove(len)`: index out of bounds (panic). -/
def handleRotate (p : Proc) (n : Nat) : Res :=
  if p.stack.length < n then .error .stackUnderflow
  else
    match n with
    | 0 => .error .panic
    | k + 1 =>
      match p.stack[k]? with
      | none => .error .stackUnderflow
      | some item => ok ({ p with stack := item :: p.stack.eraseIdx k }.bump)

def handleLoad (p : Proc) (i : Nat) : Res :=
  match p.frames with
  | [] => .error .frameUnderflow
  | f :: _ =>
    match p.locals[f.localsBase + i]? with
    | none => .error (.variableUndefined i)
    | some v => ok ((p.push v).bump)

def handleStore (p : Proc) : Res :=
  match p.stack with
  | [] => .error .stackUnderflow
  | v :: s => ok ({ p with stack := s, locals := p.locals ++ [v] }.bump)

def handleTuple (P : Prog) (p : Proc) (id : Nat) : Res :=
  match P.tuples[id]? with
  | none => .error (.tupleUndefined id)
  | some size =>
    if p.stack.length < size then .error .stackUnderflow
    else
      let values := (p.stack.take size).reverse
      ok ({ p with stack := .tup id (ValList.ofList values) :: p.stack.drop size }.bump)

def handleGet (p : Proc) (i : Nat) : Res :=
  match p.stack with
  | [] => .error .stackUnderflow
  | .tup _ els :: s =>
    match els.toList[i]? with
    | none => .error (.fieldAccessInvalid i)
    | some e => ok ({ p with stack := e :: s }.bump)
  | _ :: _ => .error .typeMismatch

def handleIsType (O : Oracle) (p : Proc) (id : Nat) : Res :=
  match p.stack with
  | [] => .error .stackUnderflow
  | v :: s => ok ({ p with stack := (if O.isType v id then Val.ok else Val.nil) :: s }.bump)

def handleJump (p : Proc) (off : Int) : Res :=
  if off = isizeMax then .error .panic
  else
    match p.frames with
    | [] => ok p
    | f :: _ => ok (p.setCounter (jumpTarget f.counter off))

def handleJumpIf (p : Proc) (off : Int) : Res :=
  match p.stack with
  | [] => .error .stackUnderflow
  | c :: s =>
    let p1 := { p with stack := s }
    if !c.isNil then
      if off = isizeMax then .error .panic
      else
        match p1.frames with
        | [] => ok p1
        | f :: _ => ok (p1.setCounter (jumpTarget f.counter off))
    else ok p1.bump

def handleCall (O : Oracle) (P : Prog) (p : Proc) : Res :=
  match p.stack with
  | [] => .error .stackUnderflow
  | .fn fi caps :: s =>
    match P.functions[fi]? with
    | none => .error (.functionUndefined fi)
    | some _ =>
      match s with
      | [] => .error .stackUnderflow
      | param :: s' =>
        let lb := p.locals.length
        ok { p with stack := param :: s', locals := p.locals ++ caps.toList,
                    frames := Frame.new fi lb caps.toList.length :: p.frames }
  | .builtin id :: s =>
    match s with
    | [] => .error .stackUnderflow
    | param :: s' =>
      match O.builtin id param with
      | .unrecognised => .error .invalidArgument
      | .fail cls => .error (.builtinFailed cls)
      | .value v => ok ({ p with stack := v :: s' }.bump)
      | .action => .ok ({ p with stack := s', park := .effecting }, some .requestEffect)
  | _ :: _ => .error .typeMismatch

def handleTailCall (P : Prog) (p : Proc) (recurse : Bool) : Res :=
  if recurse then
    match p.stack with
    | [] => .error .stackUnderflow
    | arg :: s =>
      match p.frames with
      | [] => .error .frameUnderflow
      | f :: r =>
        ok { p with stack := arg :: s, locals := p.locals.take (f.localsBase + f.capturesCount),
                    frames := Frame.new f.functionIndex f.localsBase f.capturesCount :: r }
  else
    match p.stack with
    | [] => .error .stackUnderflow
    | fv :: s =>
      match s with
      | [] => .error .stackUnderflow
      | arg :: s' =>
        match fv with
        | .fn fi caps =>
          match P.functions[fi]? with
          | none => .error (.functionUndefined fi)
          | some _ =>
            match p.frames with
            | [] => .error .frameUnderflow
            | f :: r =>
              ok { p with stack := arg :: s',
                          locals := p.locals.take f.localsBase ++ caps.toList,
                          frames := Frame.new fi f.localsBase caps.toList.length :: r }
        | _ => .error .callInvalid

def handleFunction (P : Prog) (p : Proc) (i : Nat) : Res :=
  match P.functions[i]? with
  | none => .error (.functionUndefined i)
  | some fn =>
    if p.stack.length < fn.captures then .error .stackUnderflow
    else
      let caps := (p.stack.take fn.captures).reverse
      ok ({ p with stack := .fn i (ValList.ofList caps) :: p.stack.drop fn.captures }.bump)

def handleReset (p : Proc) (n : Nat) : Res :=
  match p.frames with
  | [] => .error .frameUnderflow
  | f :: _ =>
    if f.localsBase + n > p.locals.length then .error .stackUnderflow
    else ok ({ p with locals := p.locals.take (f.localsBase + n) }.bump)

def handleBuiltin (P : Prog) (p : Proc) (i : Nat) : Res :=
  if i ≥ P.builtins then .error (.builtinUndefined i)
  else ok ((p.push (.builtin i)).bump)

def handleEqual (O : Oracle) (p : Proc) (n : Nat) : Res :=
  if n > p.stack.length then .error .stackUnderflow
  else
    match (p.stack.take n).reverse with
    | [] => .error .panic
    | first :: rest =>
      let allEq := (first :: rest).all (fun v => O.valuesEqual first v)
      -- a verdict (`Ok` / nil), not the compared value (repo commit 1355722)
      ok ({ p with stack := (if allEq then Val.ok else Val.nil) :: p.stack.drop n }.bump)

def handleNot (p : Proc) : Res :=
  match p.stack with
  | [] => .error .stackUnderflow
  | v :: s => ok ({ p with stack := (if v.isNil then Val.ok else Val.nil) :: s }.bump)

/-- "inside a receive function": `select_state.receiving.is_some()`. -/
def Proc.isReceiving (p : Proc) : Bool :=
  match p.selectState with
  | some st => st.receiving.isSome
  | none => false

def handleSpawn (p : Proc) : Res :=
  if p.isReceiving then .error .operationNotAllowed
  else
    match p.stack with
    | [] => .error .stackUnderflow
    | fv :: s =>
      match s with
      | [] => .error .stackUnderflow
      | arg :: s' =>
        match fv with
        | .fn fi caps =>
          .ok ({ p with stack := s', park := .spawning }, some (.spawn fi caps.toList arg))
        | _ => .error .typeMismatch

def handleSend (p : Proc) : Res :=
  if p.isReceiving then .error .operationNotAllowed
  else
    match p.stack with
    | [] => .error .stackUnderflow
    | target :: s =>
      match s with
      | [] => .error .stackUnderflow
      | message :: s' =>
        match target with
        | .proc tp _ => .ok ({ p with stack := target :: s' }.bump, some (.deliver tp message))
        | _ => .error .typeMismatch

def handleSelf (p : Proc) : Res :=
  match p.frames.getLast? with
  | none => .error .frameUnderflow
  | some f0 => ok ((p.push (.proc p.pid f0.functionIndex)).bump)

def handleProcessRef (p : Proc) (pid fidx : Nat) : Res :=
  ok ((p.push (.proc pid fidx)).bump)

/-- Sources of a `Select`: the elements of a tuple, or the single value. -/
def selectSources : Val → List Val
  | .tup _ els => els.toList
  | v => [v]

def pidTargets (sources : List Val) : List Nat :=
  sources.filterMap (fun s => match s with | .proc q _ => some q | _ => none)

/-- Counter of the current frame (`frames.last().map(|f| f.counter).unwrap_or(0)`). -/
def Proc.curCounter (p : Proc) : Nat :=
  match p.frames with
  | [] => 0
  | f :: _ => f.counter

/-- `process_select_sources` as decided by the oracle, from a process whose select state `st` is
installed and whose pending verdict (if any) has been popped. -/
def selectDecide (O : Oracle) (P : Prog) (p : Proc) (st : SelectState) : Res :=
  match O.select with
  | .complete v =>
    ok ({ p with selectState := none, stack := v :: p.stack }.bump)
  | .callReceive k msg =>
    match st.sources[k]? with
    | some (.fn fi caps) =>
      -- receiving := (k, msg); push message, push source; handle_call
      handleCall O P { p with selectState := some { st with receiving := some (k, msg) },
                              stack := .fn fi caps :: msg :: p.stack }
    | _ => .error .oracleInvalid
  | .park => ok { p with selectState := some { st with receiving := none }, park := .selecting }
  | .failType => .error .typeMismatch
  | .failInvalid => .error .invalidArgument
  | .failAwaited cls => .error (.awaitedFailed cls)

def handleSelect (O : Oracle) (P : Prog) (p : Proc) : Res :=
  match p.selectState with
  | some st =>
    -- handle_select_continuation
    if st.frame ≠ p.frames.length - 1 ∨ st.instruction ≠ p.curCounter then .error .invalidArgument
    else
      match st.receiving with
      | some _ =>
        match p.stack with
        | [] => .error .stackUnderflow
        | _verdict :: s => selectDecide O P { p with stack := s } st
      | none => selectDecide O P p st
  | none =>
    -- initialize_select
    match p.stack with
    | [] => .error .stackUnderflow
    | v :: s =>
      let sources := selectSources v
      let st : SelectState :=
        { frame := p.frames.length - 1, instruction := p.curCounter, sources := sources, receiving := none }
      let targets := pidTargets sources
      if targets.isEmpty then ok { p with stack := s, selectState := some st }
      else .ok ({ p with stack := s, selectState := some st, park := .selecting }, some (.await targets))

/-- `execute_hot` / `execute_cold` dispatch. -/
def stepInstr (O : Oracle) (P : Prog) (p : Proc) : Instr → Res
  | .constant i => handleConstant P p i
  | .pop => handlePop p
  | .duplicate => handleDuplicate p
  | .pick n => handlePick p n
  | .rotate n => handleRotate p n
  | .reset n => handleReset p n
  | .load i => handleLoad p i
  | .store => handleStore p
  | .tuple id => handleTuple P p id
  | .get i => handleGet p i
  | .isType id => handleIsType O p id
  | .jump off => handleJump p off
  | .jumpIf off => handleJumpIf p off
  | .call => handleCall O P p
  | .tailCall r => handleTailCall P p r
  | .function i => handleFunction P p i
  | .builtin i => handleBuiltin P p i
  | .equal n => handleEqual O p n
  | .not => handleNot p
  | .spawn => handleSpawn p
  | .send => handleSend p
  | .self_ => handleSelf p
  | .select => handleSelect O P p
  | .process pid fidx => handleProcessRef p pid fidx

/-- One round of the frame auto-pop loop of `Executor::step` on a process whose current frame is
exhausted: pop it, bump the caller's counter unless the caller sits on the active `Select`,
truncate locals to the popped frame's base unless this was the last frame of a persistent
process. -/
def popFrame (p : Proc) : Proc :=
  match p.frames with
  | [] => p
  | f :: rest =>
    let isLast := rest.isEmpty
    let shouldClear := !p.persistent || !isLast
    let skip :=
      match p.selectState with
      | some st =>
        st.frame == rest.length - 1 &&
          st.instruction == (match rest with | [] => 0 | g :: _ => g.counter)
      | none => false
    let rest' :=
      if skip then rest
      else match rest with
        | [] => []
        | g :: r => { g with counter := g.counter + 1 } :: r
    { p with frames := rest', locals := if shouldClear then p.locals.take f.localsBase else p.locals }

/-- "finished" bookkeeping of `Executor::step` (no frames left): the result is popped from the
stack; an empty stack is `StackUnderflow`. -/
def finish (p : Proc) : Proc :=
  match p.result with
  | some _ => p
  | none =>
    match p.stack with
    | [] => { p with result := some (.error .stackUnderflow) }
    | v :: s => { p with stack := s, result := some (.ok v) }

/-- What can happen to a process. `run O` is one unit of `Executor::step` for a queued process;
the others are the executor's `notify_*` entry points. -/
inductive Event where
  | run (O : Oracle)
  /-- `notify_spawn(id, pid_value)` -/
  | spawned (v : Val)
  /-- `notify_effect_completion(id, Ok(v) | Err(_))` -/
  | effectDone (r : Option Val)
  /-- a selecting process is re-queued (`notify_result`, expired time-out) -/
  | wake
  /-- `notify_message(id, m)` -/
  | deliver (m : Val)

/-- One transition; `none` = the event is not enabled in this state. An `error e` is terminal
(`proc.result = Some(Err(e)); proc.frames.clear()`). -/
def transition (P : Prog) (p : Proc) : Event → Option Res
  | .run O =>
    if p.park ≠ .none ∨ p.result.isSome then none
    else
      match p.frames with
      | [] => some (ok (finish p))
      | f :: _ =>
        match P.functions[f.functionIndex]? with
        | none => some (.error .panic)
        | some fn =>
          match fn.instructions[f.counter]? with
          | none => some (ok (popFrame p))
          | some i => some (stepInstr O P p i)
  | .spawned v =>
    if p.park = .spawning then some (ok ({ p with stack := v :: p.stack, park := .none }.bump)) else none
  | .effectDone r =>
    if p.park = .effecting then
      match r with
      | some v => some (ok ({ p with stack := v :: p.stack, park := .none }.bump))
      | none => some (.error .invalidArgument)
    else none
  | .wake =>
    if p.park = .selecting then some (ok { p with park := .none }) else none
  | .deliver m =>
    some (ok { p with mailbox := p.mailbox ++ [m],
                      park := if p.park = .selecting then .none else p.park })

end QM.VM
