import QuiverModel.Core.VM.Check
/-
M-VM × M-Check — the invariant of the bytecode-verifier argument (owner: C07; used by C16).

`Inv P A p`: process `p` of program `P` (every function `f` annotated by `A[f]`) has the shape the
annotations describe, over the **whole frame stack**:
  * the current frame is at an annotated pc (or is exactly exhausted), its stack segment has the
    annotated height and it has at least the annotated locals — up to the operands a parked
    instruction has already popped (`Spawn`, a builtin `Call` that requested an effect: 2; a
    `Select` whose sources are popped: 1);
  * every suspended frame sits on a `Call` (the callee's argument replaced its 2 operands; exactly
    one value comes back and its counter is incremented) or on the active `Select` running a
    filter function (the verdict comes back, counter not incremented);
  * where the annotation carries a nil guard (`Guard`), the top of the stack and the number of
    locals are related as it says (`GuardSem`);
  * all values on the stack, in the locals and in the select sources are *well-formed*: a function
    value refers to an existing function and carries exactly its `captures` captured values.
-/
namespace QM.VM

mutual
/-- Well-formed value: every closure inside refers to a function of `P` and has exactly that
function's number of captures. -/
def Val.wf (P : Prog) : Val → Bool
  | .tup _ fs => ValList.wf P fs
  | .fn i caps =>
    (match P.functions[i]? with
     | some fn => caps.toList.length == fn.captures
     | none => false) && ValList.wf P caps
  | _ => true
def ValList.wf (P : Prog) : ValList → Bool
  | .nil => true
  | .cons v vs => Val.wf P v && ValList.wf P vs
end

def AllWF (P : Prog) (l : List Val) : Prop := ∀ v ∈ l, v.wf P = true

/-- The environment hands the process only well-formed values. -/
def OracleWF (P : Prog) (O : Oracle) : Prop :=
  (∀ id v r, O.builtin id v = .value r → r.wf P = true) ∧
  (∀ v, O.select = .complete v → v.wf P = true) ∧
  (∀ k m, O.select = .callReceive k m → m.wf P = true)

def EventWF (P : Prog) : Event → Prop
  | .run O => OracleWF P O
  | .spawned v => v.wf P = true
  | .effectDone (some v) => v.wf P = true
  | .effectDone none => True
  | .wake => True
  | .deliver _ => True

/-- Annotations of function `f` (empty if `A` has no entry). -/
def annsOf (A : Array Anns) (f : Nat) : Anns := A.getD f #[]

/-- Does the function re-enter itself with `TailCall(true)`? (The only instruction that reads a
frame's `captures_count`.) -/
def Function.selfTail (fn : Function) : Bool := fn.instructions.toList.contains (.tailCall true)

/-- The frame's `captures_count` is its function's `captures` — required only where it is read:
in a function that contains `TailCall(true)`. (A REPL continuation line runs with
`captures_count = 0` in a function certified with its entry locals as captures; it cannot contain a
bare `^`.) -/
def CapsOK (g : Frame) (fn : Function) : Prop := fn.selfTail = true → g.capturesCount = fn.captures

/-- Frame `g` is at an annotated pc of its function. -/
structure FrameAt (P : Prog) (A : Array Anns) (g : Frame) (fn : Function) (a : Ann) (i : Instr) : Prop where
  hfn : P.functions[g.functionIndex]? = some fn
  hcc : CapsOK g fn
  hann : (annsOf A g.functionIndex)[g.counter]? = some (some a)
  hinstr : fn.instructions[g.counter]? = some i

/-- No select is active at frame index `k`. -/
def SelNotAt (sel : Option SelectState) (k : Nat) : Prop := ∀ st, sel = some st → st.frame ≠ k

/-- Suspended frames (head = innermost caller). `sbAbove` / `lbAbove` are the stack base (position
of the callee's argument) and locals base of the frame directly above; `s0` is the stack base of
the bottom frame (number of cells below the process's first argument). -/
def Below (P : Prog) (A : Array Anns) (s0 : Nat) (sel : Option SelectState) : List Frame → Nat → Nat → Prop
  | [], sbAbove, _ => sbAbove = s0
  | g :: rest, sbAbove, lbAbove =>
    ∃ fn a i sb, FrameAt P A g fn a i ∧ g.localsBase + a.locals ≤ lbAbove ∧
      ((i = .call ∧ sbAbove + 2 = sb + a.height ∧ SelNotAt sel rest.length) ∨
       (i = .select ∧ sbAbove + 1 = sb + a.height ∧
          ∃ st, sel = some st ∧ st.frame = rest.length ∧ st.instruction = g.counter ∧
            st.receiving.isSome = true)) ∧
      Below P A s0 sel rest sb g.localsBase

/-- Operands a suspended frame has handed over: a `Call` replaced 2 cells (function, argument) by
the callee's argument; the active `Select` replaced its 1 cell (sources) by the filter's argument. -/
def handedOver (i : Instr) : Nat := if i = .select then 1 else 2

/-- Stack base (number of cells below the argument) of the frame running on top of the suspended
frames `rest`, computed from the frames and the annotations alone (`s0` cells lie below the bottom
frame's argument). `Below … rest sb _` forces `sb = stackBaseOf … rest` (C16 `below_base_eq`). -/
def stackBaseOf (P : Prog) (A : Array Anns) (s0 : Nat) : List Frame → Nat
  | [] => s0
  | g :: rest =>
    match P.functions[g.functionIndex]?, (annsOf A g.functionIndex)[g.counter]? with
    | some fn, some (some a) =>
      match fn.instructions[g.counter]? with
      | some i => stackBaseOf P A s0 rest + a.height - handedOver i
      | none => 0
    | _, _ => 0

/-- Meaning of a `Guard` for a frame with locals base `lb` in a process with `lLen` locals and
operand stack `stk`. -/
def GuardSem (lb lLen : Nat) : Guard → List Val → Prop
  | .none, _ => True
  | .top g, stk => ∀ v s, stk = v :: s → v.isNil = false → lb + g ≤ lLen
  | .dup g, stk => ∃ v s, stk = v :: v :: s ∧ (v.isNil = false → lb + g ≤ lLen)
  | .neg g, stk => ∃ n v s, stk = n :: v :: s ∧ n.isNil = !v.isNil ∧ (v.isNil = false → lb + g ≤ lLen)
  | .nilTop, stk => ∃ v s, stk = v :: s ∧ v.isNil = true

/-- Shape of the current frame `f` (frame index `k`, stack base `sb`) of a process whose stack is
`stk`, whose locals number `lLen`, with parking state `park` and select state `sel`. -/
inductive TopShape (P : Prog) (A : Array Anns) (f : Frame) (k sb : Nat) (stk : List Val) (lLen : Nat)
    (park : Park) (sel : Option SelectState) : Prop
  /-- the frame is exactly exhausted: one value over the base -/
  | exhausted (fn : Function) (hfn : P.functions[f.functionIndex]? = some fn)
      (hpc : f.counter = fn.instructions.size)
      (hs : stk.length = sb + 1) (hl : f.localsBase ≤ lLen)
      (hpark : park = .none) (hsel : SelNotAt sel k)
  /-- about to execute the instruction at an annotated pc -/
  | normal (fn : Function) (a : Ann) (i : Instr) (hat : FrameAt P A f fn a i)
      (hl : f.localsBase + a.locals ≤ lLen)
      (hs : stk.length = sb + a.height)
      (hpark : park = .none) (hsel : SelNotAt sel k)
      (hg : GuardSem f.localsBase lLen a.guard stk)
  /-- parked in `Spawn` (both operands popped, the pid not yet pushed) -/
  | spawning (fn : Function) (a : Ann) (hat : FrameAt P A f fn a .spawn)
      (hl : f.localsBase + a.locals ≤ lLen)
      (hs : stk.length + 2 = sb + a.height)
      (hpark : park = .spawning) (hsel : SelNotAt sel k)
  /-- parked in a builtin `Call` that requested an effect -/
  | effecting (fn : Function) (a : Ann) (hat : FrameAt P A f fn a .call)
      (hl : f.localsBase + a.locals ≤ lLen)
      (hs : stk.length + 2 = sb + a.height)
      (hpark : park = .effecting) (hsel : SelNotAt sel k)
  /-- evaluating the `Select` at this pc: sources popped (`receiving = none`, possibly parked), or
  a filter function has just returned its verdict (`receiving` set, verdict on top) -/
  | selecting (fn : Function) (a : Ann) (hat : FrameAt P A f fn a .select)
      (hl : f.localsBase + a.locals ≤ lLen)
      (st : SelectState) (hst : sel = some st) (hk : st.frame = k)
      (hpc : st.instruction = f.counter)
      (hs : (st.receiving = none ∧ stk.length + 1 = sb + a.height ∧
              (park = .none ∨ park = .selecting)) ∨
            (st.receiving.isSome = true ∧ stk.length = sb + a.height ∧ park = .none))

/-- **The invariant** (`s0` = stack cells below the process's first argument). -/
structure Inv (P : Prog) (A : Array Anns) (s0 : Nat) (p : Proc) : Prop where
  stackWF : AllWF P p.stack
  localsWF : AllWF P p.locals
  selWF : ∀ st, p.selectState = some st → AllWF P st.sources
  selBound : ∀ st, p.selectState = some st → st.frame < p.frames.length
  noErr : ∀ e, p.result ≠ some (.error e)
  shape :
    match p.frames with
    | [] => p.park = .none ∧ (p.result = none → p.stack.length = s0 + 1)
    | f :: rest =>
      p.result = none ∧
      ∃ sb, TopShape P A f rest.length sb p.stack p.locals.length p.park p.selectState ∧
        Below P A s0 p.selectState rest sb f.localsBase

/-- Entry state: a single frame at counter 0 of an existing function with the right number of
captures, its argument on top of an arbitrary (well-formed) stack, at least `captures`
(well-formed) locals above the frame's base. `Proc.spawn` produces such a state. -/
structure EntryWF (P : Prog) (s0 : Nat) (p : Proc) : Prop where
  frame : ∃ f fn, p.frames = [f] ∧ f.counter = 0 ∧ P.functions[f.functionIndex]? = some fn ∧
    CapsOK f fn ∧ f.localsBase + fn.captures ≤ p.locals.length
  stack : p.stack.length = s0 + 1
  stackWF : AllWF P p.stack
  localsWF : AllWF P p.locals
  park : p.park = .none
  result : p.result = none
  sel : p.selectState = none

/-- Reachability through `transition` under well-formed events. -/
inductive ReachWF (P : Prog) : Proc → Proc → Prop
  | refl (p : Proc) : ReachWF P p p
  | step {p0 p p' : Proc} {ev : Event} {act : Option Action} :
      ReachWF P p0 p → EventWF P ev → transition P p ev = some (.ok (p', act)) → ReachWF P p0 p'

/-- Every function of `P` passes the checker with its annotations in `A`. -/
def AllChecked (P : Prog) (A : Array Anns) : Prop :=
  ∀ f, f < P.functions.size → checkAnn P f (annsOf A f) = true

end QM.VM
