import QuiverModel.Core.Prelude
import QuiverModel.Core.VM.Check
/-
Wire format of programs and annotations shared by the M-VM drivers (`qm_c07`, `qm_c16`; owner C07).

  (prog (consts n) (tuples arity…) (types n) (builtins n) (fn captures Op:arg …)…)
  (fn captures Op:arg …)
Instruction tokens: the Rust variant name, then `:`-separated arguments (`Jump:-3`, `TailCall:1`,
`Process:4:2`, `Pop`). Annotations: `h:l` or `_`.
-/
open QM QM.VM

namespace QM.VM.Wire


def parseInstr (tok : String) : Option Instr :=
  match tok.splitOn ":" with
  | ["Constant", a] => a.toNat?.map .constant
  | ["Pop"] => some .pop
  | ["Duplicate"] => some .duplicate
  | ["Pick", a] => a.toNat?.map .pick
  | ["Rotate", a] => a.toNat?.map .rotate
  | ["Reset", a] => a.toNat?.map .reset
  | ["Load", a] => a.toNat?.map .load
  | ["Store"] => some .store
  | ["Tuple", a] => a.toNat?.map .tuple
  | ["Get", a] => a.toNat?.map .get
  | ["IsType", a] => a.toNat?.map .isType
  | ["Jump", a] => a.toInt?.map .jump
  | ["JumpIf", a] => a.toInt?.map .jumpIf
  | ["Call"] => some .call
  | ["TailCall", a] => a.toNat?.map (fun n => .tailCall (n != 0))
  | ["Function", a] => a.toNat?.map .function
  | ["Builtin", a] => a.toNat?.map .builtin
  | ["Equal", a] => a.toNat?.map .equal
  | ["Not"] => some .not
  | ["Spawn"] => some .spawn
  | ["Send"] => some .send
  | ["Self_"] => some .self_
  | ["Select"] => some .select
  | ["Process", a, b] => match a.toNat?, b.toNat? with
    | some x, some y => some (.process x y)
    | _, _ => none
  | _ => none

def parseFn : List Sx → Option Function
  | cap :: instrs =>
    match cap.asNat, instrs.mapM (fun x => x.asAtom.bind parseInstr) with
    | some c, some is => some { instructions := is.toArray, captures := c, typeId := 0 }
    | _, _ => none
  | [] => none

def parseProg (items : List Sx) : Option Prog :=
  let rec go (items : List Sx) (P : Prog) : Option Prog :=
    match items with
    | [] => some P
    | .list [.atom "consts", n] :: rest =>
      n.asNat.bind (fun k => go rest { P with constants := Array.replicate k (.int 0) })
    | .list (.atom "tuples" :: ars) :: rest =>
      (ars.mapM Sx.asNat).bind (fun l => go rest { P with tuples := l.toArray })
    | .list [.atom "types", n] :: rest => n.asNat.bind (fun k => go rest { P with types := k })
    | .list [.atom "builtins", n] :: rest => n.asNat.bind (fun k => go rest { P with builtins := k })
    | .list (.atom "fn" :: f) :: rest =>
      (parseFn f).bind (fun fn => go rest { P with functions := P.functions.push fn })
    | _ => none
  go items { constants := #[], functions := #[], tuples := #[], types := 0, builtins := 0 }

def renderAnn : Option Ann → String
  | some a => if a.guard = .none then s!"{a.height}:{a.locals}" else s!"{a.height}:{a.locals}:{a.guard.render}"
  | none => "_"

def renderAnns (anns : Anns) : String := " ".intercalate (anns.toList.map renderAnn)

def parseGuard (tok : String) : Option Guard :=
  if tok = "z" then some .nilTop
  else
    match tok.toList with
    | 't' :: r => (String.ofList r).toNat?.map .top
    | 'd' :: r => (String.ofList r).toNat?.map .dup
    | 'n' :: r => (String.ofList r).toNat?.map .neg
    | _ => none

/-- `h:l` (no guard) or `h:l:<guard>` with `<guard>` = `t<g>` | `d<g>` | `n<g>` | `z`. -/
def parseAnn (tok : String) : Option (Option Ann) :=
  if tok = "_" then some none
  else match tok.splitOn ":" with
    | [h, l] => match h.toNat?, l.toNat? with
      | some x, some y => some (some ⟨x, y, .none⟩)
      | _, _ => none
    | [h, l, g] => match h.toNat?, l.toNat?, parseGuard g with
      | some x, some y, some z => some (some ⟨x, y, z⟩)
      | _, _, _ => none
    | _ => none


def emptyProg : Prog := { constants := #[], functions := #[], tuples := #[], types := 0, builtins := 0 }

/-- Handles the program-loading requests; `none` if the request is something else. -/
def loadStep (P : Prog) (req : List Sx) : Option (Prog × String) :=
  match req with
  | [.list (.atom "prog" :: items)] =>
    match parseProg items with
    | some P' => some (P', s!"ok {P'.functions.size}")
    | none => some (P, "bad-request")
  | [.list (.atom "fn" :: f)] =>
    match parseFn f with
    | some fn => some ({ P with functions := P.functions.push fn }, s!"ok {P.functions.size}")
    | none => some (P, "bad-request")
  | _ => none

end QM.VM.Wire
