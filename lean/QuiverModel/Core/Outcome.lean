/-
Outcome of a modelled builtin / VM operation: a value, a *clean* runtime error (class only — error
messages are not compared), or a Rust panic (arithmetic overflow with overflow checks, slice index
out of range, failed assertion). `panic` is never an acceptable outcome for C12 / C15.
-/
namespace QM

inductive ErrClass where
  | stackUnderflow | callInvalid | functionUndefined | builtinUndefined | frameUnderflow
  | variableUndefined | constantUndefined | fieldAccessInvalid | typeMismatch | arityMismatch
  | invalidArgument | tupleEmpty | operationNotAllowed | scopeCountInvalid | scopeUnderflow
  deriving DecidableEq, Repr, Inhabited

def ErrClass.name : ErrClass → String
  | .stackUnderflow => "StackUnderflow" | .callInvalid => "CallInvalid"
  | .functionUndefined => "FunctionUndefined" | .builtinUndefined => "BuiltinUndefined"
  | .frameUnderflow => "FrameUnderflow" | .variableUndefined => "VariableUndefined"
  | .constantUndefined => "ConstantUndefined" | .fieldAccessInvalid => "FieldAccessInvalid"
  | .typeMismatch => "TypeMismatch" | .arityMismatch => "ArityMismatch"
  | .invalidArgument => "InvalidArgument" | .tupleEmpty => "TupleEmpty"
  | .operationNotAllowed => "OperationNotAllowed" | .scopeCountInvalid => "ScopeCountInvalid"
  | .scopeUnderflow => "ScopeUnderflow"

inductive Outcome (α : Type) where
  | ok (v : α)
  | err (e : ErrClass)
  | panic
  deriving DecidableEq, Repr

namespace Outcome
def bind {α β} (o : Outcome α) (f : α → Outcome β) : Outcome β :=
  match o with
  | .ok v => f v
  | .err e => .err e
  | .panic => .panic
def map {α β} (f : α → β) (o : Outcome α) : Outcome β := o.bind (fun v => .ok (f v))
def isPanic {α} : Outcome α → Bool
  | .panic => true
  | _ => false
end Outcome

instance : Monad Outcome where
  pure := .ok
  bind := Outcome.bind

end QM
