/-
M-Heap — the binary heap of one executor and its reference-count accounting.

Mirrors quiver-core/src/executor.rs (heap fields 222-242, `allocate_binary_data`,
`process_pending_free`, `retain`, `release`, the choke points `push_value` / `pop_value` /
`push_local` / `truncate_locals` / `replace_locals` / `release_orphan_locals`, `materialize`,
`cached_constant_binary`, `reachable_heap_indices`, `extract_heap_data` / `inject_heap_data`),
quiver-core/src/value.rs (`Value`, `Binary`) and quiver-core/src/process.rs (`Process`,
`SelectState`, `Frame`).

Import-free (core Lean only). Representation choices (documented, not observable):
* `stack`, `frames`, `free`, `pendingFree` are Rust `Vec`s used as stacks: the model keeps the
  *last pushed element at the head* of the list. `locals` and `mailbox` are kept in index order.
* `processes : FxHashMap<ProcessId, Process>` and `awaiting : HashMap<ProcessId, Option<Value>>`
  are association lists; `set` replaces the first entry with the key or appends (= `insert`).
* a heap slot's `BinaryData` is `Data.owned bs` (the `Owned` constructor) or `Data.rope bs` (any
  other constructor, `bs` = its `to_vec()`); the rope algebra itself is M-Bytes (property C12).
* values are trees: `Arc` sharing of tuple payloads is invisible to `retain`/`release`, which walk
  into every tuple every time — so a slot's count is the number of *paths* from the roots.
* two ghost fields, erased by the driver: `transit` — handles that left a root by a *raw* move
  (`process.stack.pop()` without `release`) and are still counted (the "floating" term of `Acct`);
  `fresh` — slots handed out by `allocate` that have not been retained since (count 0 without ever
  having been queued in `pending_free`).
-/
namespace QM.Heap

abbrev Bytes := List UInt8

/-- `MAX_BINARY_SIZE` (value.rs) -/
def maxBinarySize : Nat := 16 * 1024 * 1024

/-- Content of one heap slot (`BinaryData`), abstracted to "flat or not" + its bytes. -/
inductive Data where
  | owned (bs : Bytes)
  | rope (bs : Bytes)
  deriving Repr, DecidableEq, Inhabited

/-- `BinaryData::to_vec` -/
def Data.toVec : Data → Bytes
  | .owned bs => bs
  | .rope bs => bs

/-- `value.rs::Binary` -/
inductive Bin where
  | const (i : Nat)
  | heap (i : Nat)
  deriving Repr, DecidableEq, Inhabited

/-- `value.rs::Value` -/
inductive Val where
  | int (z : Int)
  | bin (b : Bin)
  | ref (r : Nat)
  | tuple (id : Nat) (fs : List Val)
  | func (id : Nat) (caps : List Val)
  | builtin (id : Nat)
  | proc (pid fn : Nat)
  | resource (id ty : Nat)
  deriving Repr, Inhabited

namespace Val
/-- `Value::nil()` — tuple id `NIL = 0` -/
def nil : Val := .tuple 0 []
/-- `Value::ok()` — tuple id `OK = 1` -/
def ok : Val := .tuple 1 []
/-- `Value::is_nil` -/
def isNil : Val → Bool
  | .tuple 0 [] => true
  | _ => false
def heapBin (i : Nat) : Val := .bin (.heap i)
end Val

/-! ### Counting occurrences (what `retain` / `release` add and subtract) -/

mutual
/-- number of occurrences of `Binary::Heap(i)` in `v` (paths, with multiplicity) -/
def Val.count (i : Nat) : Val → Nat
  | .bin (.heap j) => if j = i then 1 else 0
  | .tuple _ fs => countList i fs
  | .func _ cs => countList i cs
  | _ => 0
def countList (i : Nat) : List Val → Nat
  | [] => 0
  | v :: vs => v.count i + countList i vs
end

mutual
/-- `collect_heap_indices` (as a list, in traversal order, with repetitions) -/
def Val.idxs : Val → List Nat
  | .bin (.heap j) => [j]
  | .tuple _ fs => idxsList fs
  | .func _ cs => idxsList cs
  | _ => []
def idxsList : List Val → List Nat
  | [] => []
  | v :: vs => v.idxs ++ idxsList vs
end

/-! ### Processes -/

/-- `process.rs::Frame` -/
structure Frame where
  fn : Nat
  localsBase : Nat
  capturesCount : Nat
  counter : Nat
  deriving Repr, Inhabited

/-- `process.rs::SelectState` -/
structure SelectState where
  frame : Nat
  instruction : Nat
  sources : List Val
  cursors : List Nat
  startTime : Option Nat
  receiving : Option (Nat × Val)
  deriving Repr, Inhabited

/-- `Option<Result<Value, Error>>` payload: errors carry no values -/
inductive Res where
  | ok (v : Val)
  | err
  deriving Repr, Inhabited

/-- `process.rs::Process` -/
structure Proc where
  stack : List Val := []
  locals : List Val := []
  frames : List Frame := []
  mailbox : List Val := []
  persistent : Bool := false
  result : Option Res := none
  selectState : Option SelectState := none
  awaiting : List (Nat × Option Val) := []
  deriving Repr, Inhabited

def Res.vals : Option Res → List Val
  | some (.ok v) => [v]
  | _ => []

def SelectState.vals (st : SelectState) : List Val :=
  st.sources ++ (match st.receiving with | some (_, m) => [m] | none => [])

def selVals : Option SelectState → List Val
  | some st => st.vals
  | none => []

def awaitingVals : List (Nat × Option Val) → List Val
  | [] => []
  | (_, some v) :: rest => v :: awaitingVals rest
  | (_, none) :: rest => awaitingVals rest

/-- every value `reachable_heap_indices` walks for one process, in its order -/
def Proc.roots (p : Proc) : List Val :=
  p.stack ++ p.locals ++ p.mailbox ++ Res.vals p.result ++ selVals p.selectState ++ awaitingVals p.awaiting

def Proc.count (i : Nat) (p : Proc) : Nat := countList i p.roots

/-! ### Association lists (`HashMap` keyed by process id) -/

def aget {α : Type} : List (Nat × α) → Nat → Option α
  | [], _ => none
  | (k', v) :: m, k => if k' = k then some v else aget m k

/-- `HashMap::insert`: replace the entry with key `k`, or add one -/
def aset {α : Type} : List (Nat × α) → Nat → α → List (Nat × α)
  | [], k, v => [(k, v)]
  | (k', v') :: m, k, v => if k' = k then (k, v) :: m else (k', v') :: aset m k v

/-! ### Executor state (heap part + roots) -/

structure State where
  heap : Array Data := #[]
  refcounts : Array Nat := #[]
  /-- reuse pool (`Vec`, head = last pushed = next popped) -/
  free : List Nat := []
  /-- deferred frees (`Vec`, head = last pushed = next popped) -/
  pendingFree : List Nat := []
  freed : Array Bool := #[]
  constantBinaries : Array (Option Bin) := #[]
  procs : List (Nat × Proc) := []
  /-- ghost: handles moved out of a root by a raw `pop`, still counted ("floating") -/
  transit : List Val := []
  /-- ghost: slots allocated and not retained since -/
  fresh : List Nat := []
  /-- ghost: one of the debug assertions of the heap would have fired (`retain` / `release` /
  `get_binary_data` / `materialize` of a freed slot — "use-after-free" — or a `release` underflow) -/
  uaf : Bool := false
  deriving Repr, Inhabited

/-- `Executor::new`: everything empty -/
def State.init : State := {}

namespace State

def rc (s : State) (i : Nat) : Nat := s.refcounts.getD i 0
def isFreed (s : State) (i : Nat) : Bool := s.freed.getD i false
def bytesAt (s : State) (i : Nat) : Bytes := (s.heap.getD i (.owned [])).toVec

def getProc (s : State) (pid : Nat) : Option Proc := aget s.procs pid
def setProc (s : State) (pid : Nat) (p : Proc) : State := { s with procs := aset s.procs pid p }

def procsCount (i : Nat) : List (Nat × Proc) → Nat
  | [] => 0
  | (_, p) :: rest => p.count i + procsCount i rest

def constCountL (i : Nat) : List (Option Bin) → Nat
  | [] => 0
  | some (.heap j) :: rest => (if j = i then 1 else 0) + constCountL i rest
  | _ :: rest => constCountL i rest

/-- occurrences of slot `i` in the constant-binary cache (a root) -/
def constCount (s : State) (i : Nat) : Nat := constCountL i s.constantBinaries.toList

/-- `countRefs (roots s) i`: occurrences of `Binary::Heap(i)` reachable from the roots of every
process and from the constant cache, counted as `retain` counts them (one per path) -/
def countRefs (s : State) (i : Nat) : Nat := procsCount i s.procs + s.constCount i

/-- occurrences in handles that are in transit but still counted -/
def floating (s : State) (i : Nat) : Nat := countList i s.transit

def procsIdxs : List (Nat × Proc) → List Nat
  | [] => []
  | (_, p) :: rest => idxsList p.roots ++ procsIdxs rest

def constIdxs : List (Option Bin) → List Nat
  | [] => []
  | some (.heap j) :: rest => j :: constIdxs rest
  | _ :: rest => constIdxs rest

/-- `reachable_heap_indices` (as a list) -/
def reachable (s : State) : List Nat := procsIdxs s.procs ++ constIdxs s.constantBinaries.toList

end State

/-! ### `allocate_binary_data`, `process_pending_free`, `retain`, `release` -/

def Data.len (d : Data) : Nat := d.toVec.length

/-- `allocate_binary_data`: reuse the most recently freed slot if any, else grow. The slot starts
at count 0. `none` = `InvalidArgument` (size limit), state unchanged. -/
def allocate (s : State) (d : Data) : Option Nat × State :=
  if d.len > maxBinarySize then (none, s)
  else match s.free with
    | index :: rest =>
      (some index, { s with heap := s.heap.setIfInBounds index d,
                            refcounts := s.refcounts.setIfInBounds index 0,
                            freed := s.freed.setIfInBounds index false,
                            free := rest,
                            fresh := index :: s.fresh })
    | [] =>
      let index := s.heap.size
      (some index, { s with heap := s.heap.push d,
                            refcounts := s.refcounts.push 0,
                            freed := s.freed.push false,
                            fresh := index :: s.fresh })

/-- one iteration of the `while let Some(index) = pending_free.pop()` loop -/
def freeOne (s : State) (index : Nat) : State :=
  if s.rc index = 0 ∧ s.isFreed index = false then
    { s with heap := s.heap.setIfInBounds index (.owned []),
             freed := s.freed.setIfInBounds index true,
             free := index :: s.free }
  else s

def freeAll (s : State) : List Nat → State
  | [] => s
  | index :: rest => freeAll (freeOne s index) rest

/-- `process_pending_free` -/
def processPendingFree (s : State) : State :=
  freeAll { s with pendingFree := [] } s.pendingFree

def retainIdx (s : State) (idx : Nat) : State :=
  { s with refcounts := s.refcounts.modify idx (· + 1), fresh := s.fresh.filter (· != idx),
           uaf := s.uaf || s.isFreed idx }

/-- leaf case of `release`: `saturating_sub(1)`, queue the slot when it reaches 0 -/
def releaseIdx (s : State) (idx : Nat) : State :=
  let c := s.rc idx - 1
  { s with refcounts := s.refcounts.setIfInBounds idx c,
           pendingFree := if c = 0 then idx :: s.pendingFree else s.pendingFree,
           uaf := s.uaf || s.isFreed idx || s.rc idx == 0 }

mutual
/-- `retain` (deep) -/
def retain (s : State) : Val → State
  | .bin (.heap idx) => retainIdx s idx
  | .tuple _ fs => retainList s fs
  | .func _ cs => retainList s cs
  | _ => s
def retainList (s : State) : List Val → State
  | [] => s
  | v :: vs => retainList (retain s v) vs
end

mutual
/-- `release` (deep) -/
def release (s : State) : Val → State
  | .bin (.heap idx) => releaseIdx s idx
  | .tuple _ fs => releaseList s fs
  | .func _ cs => releaseList s cs
  | _ => s
def releaseList (s : State) : List Val → State
  | [] => s
  | v :: vs => releaseList (release s v) vs
end

/-- `get_binary_data` on every binary of `v` (what a builtin may read of its argument): the debug
assertion "access of freed heap slot" -/
def noteAccess (s : State) (v : Val) : State :=
  { s with uaf := s.uaf || v.idxs.any s.isFreed }

/-! ### Choke points. The Rust functions take `proc: &mut Process` (the running process, always
present); the model addresses it by id and leaves the state unchanged if the id is unknown. -/

/-- `push_value` -/
def pushValue (s : State) (pid : Nat) (v : Val) : State :=
  match s.getProc pid with
  | some p => (retain s v).setProc pid { p with stack := v :: p.stack }
  | none => s

/-- `pop_value` -/
def popValue (s : State) (pid : Nat) : Option Val × State :=
  match s.getProc pid with
  | some p =>
    match p.stack with
    | v :: rest => (some v, release (s.setProc pid { p with stack := rest }) v)
    | [] => (none, s)
  | none => (none, s)

/-- `push_local` -/
def pushLocal (s : State) (pid : Nat) (v : Val) : State :=
  match s.getProc pid with
  | some p => (retain s v).setProc pid { p with locals := p.locals ++ [v] }
  | none => s

/-- `truncate_locals` / `truncate_locals_pid` -/
def truncateLocals (s : State) (pid : Nat) (len : Nat) : State :=
  match s.getProc pid with
  | some p =>
    if p.locals.length > len then
      releaseList (s.setProc pid { p with locals := p.locals.take len }) (p.locals.drop len)
    else s
  | none => s

/-- `replace_locals`: retain the incoming bindings, swap, release the outgoing ones -/
def replaceLocals (s : State) (pid : Nat) (newLocals : List Val) : Bool × State :=
  match s.getProc pid with
  | none => (false, s)
  | some p =>
    (true, releaseList ((retainList s newLocals).setProc pid { p with locals := newLocals }) p.locals)

/-- the `iter_mut().enumerate()` loop of `release_orphan_locals`: returns (new locals, orphans) -/
def splitOrphans (keep : List Nat) : Nat → List Val → List Val × List Val
  | _, [] => ([], [])
  | index, v :: rest =>
    let (ls, os) := splitOrphans keep (index + 1) rest
    if keep.contains index then (v :: ls, os) else (Val.nil :: ls, v :: os)

/-- `release_orphan_locals` -/
def releaseOrphanLocals (s : State) (pid : Nat) (keep : List Nat) : Bool × State :=
  match s.getProc pid with
  | none => (false, s)
  | some p =>
    let (ls, os) := splitOrphans keep 0 p.locals
    (true, releaseList (s.setProc pid { p with locals := ls }) os)

/-- `materialize` on a heap binary: flatten in place; returns the bytes (without the assertion) -/
def materializeCore (s : State) (index : Nat) : Bytes × State :=
  match s.heap[index]? with
  | some (.owned bs) => (bs, s)
  | some (.rope bs) => (bs, { s with heap := s.heap.setIfInBounds index (.owned bs) })
  | none => ([], s)

/-- `materialize` with its debug assertion ("materialize of freed heap slot") -/
def materialize (s : State) (index : Nat) : Bytes × State :=
  ((materializeCore s index).1, { (materializeCore s index).2 with uaf := s.uaf || s.isFreed index })

/-- `Vec::resize(index + 1, None)` when `len <= index` -/
def resizeCache (c : Array (Option Bin)) (index : Nat) : Array (Option Bin) :=
  if c.size ≤ index then c ++ Array.replicate (index + 1 - c.size) none else c

/-- `cached_constant_binary`; `bytes` = `constants[index]` if it is a binary constant
(`none` → `ConstantUndefined`) -/
def cachedConstantBinary (s : State) (index : Nat) (bytes : Option Bytes) : Option Bin × State :=
  match s.constantBinaries[index]? with
  | some (some b) => (some b, s)
  | _ =>
    match bytes with
    | none => (none, s)
    | some bs =>
      match allocate s (.owned bs) with
      | (none, s) => (none, s)
      | (some idx, s) =>
        let s := { s with constantBinaries := (resizeCache s.constantBinaries index).setIfInBounds index (some (.heap idx)) }
        (some (.heap idx), retain s (.bin (.heap idx)))

/-! ### Cross-process transfer by copy -/

/-- sorted, de-duplicated list of the heap indices of `v` (`indices_vec`) -/
def insertSorted (x : Nat) : List Nat → List Nat
  | [] => [x]
  | y :: ys => if x < y then x :: y :: ys else if x = y then y :: ys else y :: insertSorted x ys

def sortDedup (xs : List Nat) : List Nat := xs.foldr insertSorted []

def indexOf (x : Nat) : List Nat → Option Nat
  | [] => none
  | y :: ys => if x = y then some 0 else (indexOf x ys).map (· + 1)

mutual
/-- `remap_heap_indices` with the map as a function; `none` = "index not in mapping" -/
def remap (f : Nat → Option Nat) : Val → Option Val
  | .bin (.heap j) => (f j).map (fun k => .bin (.heap k))
  | .tuple id fs => (remapList f fs).map (.tuple id)
  | .func id cs => (remapList f cs).map (.func id)
  | v => some v
def remapList (f : Nat → Option Nat) : List Val → Option (List Val)
  | [] => some []
  | v :: vs =>
    match remap f v, remapList f vs with
    | some v', some vs' => some (v' :: vs')
    | _, _ => none
end

/-- `extract_heap_data`: compact copy of the referenced slots + the value re-indexed into it -/
def extractHeapData (s : State) (v : Val) : Option (Val × List Bytes) :=
  let indices := sortDedup v.idxs
  if indices.all (· < s.heap.size) then
    (remap (fun j => indexOf j indices) v).map (fun v' => (v', indices.map s.bytesAt))
  else none

/-- allocate a list of slot contents in order; returns the new slot of every entry
(`none` = one allocation failed with `InvalidArgument`; the earlier ones stay allocated) -/
def allocMany (s : State) : List Data → Option (List Nat) × State
  | [] => (some [], s)
  | d :: rest =>
    match allocate s d with
    | (none, s) => (none, s)
    | (some idx, s) =>
      match allocMany s rest with
      | (some idxs, s) => (some (idx :: idxs), s)
      | (none, s) => (none, s)

/-- the allocation loop of `inject_heap_data` (`allocate_binary(bytes.clone())` per entry) -/
def allocAll (s : State) (heapData : List Bytes) : Option (List Nat) × State :=
  allocMany s (heapData.map Data.owned)

/-- `inject_heap_data` -/
def injectHeapData (s : State) (v : Val) (heapData : List Bytes) : Option Val × State :=
  match allocAll s heapData with
  | (none, s) => (none, s)
  | (some idxs, s) => (remap (fun j => idxs[j]?) v, s)

/-! ### Structural reading of a value against a heap (`erase`: slot numbers → bytes) -/

/-- structural values: binaries by content -/
inductive SVal where
  | int (z : Int)
  | bytes (bs : Bytes)
  | constBin (i : Nat)
  | ref (r : Nat)
  | tuple (id : Nat) (fs : List SVal)
  | func (id : Nat) (caps : List SVal)
  | builtin (id : Nat)
  | proc (pid fn : Nat)
  | resource (id ty : Nat)
  deriving Repr, Inhabited

mutual
def erase (look : Nat → Bytes) : Val → SVal
  | .int z => .int z
  | .bin (.heap j) => .bytes (look j)
  | .bin (.const i) => .constBin i
  | .ref r => .ref r
  | .tuple id fs => .tuple id (eraseList look fs)
  | .func id cs => .func id (eraseList look cs)
  | .builtin id => .builtin id
  | .proc p f => .proc p f
  | .resource a b => .resource a b
def eraseList (look : Nat → Bytes) : List Val → List SVal
  | [] => []
  | v :: vs => erase look v :: eraseList look vs
end

end QM.Heap
