import QuiverModel.Core.Heap.Basic
/-
M-Heap, instruction layer: every VM instruction handler, notification handler and bookkeeping block
of quiver-core/src/executor.rs (and the three `Worker` functions that move values:
`resume_process`, `compact_locals`, the `Err` branch of `notify_result`) described by its
*value-movement pattern*: which values it pops, pushes, copies, retains, releases — in the order the
code does it, including what is left behind when it fails half-way. Everything that does not move
values (type tests, arithmetic, scheduling sets, the instruction counter of a jump) is either a
parameter or left out; parameters are universally quantified in the theorems.

Raw moves (`process.stack.pop()` / `.push(..)` without `release` / `retain`) go through the ghost
`transit` list so that every primitive step has a meaning for the accounting equation.
-/
namespace QM.Heap
open State

/-- `process.rs::Action` (what leaves `step` for the worker) -/
inductive Action where
  | spawn (caller fn : Nat) (captures : List Val) (argument : Val)
  | deliver (target : Nat) (value : Val)
  | await (targets : List Nat) (caller : Nat)
  | effect (pid : Nat)
  deriving Repr, Inhabited

/-- result of a handler: `Ok(None)`, `Err(_)`, `Ok(Some(action))`, or `Ok(None)` after
`mark_selecting` (the time slice ends) -/
inductive Out where
  | ok
  | fail
  | act (a : Action)
  | wait
  deriving Repr, Inhabited

/-! ### primitive steps that are not choke points -/

/-- update the frame stack of a process (no values involved) -/
def modFrames (s : State) (pid : Nat) (f : List Frame → List Frame) : State :=
  match s.getProc pid with
  | some p => s.setProc pid { p with frames := f p.frames }
  | none => s

/-- `if let Some(frame) = proc.frames.last_mut() { frame.counter += 1 }` -/
def bumpTop : List Frame → List Frame
  | f :: rest => { f with counter := f.counter + 1 } :: rest
  | [] => []

def bump (s : State) (pid : Nat) : State := modFrames s pid bumpTop

/-- `frame.counter = target` on the top frame -/
def setCounter (target : Nat) : List Frame → List Frame
  | f :: rest => { f with counter := target } :: rest
  | [] => []

/-- `*proc.frames.last_mut().unwrap() = Frame::new(..)` -/
def replaceTop (nf : Frame) : List Frame → List Frame
  | _ :: rest => nf :: rest
  | [] => []

/-- raw `process.stack.pop()`: the handle leaves the root still counted -/
def rawPop (s : State) (pid : Nat) : Option Val × State :=
  match s.getProc pid with
  | some p =>
    match p.stack with
    | v :: rest => (some v, { (s.setProc pid { p with stack := rest }) with transit := v :: s.transit })
    | [] => (none, s)
  | none => (none, s)

/-- `release(&value)` of the handle in transit at position `k`, which is then an uncounted local -/
def releaseTransit (s : State) (k : Nat) : State :=
  match s.transit[k]? with
  | some v => release { s with transit := s.transit.eraseIdx k } v
  | none => s

/-- raw `process.stack.push(value)` of the handle in transit at position `k` -/
def rawPushTransit (s : State) (pid : Nat) (k : Nat) : State :=
  match s.transit[k]?, s.getProc pid with
  | some v, some p => { (s.setProc pid { p with stack := v :: p.stack }) with transit := s.transit.eraseIdx k }
  | _, _ => s

/-- the Rust local holding the handle in transit at position `k` goes out of scope without a
`release` (an early `?` return, a `match` arm that ignores it): the handle is gone, its count stays.
Accounting-neutral only when the value mentions no heap slot. -/
def dropTransit (s : State) (k : Nat) : State := { s with transit := s.transit.eraseIdx k }

/-- raw `process.stack.push(value)` of a value built on the spot (`Value::Process(..)`) -/
def rawPush (s : State) (pid : Nat) (v : Val) : State :=
  match s.getProc pid with
  | some p => s.setProc pid { p with stack := v :: p.stack }
  | none => s

/-! ### hot instructions (`execute_hot`) -/

inductive Const where
  | int (z : Int)
  | bin (bs : Bytes)
  deriving Repr, Inhabited

/-- `handle_constant`; `c = constants.get(index)` -/
def handleConstant (s : State) (pid index : Nat) (c : Option Const) : State × Out :=
  match c with
  | none => (s, .fail)
  | some (.int z) => (bump (pushValue s pid (.int z)) pid, .ok)
  | some (.bin bs) =>
    match cachedConstantBinary s index (some bs) with
    | (none, s) => (s, .fail)
    | (some b, s) => (bump (pushValue s pid (.bin b)) pid, .ok)

/-- `handle_pop` -/
def handlePop (s : State) (pid : Nat) : State × Out :=
  match popValue s pid with
  | (none, s) => (s, .fail)
  | (some _, s) => (bump s pid, .ok)

def stackOf (s : State) (pid : Nat) : List Val :=
  match s.getProc pid with
  | some p => p.stack
  | none => []

def localsOf (s : State) (pid : Nat) : List Val :=
  match s.getProc pid with
  | some p => p.locals
  | none => []

def framesOf (s : State) (pid : Nat) : List Frame :=
  match s.getProc pid with
  | some p => p.frames
  | none => []

/-- `handle_duplicate` -/
def handleDuplicate (s : State) (pid : Nat) : State × Out :=
  match stackOf s pid with
  | v :: _ => (bump (pushValue s pid v) pid, .ok)
  | [] => (s, .fail)

/-- `handle_pick` (`n` counts from the top) -/
def handlePick (s : State) (pid n : Nat) : State × Out :=
  match (stackOf s pid)[n]? with
  | some v => (bump (pushValue s pid v) pid, .ok)
  | none => (s, .fail)

/-- `handle_rotate`: `stack.remove(len - n)` then `push` — pure reordering, no accounting.
(`n = 0` would index out of range in `Vec::remove`; the compiler never emits it: modelled as failure.) -/
def handleRotate (s : State) (pid n : Nat) : State × Out :=
  match s.getProc pid with
  | none => (s, .fail)
  | some p =>
    if n = 0 ∨ p.stack.length < n then (s, .fail)
    else
      match p.stack[n - 1]? with
      | some item => (bump (s.setProc pid { p with stack := item :: p.stack.eraseIdx (n - 1) }) pid, .ok)
      | none => (s, .fail)

/-- `handle_load` -/
def handleLoad (s : State) (pid index : Nat) : State × Out :=
  match framesOf s pid with
  | [] => (s, .fail)
  | frame :: _ =>
    match (localsOf s pid)[frame.localsBase + index]? with
    | some v => (bump (pushValue s pid v) pid, .ok)
    | none => (s, .fail)

/-- `handle_store` -/
def handleStore (s : State) (pid : Nat) : State × Out :=
  match popValue s pid with
  | (none, s) => (s, .fail)
  | (some v, s) => (bump (pushLocal s pid v) pid, .ok)

/-- `for _ in 0..n { values.push(self.pop_value(proc).ok_or(StackUnderflow)?) }`: the values in pop
order; on underflow the values popped so far have been released and are dropped -/
def popN (s : State) (pid : Nat) : Nat → Option (List Val) × State
  | 0 => (some [], s)
  | n + 1 =>
    match popValue s pid with
    | (none, s) => (none, s)
    | (some v, s) =>
      match popN s pid n with
      | (some vs, s) => (some (v :: vs), s)
      | (none, s) => (none, s)

/-- `handle_tuple`; `size = tuples.get(type_id)` -/
def handleTuple (s : State) (pid typeId : Nat) (size : Option Nat) : State × Out :=
  match size with
  | none => (s, .fail)
  | some n =>
    match popN s pid n with
    | (none, s) => (s, .fail)
    | (some vs, s) => (bump (pushValue s pid (.tuple typeId vs.reverse)) pid, .ok)

/-- `handle_get` -/
def handleGet (s : State) (pid index : Nat) : State × Out :=
  match popValue s pid with
  | (none, s) => (s, .fail)
  | (some (.tuple _ elements), s) =>
    match elements[index]? with
    | some element => (bump (pushValue s pid element) pid, .ok)
    | none => (s, .fail)
  | (some _, s) => (s, .fail)

/-- `handle_is_type`; `isMatch` is the table lookup -/
def handleIsType (s : State) (pid : Nat) (isMatch : Val → Bool) : State × Out :=
  match popValue s pid with
  | (none, s) => (s, .fail)
  | (some v, s) => (bump (pushValue s pid (if isMatch v then Val.ok else Val.nil)) pid, .ok)

/-- `handle_jump`: `counter.wrapping_add_signed(offset + 1)`; `target` is the resulting counter -/
def handleJump (s : State) (pid : Nat) (target : Nat) : State × Out :=
  (modFrames s pid (setCounter target), .ok)

/-- `handle_jump_if` -/
def handleJumpIf (s : State) (pid : Nat) (target : Nat) : State × Out :=
  match popValue s pid with
  | (none, s) => (s, .fail)
  | (some c, s) =>
    if !c.isNil then (modFrames s pid (setCounter target), .ok)
    else (bump s pid, .ok)

def pushLocals (s : State) (pid : Nat) : List Val → State
  | [] => s
  | c :: cs => pushLocals (pushLocal s pid c) pid cs

/-- what a builtin does to the heap: given its argument it allocates new slots (in this order;
`none` = it fails before allocating) and builds its result from the argument and the new slots
(`none` = `Err(_)` after the allocations). `isAction` = it returns `BuiltinResult::Action` (an effect
request) instead of a value. -/
structure BuiltinRun where
  allocs : Val → Option (List Data)
  result : Val → List Nat → Option Val
  isAction : Bool := false

/-- `handle_call`. `fnExists` = `get_function(function_index).is_some()`; `run` = the builtin
(`none` = "Unrecognised builtin"). -/
def handleCall (s : State) (pid : Nat) (fnExists : Nat → Bool) (run : Nat → Option BuiltinRun) : State × Out :=
  match stackOf s pid with
  | [] => (s, .fail)
  | .func functionIndex captures :: _ =>
    if !fnExists functionIndex then (s, .fail)
    else
      let s := (popValue s pid).2
      match popValue s pid with
      | (none, s) => (s, .fail)
      | (some parameter, s) =>
        let localsBase := (localsOf s pid).length
        let s := pushValue s pid parameter
        let s := pushLocals s pid captures
        (modFrames s pid (fun fs => ⟨functionIndex, localsBase, captures.length, 0⟩ :: fs), .ok)
  | .builtin builtinId :: _ =>
    let s := (popValue s pid).2
    match popValue s pid with
    | (none, s) => (s, .fail)
    | (some parameter, s) =>
      match run builtinId with
      | none => (s, .fail)
      | some r =>
        let s := noteAccess s parameter
        match r.allocs parameter with
        | none => (s, .fail)
        | some ds =>
        match allocMany s ds with
        | (none, s) => (s, .fail)
        | (some idxs, s) =>
          match r.result parameter idxs with
          | none => (s, .fail)
          | some value =>
            if r.isAction then (s, .act (.effect pid))
            else (bump (pushValue s pid value) pid, .ok)
  | _ :: _ => (s, .fail)

/-- `handle_tail_call` -/
def handleTailCall (s : State) (pid : Nat) (recurse : Bool) (fnExists : Nat → Bool) : State × Out :=
  if recurse then
    match popValue s pid with
    | (none, s) => (s, .fail)
    | (some argument, s) =>
      match framesOf s pid with
      | [] => (s, .fail)
      | frame :: _ =>
        let s := truncateLocals s pid (frame.localsBase + frame.capturesCount)
        let s := pushValue s pid argument
        (modFrames s pid (replaceTop ⟨frame.fn, frame.localsBase, frame.capturesCount, 0⟩), .ok)
  else
    match popValue s pid with
    | (none, s) => (s, .fail)
    | (some functionValue, s) =>
      match popValue s pid with
      | (none, s) => (s, .fail)
      | (some argument, s) =>
        match functionValue with
        | .func functionIndex captures =>
          if !fnExists functionIndex then (s, .fail)
          else
            match framesOf s pid with
            | [] => (s, .fail)
            | frame :: _ =>
              let s := truncateLocals s pid frame.localsBase
              let s := pushLocals s pid captures
              let s := pushValue s pid argument
              (modFrames s pid (replaceTop ⟨functionIndex, frame.localsBase, captures.length, 0⟩), .ok)
        | _ => (s, .fail)

/-- `handle_function`; `captureCount = get_function(function_index).map(|f| f.captures)` -/
def handleFunction (s : State) (pid functionIndex : Nat) (captureCount : Option Nat) : State × Out :=
  match captureCount with
  | none => (s, .fail)
  | some n =>
    match popN s pid n with
    | (none, s) => (s, .fail)
    | (some vs, s) => (bump (pushValue s pid (.func functionIndex vs.reverse)) pid, .ok)

/-- `handle_reset` -/
def handleReset (s : State) (pid index : Nat) : State × Out :=
  match framesOf s pid with
  | [] => (s, .fail)
  | frame :: _ =>
    let target := frame.localsBase + index
    if target > (localsOf s pid).length then (s, .fail)
    else (bump (truncateLocals s pid target) pid, .ok)

/-- `handle_builtin` -/
def handleBuiltin (s : State) (pid index : Nat) (exists_ : Bool) : State × Out :=
  if !exists_ then (s, .fail)
  else (bump (pushValue s pid (.builtin index)) pid, .ok)

/-- `handle_equal`; `eqv` = `values_equal`. The result is a verdict: `Ok` or nil (since 6e33e91 the
compared value itself is no longer pushed). (`count = 0` would index `values[0]` out of range; the
compiler never emits it: modelled as failure.) -/
def handleEqual (s : State) (pid count : Nat) (eqv : State → Val → Val → Bool) : State × Out :=
  if count > (stackOf s pid).length ∨ count = 0 then (s, .fail)
  else
    match popN s pid count with
    | (none, s) => (s, .fail)
    | (some vs, s) =>
      match vs.reverse with
      | [] => (s, .fail)
      | first :: rest =>
        let result := if (first :: rest).all (eqv s first) then Val.ok else Val.nil
        (bump (pushValue s pid result) pid, .ok)

/-- `handle_not` -/
def handleNot (s : State) (pid : Nat) : State × Out :=
  match popValue s pid with
  | (none, s) => (s, .fail)
  | (some v, s) => (bump (pushValue s pid (if v.isNil then Val.ok else Val.nil)) pid, .ok)

/-! ### `values_equal` -/

mutual
/-- `values_equal`; `canon` = `canonical_tuple`, `constBytes` = the binary constants -/
def valuesEqual (canon : Nat → Nat) (constBytes : Nat → Option Bytes) (s : State) : Val → Val → Bool
  | .int a, .int b => a == b
  | .bin (.const a), .bin (.const b) =>
    match constBytes a, constBytes b with
    | some x, some y => x == y
    | _, _ => false
  | .bin (.heap a), .bin (.heap b) =>
    match s.heap[a]?, s.heap[b]? with
    | some x, some y => x.toVec == y.toVec
    | _, _ => false
  | .bin (.const c), .bin (.heap h) =>
    match constBytes c, s.heap[h]? with
    | some x, some y => x == y.toVec
    | _, _ => false
  | .bin (.heap h), .bin (.const c) =>
    match constBytes c, s.heap[h]? with
    | some x, some y => x == y.toVec
    | _, _ => false
  | .tuple ta ea, .tuple tb eb =>
    canon ta == canon tb && ea.length == eb.length && valuesEqualList canon constBytes s ea eb
  | .func ia ca, .func ib cb =>
    ia == ib && ca.length == cb.length && valuesEqualList canon constBytes s ca cb
  | .builtin a, .builtin b => a == b
  | .proc a fa, .proc b fb => a == b && fa == fb
  | .ref a, .ref b => a == b
  | _, _ => false
def valuesEqualList (canon : Nat → Nat) (constBytes : Nat → Option Bytes) (s : State) : List Val → List Val → Bool
  | a :: as, b :: bs => valuesEqual canon constBytes s a b && valuesEqualList canon constBytes s as bs
  | _, _ => true
end

/-! ### cold instructions other than `Select` -/

def isReceiving (s : State) (pid : Nat) : Bool :=
  match s.getProc pid with
  | some p => match p.selectState with
    | some st => st.receiving.isSome
    | none => false
  | none => false

/-- `handle_spawn`: raw-pop function and argument, release both, hand them to the `Spawn` action -/
def handleSpawn (s : State) (pid : Nat) : State × Out :=
  if isReceiving s pid then (s, .fail)
  else
    match rawPop s pid with
    | (none, s) => (s, .fail)
    | (some functionValue, s) =>
      match rawPop s pid with
      | (none, s) => (dropTransit s 0, .fail)     -- `?`: the popped function value is dropped, still counted
      | (some argument, s) =>
        -- transit = [argument, functionValue]
        let s := releaseTransit s 1
        let s := releaseTransit s 0
        match functionValue with
        | .func idx caps => (s, .act (.spawn pid idx caps argument))
        | _ => (s, .fail)

/-- `handle_send` -/
def handleSend (s : State) (pid : Nat) : State × Out :=
  if isReceiving s pid then (s, .fail)
  else
    match rawPop s pid with
    | (none, s) => (s, .fail)
    | (some targetValue, s) =>
      match rawPop s pid with
      | (none, s) => (dropTransit s 0, .fail)     -- `?`: the popped target is dropped, still counted
      | (some message, s) =>
        -- transit = [message, targetValue]
        let s := releaseTransit s 0
        -- transit = [targetValue]
        match targetValue with
        | .proc targetPid _ => (bump (rawPushTransit s pid 0) pid, .act (.deliver targetPid message))
        | _ => (dropTransit s 0, .fail)

/-- `handle_self`; `startedWith = process_function_indices.get(&pid)` (since 4f13f02 the handle
names the function the process was started with); without it, the first frame's function, failing
with `FrameUnderflow` when there is no frame -/
def handleSelf (s : State) (pid : Nat) (startedWith : Option Nat) : State × Out :=
  match startedWith with
  | some index => (bump (rawPush s pid (.proc pid index)) pid, .ok)
  | none =>
    match (framesOf s pid).getLast? with
    | none => (s, .fail)
    | some first => (bump (rawPush s pid (.proc pid first.fn)) pid, .ok)

/-- `handle_process_ref` -/
def handleProcessRef (s : State) (pid processId functionIndex : Nat) : State × Out :=
  (bump (rawPush s pid (.proc processId functionIndex)) pid, .ok)

/-! ### notifications and process creation -/

/-- `spawn_process` (after fd2e22f: one injection for captures and argument together).
`functionIndex = none` creates the sleeping REPL process. -/
def spawnProcess (s : State) (id : Nat) (functionIndex : Option Nat) (captures : List Val) (argument : Val)
    (heapData : List Bytes) (persistent : Bool) : State × Out :=
  match functionIndex with
  | none => (s.setProc id { persistent := persistent, result := some (.ok Val.nil) }, .ok)
  | some fi =>
    let s := s.setProc id { persistent := persistent }
    match injectHeapData s (.tuple 0 (captures ++ [argument])) heapData with
    | (some (.tuple _ injected), s) =>
      match injected.reverse with
      | injectedArg :: revCaps =>
        let s := pushLocals s id revCaps.reverse
        let s := pushValue s id injectedArg
        (modFrames s id (fun fs => ⟨fi, 0, captures.length, 0⟩ :: fs), .ok)
      | [] => (s, .fail)
    | (_, s) => (s, .fail)

/-- `notify_spawn`: raw push of the pid value -/
def notifySpawn (s : State) (id : Nat) (spawned fn : Nat) : State :=
  bump (rawPush s id (.proc spawned fn)) id

/-- store into `awaiting`, returning the previous entry -/
def awaitingInsert (s : State) (pid target : Nat) (v : Option Val) : Option (Option Val) × State :=
  match s.getProc pid with
  | some p => (aget p.awaiting target, s.setProc pid { p with awaiting := aset p.awaiting target v })
  | none => (none, s)

/-- `notify_result` (after 795fca7 and bc74ad3): only a process that has not finished and whose
current select still awaits the target stores the result — checked *before* the injection, so an
ignored result allocates nothing; a replaced stored result is released -/
def notifyResult (s : State) (awaiter awaited : Nat) (result : Val) (heap : List Bytes) : State × Out :=
  match s.getProc awaiter with
  | none => (s, .ok)
  | some p0 =>
    if p0.result.isNone && (aget p0.awaiting awaited).isSome then
      match injectHeapData s result heap with
      | (none, s) => (s, .fail)
      | (some injected, s) =>
        match s.getProc awaiter with
        | none => (s, .ok)
        | some p =>
          let s := retain s injected
          let previous := aget p.awaiting awaited
          let s := s.setProc awaiter { p with awaiting := aset p.awaiting awaited (some injected) }
          match previous with
          | some (some old) => (release s old, .ok)
          | _ => (s, .ok)
    else (s, .ok)

/-- `notify_result` as it was before 795fca7 / bc74ad3: unconditional store, the replaced value is
not released (kept to show the theorem depends on the repair) -/
def notifyResultUnfixed (s : State) (awaiter awaited : Nat) (result : Val) (heap : List Bytes) : State × Out :=
  match injectHeapData s result heap with
  | (none, s) => (s, .fail)
  | (some injected, s) =>
    match s.getProc awaiter with
    | none => (s, .ok)
    | some p =>
      let s := retain s injected
      (s.setProc awaiter { p with awaiting := aset p.awaiting awaited (some injected) }, .ok)

/-- `notify_message` -/
def notifyMessage (s : State) (id : Nat) (message : Val) (heap : List Bytes) : State × Out :=
  match injectHeapData s message heap with
  | (none, s) => (s, .fail)
  | (some injected, s) =>
    match s.getProc id with
    | none => (s, .ok)
    | some p => ((retain s injected).setProc id { p with mailbox := p.mailbox ++ [injected] }, .ok)

/-- `notify_effect_completion`; `result = none` is the `Err(msg)` case -/
def notifyEffectCompletion (s : State) (pid : Nat) (result : Option Val) (heap : List Bytes) : State × Out :=
  match result with
  | some v =>
    match injectHeapData s v heap with
    | (none, s) => (s, .fail)
    | (some injected, s) =>
      match s.getProc pid with
      | none => (retain s injected, .fail)
      | some p => (bump ((retain s injected).setProc pid { p with stack := injected :: p.stack }) pid, .ok)
  | none =>
    match s.getProc pid with
    | none => (s, .fail)
    | some p => (s.setProc pid { p with result := some .err, frames := [] }, .ok)

/-- the `Err(error)` arm of the step loop (and, before bc74ad3, of `Worker::notify_result` and of
the completion block for every process that had ever awaited the failing one):
`process.result = Some(Err(error)); process.frames.clear()` — an *overwrite* of `result` -/
def setError (s : State) (pid : Nat) : State :=
  match s.getProc pid with
  | some p => s.setProc pid { p with result := some .err, frames := [] }
  | none => s

/-- `Worker::resume_process` (REPL): the previous result moves back onto the stack (raw) -/
def resumeProcess (s : State) (id functionIndex : Nat) : State × Out :=
  match s.getProc id with
  | none => (s, .fail)
  | some p =>
    match p.result with
    | some (.ok v) =>
      if p.persistent then
        (s.setProc id { p with result := none, stack := v :: p.stack,
                               frames := ⟨functionIndex, 0, 0, 0⟩ :: p.frames }, .ok)
      else (s, .fail)
    | _ => (s, .fail)

/-- `Worker::compact_locals` -/
def compactLocals (s : State) (pid : Nat) (keepIndices : List Nat) : State × Out :=
  match s.getProc pid with
  | none => (s, .fail)
  | some p =>
    match keepIndices.mapM (fun i => p.locals[i]?) with
    | none => (s, .fail)
    | some newLocals => ((replaceLocals s pid newLocals).2, .ok)

/-! ### the bookkeeping of `step` after the time slice -/

/-- one iteration of the auto-pop loop: pop the exhausted frame, optionally truncate locals.
`skipIncrement` is computed as in the code from the select state. -/
def popFrame (s : State) (pid : Nat) : State :=
  match s.getProc pid with
  | none => s
  | some p =>
    match p.frames with
    | [] => s
    | frame :: rest =>
      let isLast := rest.isEmpty
      let shouldClear := !p.persistent || !isLast
      let skip := match p.selectState with
        | some st =>
          st.frame == rest.length - 1 && st.instruction == (match rest with | f :: _ => f.counter | [] => 0)
        | none => false
      let rest' := if skip then rest else bumpTop rest
      let s := s.setProc pid { p with frames := rest' }
      if shouldClear then truncateLocals s pid frame.localsBase else s

/-- completion block, first part: the result value moves (raw) from the stack into `result` -/
def finish (s : State) (pid : Nat) : State × Out :=
  match s.getProc pid with
  | none => (s, .ok)
  | some p =>
    match p.result with
    | some .err => (s, .ok)
    | _ =>
      match p.stack with
      | [] => (s.setProc pid { p with result := some .err }, .fail)
      | v :: rest => (s.setProc pid { p with stack := rest, result := some (.ok v) }, .ok)

/-- the processes of this executor whose `awaiting` map has the key `pid` -/
def awaitersOf (s : State) (pid : Nat) : List Nat :=
  (s.procs.filter (fun e => (aget e.2.awaiting pid).isSome)).map (·.1)

def notifyAll (pid : Nat) (v : Val) : State → List Nat → State
  | s, [] => s
  | s, a :: rest => notifyAll pid v (notifyResult s a pid v []).1 rest

/-- completion block, second part: `notify_result(awaiter, current_pid, result_value.clone(), vec![])`
for every awaiter on the same executor (errors of the call are ignored: with an empty heap list the
injection fails for a result that holds heap binaries, which then travels through the environment
instead). A failure is recorded in `awaiting_failed` (no values; kept by the driver). -/
def notifyAwaiters (s : State) (pid : Nat) : State :=
  match s.getProc pid with
  | some p =>
    match p.result with
    | some (.ok v) => notifyAll pid v s (awaitersOf s pid)
    | _ => s
  | none => s

/-! ### the roots a finished process leaves behind (finding F17, candidate repair
`notes/C06-fixes/01-release-dead-roots.patch`)

At HEAD a finished process keeps everything it still roots for the life of the worker: operands
beneath the result (a tail call inside a tuple field abandons the fields built so far; an error exit
abandons the whole stack and the locals), unreceived or later-arriving messages, the select state and
awaited results of a select cut short by an error. All of it stays counted AND reachable (the
accounting equation holds), but nothing can ever use it. The functions below model the repaired
code; the driver switches them on when the source under test contains `release_dead_roots`. -/

def insertStored (e : Nat × Val) : List (Nat × Val) → List (Nat × Val)
  | [] => [e]
  | x :: xs => if e.1 ≤ x.1 then e :: x :: xs else x :: insertStored e xs

/-- the stored awaited results, ordered by target (`stored.sort_by_key`) -/
def storedSorted : List (Nat × Option Val) → List (Nat × Val)
  | [] => []
  | (t, some v) :: rest => insertStored (t, v) (storedSorted rest)
  | (_, none) :: rest => storedSorted rest

/-- what `release_dead_roots` releases, in its order -/
def deadRoots (p : Proc) : List Val :=
  p.stack.reverse ++
    (if p.persistent then []
     else p.locals ++ p.mailbox ++ selVals p.selectState ++ (storedSorted p.awaiting).map (·.2))

/-- the process after `release_dead_roots` -/
def withoutDeadRoots (p : Proc) : Proc :=
  if p.persistent then { p with stack := [] }
  else { p with stack := [], locals := [], mailbox := [], selectState := none, awaiting := [] }

/-- `release_dead_roots` -/
def releaseDeadRoots (s : State) (pid : Nat) : State :=
  match s.getProc pid with
  | none => s
  | some p => releaseList (s.setProc pid (withoutDeadRoots p)) (deadRoots p)

/-- `deliverable` of the repaired `notify_message` -/
def deliverable (p : Proc) : Bool :=
  match p.result with
  | none => true
  | some (.ok _) => p.persistent
  | some .err => false

/-- the repaired `notify_message`: a message for an unknown process, or for one that has finished
and cannot be resumed, is dropped BEFORE its heap data is copied in -/
def notifyMessageGuarded (s : State) (id : Nat) (message : Val) (heap : List Bytes) : State × Out :=
  match s.getProc id with
  | some p => if deliverable p then notifyMessage s id message heap else (s, .ok)
  | none => (s, .ok)

end QM.Heap
