import QuiverModel.Core.Heap.Select
/-
Variants of M-Heap functions as the code was BEFORE the repairs 27c635d (F7), 795fca7 (F14),
fd2e22f (F15) and bc74ad3 (F16). They are not used by the model; `Theorems/C06.lean` shows with
concrete, kernel-evaluated witnesses that each of them breaks the property — so the theorems visibly
depend on the repairs. (`callReceiveFunctionUnfixed` is in `Select.lean`, `notifyResultUnfixed` in
`Instr.lean`; the F16 variant is `setError` applied to a process that has already completed.)
-/
namespace QM.Heap
open State

/-- `Worker::handle_action(Action::Spawn)` before fd2e22f: every capture and the argument extracted
separately (each with compact indices starting at 0), the heap lists concatenated -/
def extractEachUnfixed (s : State) : List Val → Option (List Val × List Bytes)
  | [] => some ([], [])
  | v :: vs =>
    match extractHeapData s v, extractEachUnfixed s vs with
    | some (v', hd), some (vs', hds) => some (v' :: vs', hd ++ hds)
    | _, _ => none

/-- `spawn_process` before fd2e22f: `inject_heap_data(value, &heap_data)` once per value, each time
with the WHOLE concatenated heap -/
def injectEachUnfixed (s : State) (heapData : List Bytes) : List Val → Option (List Val) × State
  | [] => (some [], s)
  | v :: vs =>
    match injectHeapData s v heapData with
    | (none, s) => (none, s)
    | (some w, s) =>
      match injectEachUnfixed s heapData vs with
      | (some ws, s) => (some (w :: ws), s)
      | (none, s) => (none, s)

/-- the repaired transfer: one extraction and one injection for all values together -/
def transferAll (src dst : State) (vs : List Val) : Option (List Val) × State :=
  match extractHeapData src (.tuple 0 vs) with
  | some (v', hd) =>
    match injectHeapData dst v' hd with
    | (some (.tuple _ ws), s) => (some ws, s)
    | (_, s) => (none, s)
  | none => (none, dst)

def transferAllUnfixed (src dst : State) (vs : List Val) : Option (List Val) × State :=
  match extractEachUnfixed src vs with
  | some (vs', hd) => injectEachUnfixed dst hd vs'
  | none => (none, dst)

/-- the bytes the binaries among `vs` read against heap `s` -/
def readBins (s : State) (vs : List Val) : List Bytes :=
  vs.filterMap (fun v => match v with | .bin (.heap j) => some (s.bytesAt j) | _ => none)

end QM.Heap
