import QuiverModel.Core.Heap.Instr
/-
M-Heap, dispatcher: one abstract instruction = one handler + the `Err` arm of the step loop.
The program-dependent facts a handler looks up (a constant, a tuple arity, a capture count, whether a
function / builtin exists, what a builtin computes, the verdict of `values_equal` / of the type
table) travel with the instruction or in `Env`; the theorems quantify over all of them.
-/
namespace QM.Heap
open State

structure Env where
  fnExists : Nat → Bool := fun _ => true
  run : Nat → Option BuiltinRun := fun _ => none
  eqv : State → Val → Val → Bool := fun _ _ _ => false
  isMatch : Nat → Val → Bool := fun _ _ => false

inductive Instr where
  | constant (index : Nat) (c : Option Const)
  | pop
  | duplicate
  | pick (n : Nat)
  | rotate (n : Nat)
  | load (index : Nat)
  | store
  | tuple (typeId : Nat) (size : Option Nat)
  | get (index : Nat)
  | isType (typeId : Nat)
  | jump (target : Nat)
  | jumpIf (target : Nat)
  | call
  | tailCall (recurse : Bool)
  | function (index : Nat) (captures : Option Nat)
  | reset (index : Nat)
  | builtin (index : Nat) (known : Bool)
  | equal (count : Nat)
  | not
  | spawn
  | send
  | self (startedWith : Option Nat)
  | processRef (pid fn : Nat)
  deriving Repr, Inhabited

/-- `execute_hot` / `execute_cold` (without `Select`, see `Select.lean`) -/
def exec (env : Env) (s : State) (pid : Nat) : Instr → State × Out
  | .constant index c => handleConstant s pid index c
  | .pop => handlePop s pid
  | .duplicate => handleDuplicate s pid
  | .pick n => handlePick s pid n
  | .rotate n => handleRotate s pid n
  | .load index => handleLoad s pid index
  | .store => handleStore s pid
  | .tuple typeId size => handleTuple s pid typeId size
  | .get index => handleGet s pid index
  | .isType typeId => handleIsType s pid (env.isMatch typeId)
  | .jump target => handleJump s pid target
  | .jumpIf target => handleJumpIf s pid target
  | .call => handleCall s pid env.fnExists env.run
  | .tailCall recurse => handleTailCall s pid recurse env.fnExists
  | .function index captures => handleFunction s pid index captures
  | .reset index => handleReset s pid index
  | .builtin index known => handleBuiltin s pid index known
  | .equal count => handleEqual s pid count env.eqv
  | .not => handleNot s pid
  | .spawn => handleSpawn s pid
  | .send => handleSend s pid
  | .self sw => handleSelf s pid sw
  | .processRef p f => handleProcessRef s pid p f

/-- one iteration of the instruction loop of `step`: run the handler; on `Err` store the error and
clear the frames -/
def stepInstr (env : Env) (s : State) (pid : Nat) (i : Instr) : State × Out :=
  match exec env s pid i with
  | (s, .fail) => (setError s pid, .fail)
  | r => r

end QM.Heap
