import QuiverModel.Core.Heap.Exec
/-
M-Heap, the select machinery of quiver-core/src/executor.rs (`handle_select`,
`handle_select_continuation`, `initialize_select`, `process_select_sources`,
`handle_select_process`, `handle_select_receive`, `handle_receive_result`,
`scan_mailbox_for_message`, `call_receive_function`, `complete_select`), at commit bc74ad3 and later:
the awaits of a select end with it (`complete_select` removes the `awaiting` entries of its process
sources and releases the stored results), a replaced stored result is released (795fca7), and the
message of an abandoned filter call is released (27c635d).

What does not move values is a parameter (`SelEnv`): the clock, the precomputed message/parameter
compatibility, whether a receive source is type-only, which awaited targets are known to have
failed (`awaiting_failed` holds errors only).

Every root change is written as a *move into / out of the ghost `transit` list* followed by
`release` / `retain` of the handle in transit, so that each primitive step keeps the accounting
equation; the transit positions are ghost data (only the order of the `release` calls is real, and
it is the order of the Rust code).
-/
namespace QM.Heap
open State

structure SelEnv where
  now : Nat := 0
  /-- `check_message_compatible(message, source)` -/
  compat : Val → Val → Bool := fun _ _ => true
  /-- `is_type_only`: a body-less function or any builtin -/
  typeOnly : Val → Bool := fun _ => true
  /-- `awaiting_failed.contains_key(target)` -/
  failed : Nat → Bool := fun _ => false
  fnExists : Nat → Bool := fun _ => true
  run : Nat → Option BuiltinRun := fun _ => none

/-! ### primitives -/

/-- release the first `n` handles in transit, head first -/
def releaseTransitN (s : State) : Nat → State
  | 0 => s
  | n + 1 => releaseTransitN (releaseTransit s 0) n

/-- `retain(&v)` of a handle the Rust code holds in a local; it is counted from now on. Ghost: the
handle is filed at position `k` of `transit`. -/
def retainIntoTransit (s : State) (k : Nat) (v : Val) : State :=
  { retain s v with transit := s.transit.take k ++ [v] ++ s.transit.drop k }

def isReceiveSource : Val → Bool
  | .func _ _ => true
  | .builtin _ => true
  | _ => false

def pidTargets : List Val → List Nat
  | [] => []
  | .proc p _ :: rest => p :: pidTargets rest
  | _ :: rest => pidTargets rest

def topCounter : List Frame → Nat
  | f :: _ => f.counter
  | [] => 0

/-- the loop `for target in &pid_targets { awaiting.insert(target, None) }` collecting replaced
stored results -/
def resetAwaits (aw : List (Nat × Option Val)) : List Nat → List (Nat × Option Val) × List Val
  | [] => (aw, [])
  | t :: ts =>
    let prev := aget aw t
    let r := resetAwaits (aset aw t none) ts
    (r.1, match prev with | some (some old) => old :: r.2 | _ => r.2)

def aremove {α : Type} : List (Nat × α) → Nat → List (Nat × α)
  | [], _ => []
  | (k', v) :: m, k => if k' = k then m else (k', v) :: aremove m k

/-- the loop of `complete_select` over the process sources: `awaiting.remove(target)` collecting
stored results -/
def removeAwaits (aw : List (Nat × Option Val)) : List Val → List (Nat × Option Val) × List Val
  | [] => (aw, [])
  | .proc t _ :: rest =>
    let prev := aget aw t
    let r := removeAwaits (aremove aw t) rest
    (r.1, match prev with | some (some v) => v :: r.2 | _ => r.2)
  | _ :: rest => removeAwaits aw rest

def recvList : Option (Nat × Val) → List Val
  | some (_, m) => [m]
  | none => []

/-! ### `complete_select` -/

def completeSelect (s : State) (pid : Nat) (result : Val) : State × Out :=
  match s.getProc pid with
  | none => (s, .fail)
  | some p =>
    match p.selectState with
    | some st =>
      let (aw', stored) := removeAwaits p.awaiting st.sources
      -- `select_state.take()` + `awaiting.remove(..)`: the handles leave their roots
      let s := { (s.setProc pid { p with selectState := none, awaiting := aw' }) with
                 transit := st.sources ++ recvList st.receiving ++ stored ++ s.transit }
      -- release the sources, then the in-flight message
      let s := releaseTransitN s (st.sources.length + (recvList st.receiving).length)
      -- retain the result, then release the stored values
      let s := retainIntoTransit s stored.length result
      let s := releaseTransitN s stored.length
      -- `process.stack.push(result)`
      (bump (rawPushTransit s pid 0) pid, .ok)
    | none =>
      let s := retainIntoTransit s 0 result
      (bump (rawPushTransit s pid 0) pid, .ok)

/-! ### `call_receive_function` -/

def setCursor (cs : List Nat) (i v : Nat) : List Nat := cs.set i v

/-- update of the mutable part of a select state -/
def SelectState.upd (st : SelectState) (cursors : List Nat) (receiving : Option (Nat × Val)) : SelectState :=
  { st with cursors := cursors, receiving := receiving }

/-- `call_receive_function` (after 27c635d: the abandoned message is released) -/
def callReceiveFunction (env : SelEnv) (s : State) (pid receiveIdx msgIdx : Nat) (message source : Val) :
    State × Out :=
  match s.getProc pid with
  | none => (s, .fail)
  | some p =>
    let s1 := retain s message
    match p.selectState with
    | some st =>
      -- `state.receiving.replace(..)`: the previous message (if any) leaves its root
      let st' := st.upd (setCursor st.cursors receiveIdx msgIdx) (some (receiveIdx, message))
      let s2 := { (s1.setProc pid { p with selectState := some st' }) with
                  transit := recvList st.receiving ++ s1.transit }
      let s3 := releaseTransitN s2 (recvList st.receiving).length
      let s4 := pushValue s3 pid message
      let s5 := pushValue s4 pid source
      handleCall s5 pid env.fnExists env.run
    | none =>
      -- no select state: the retained clone is never stored (cannot happen: only called from
      -- `process_select_sources`, which requires the state)
      let s2 := { s1 with transit := message :: s1.transit }
      let s4 := pushValue s2 pid message
      let s5 := pushValue s4 pid source
      handleCall s5 pid env.fnExists env.run

/-- `call_receive_function` as it was before 27c635d: `state.receiving = Some(..)` overwrites the
pending message without releasing it -/
def callReceiveFunctionUnfixed (env : SelEnv) (s : State) (pid receiveIdx msgIdx : Nat) (message source : Val) :
    State × Out :=
  match s.getProc pid with
  | none => (s, .fail)
  | some p =>
    let s1 := retain s message
    match p.selectState with
    | some st =>
      let st' := st.upd (setCursor st.cursors receiveIdx msgIdx) (some (receiveIdx, message))
      let s2 := s1.setProc pid { p with selectState := some st' }
      let s4 := pushValue s2 pid message
      let s5 := pushValue s4 pid source
      handleCall s5 pid env.fnExists env.run
    | none => (s1, .fail)

/-! ### receive sources -/

inductive SelectResult where
  | complete (v : Val)
  | calledFunction
  | continue_
  | error

/-- `mailbox.remove(msg_idx)` + `release(removed)` -/
def removeMessage (s : State) (pid msgIdx : Nat) : State :=
  match s.getProc pid with
  | none => s
  | some p =>
    match p.mailbox[msgIdx]? with
    | some m =>
      let s := { (s.setProc pid { p with mailbox := p.mailbox.eraseIdx msgIdx }) with transit := m :: s.transit }
      releaseTransit s 0
    | none => s

/-- `handle_receive_result` -/
def handleReceiveResult (s : State) (pid receiveIdx : Nat) (messageValue : Val) (receiveResult : Option Val) :
    State × Option (Option Val) :=
  match receiveResult with
  | none => (s, none)                       -- `Err(InvalidArgument)`
  | some result =>
    if !result.isNil then
      match s.getProc pid with
      | none => (s, none)
      | some p =>
        match p.selectState with
        | none => (s, none)
        | some st =>
          let msgIdx := st.cursors.getD receiveIdx 0
          (removeMessage s pid msgIdx, some (some messageValue))
    else
      match s.getProc pid with
      | none => (s, none)
      | some p =>
        match p.selectState with
        | some st =>
          -- `cursors[receive_idx] += 1; receiving.take()` + release of the held message
          let st' := st.upd (setCursor st.cursors receiveIdx (st.cursors.getD receiveIdx 0 + 1)) none
          let s := { (s.setProc pid { p with selectState := some st' }) with
                     transit := recvList st.receiving ++ s.transit }
          (releaseTransitN s (recvList st.receiving).length, some none)
        | none => (s, some none)

/-- the `for (msg_idx, message) in mailbox.iter().enumerate().skip(cursor)` loop: the first
compatible message at or after `cursor`, or the cursor after all skipped messages -/
def scanFrom (compat : Val → Bool) : Nat → List Val → Sum (Nat × Val) Nat
  | idx, [] => .inr idx
  | idx, m :: rest => if compat m then .inl (idx, m) else scanFrom compat (idx + 1) rest

/-- `scan_mailbox_for_message` -/
def scanMailboxForMessage (env : SelEnv) (s : State) (pid receiveIdx : Nat) (source : Val) (snap : SelectState) :
    State × SelectResult :=
  match s.getProc pid with
  | none => (s, .error)
  | some p =>
    let cursor := match p.selectState with
      | some st => st.cursors.getD receiveIdx 0
      | none => 0
    match scanFrom (fun m => env.compat m source) cursor (p.mailbox.drop cursor) with
    | .inl (msgIdx, message) =>
      if env.typeOnly source then (removeMessage s pid msgIdx, .complete message)
      else
        match callReceiveFunction env s pid receiveIdx msgIdx message source with
        | (s, .fail) => (s, .error)
        | (s, _) => (s, .calledFunction)
    | .inr cursor' =>
      if cursor' > snap.cursors.getD receiveIdx 0 then
        match p.selectState with
        | some st =>
          if receiveIdx < st.cursors.length then
            (s.setProc pid { p with selectState := some { st with cursors := setCursor st.cursors receiveIdx cursor' } },
             .continue_)
          else (s, .continue_)
        | none => (s, .continue_)
      else (s, .continue_)

/-- `handle_select_receive` -/
def handleSelectReceive (env : SelEnv) (s : State) (pid srcIdx : Nat) (source : Val) (snap : SelectState)
    (receiveResult : Option Val) : State × SelectResult :=
  let receiveIdx := ((snap.sources.take srcIdx).filter isReceiveSource).length
  match snap.receiving with
  | some (idx, messageValue) =>
    if idx = receiveIdx then
      match handleReceiveResult s pid receiveIdx messageValue receiveResult with
      | (s, none) => (s, .error)
      | (s, some (some value)) => (s, .complete value)
      | (s, some none) => scanMailboxForMessage env s pid receiveIdx source snap
    else scanMailboxForMessage env s pid receiveIdx source snap
  | none => scanMailboxForMessage env s pid receiveIdx source snap

/-! ### `process_select_sources` -/

/-- `handle_select_timeout`: `timeout_ms.to_i64().unwrap_or(i64::MAX).max(0) as u64` -/
def timeoutExpired (timeout : Int) (start now : Nat) : Bool :=
  let t : Nat :=
    if timeout < -9223372036854775808 ∨ timeout > 9223372036854775807 then 9223372036854775807
    else if timeout < 0 then 0 else timeout.toNat
  decide (now - start ≥ t)

def awaitedResult (s : State) (pid target : Nat) : Option Val :=
  match s.getProc pid with
  | some p => match aget p.awaiting target with
    | some (some v) => some v
    | _ => none
  | none => none

/-- the `for (src_idx, source) in select_state.sources.iter().enumerate()` loop over the snapshot -/
def processSources (env : SelEnv) (pid : Nat) (snap : SelectState) (receiveResult : Option Val) (startTime : Nat) :
    State → Nat → List Val → State × Out
  | s, _, [] => (s, .wait)        -- no source ready: `mark_selecting`
  | s, srcIdx, source :: rest =>
    match source with
    | .int timeout =>
      if timeoutExpired timeout startTime env.now then completeSelect s pid Val.nil
      else processSources env pid snap receiveResult startTime s (srcIdx + 1) rest
    | .proc target _ =>
      if env.failed target then (s, .fail)
      else
        match awaitedResult s pid target with
        | some v => completeSelect s pid v
        | none => processSources env pid snap receiveResult startTime s (srcIdx + 1) rest
    | .func _ _ | .builtin _ =>
      match handleSelectReceive env s pid srcIdx source snap receiveResult with
      | (s, .complete v) => completeSelect s pid v
      | (s, .calledFunction) => (s, .ok)
      | (s, .error) => (s, .fail)
      | (s, .continue_) => processSources env pid snap receiveResult startTime s (srcIdx + 1) rest
    | _ => (s, .fail)

/-! ### `handle_select` -/

/-- `handle_select_continuation`: `none` = error; `some none` = not a continuation;
`some (some verdict)` = the verdict of the receive function, popped raw and released -/
def handleSelectContinuation (s : State) (pid : Nat) : State × Option (Option Val) :=
  match s.getProc pid with
  | none => (s, none)
  | some p =>
    match p.selectState with
    | none => (s, some none)
    | some st =>
      if st.frame != p.frames.length - 1 || st.instruction != topCounter p.frames then (s, none)
      else if st.receiving.isSome then
        match rawPop s pid with
        | (none, s) => (s, none)
        | (some verdict, s) => (releaseTransit s 0, some (some verdict))
      else (s, some none)

/-- the sources of a select: the elements of a tuple, or the single value -/
def sourcesOf : Val → List Val
  | .tuple _ elements => elements
  | single => [single]

/-- the `SelectState` built by `initialize_select` -/
def newSelectState (p : Proc) (sources : List Val) (now : Nat) : SelectState :=
  { frame := p.frames.length - 1, instruction := topCounter p.frames, sources := sources,
    cursors := List.replicate (sources.filter isReceiveSource).length 0,
    startTime := if (pidTargets sources).isEmpty then some now else none, receiving := none }

/-- `initialize_select` -/
def initializeSelect (env : SelEnv) (s : State) (pid : Nat) : State × Out :=
  match rawPop s pid with
  | (none, s) => (s, .fail)
  | (some value, s) =>
    match s.getProc pid with
    | none => (s, .fail)
    | some p =>
      let st := newSelectState p (sourcesOf value) env.now
      let targets := pidTargets (sourcesOf value)
      if targets.isEmpty then
        -- the popped value becomes the source list (a move: same handles, same counts)
        ({ (s.setProc pid { p with selectState := some st }) with transit := s.transit.tail }, .ok)
      else
        let ra := resetAwaits p.awaiting targets
        let s := { (s.setProc pid { p with selectState := some st, awaiting := ra.1 }) with
                   transit := ra.2 ++ s.transit.tail }
        (releaseTransitN s ra.2.length, .act (.await targets pid))

/-- `handle_select` -/
def handleSelect (env : SelEnv) (s : State) (pid : Nat) : State × Out :=
  match handleSelectContinuation s pid with
  | (s, none) => (s, .fail)
  | (s, some receiveResult) =>
    match s.getProc pid with
    | none => (s, .fail)
    | some p =>
      match p.selectState with
      | none =>
        -- `receive_result.is_none()` here (a verdict implies a select state)
        initializeSelect env s pid
      | some st =>
        -- `ensure_select_start_time`
        let startTime := st.startTime.getD env.now
        let s := match st.startTime with
          | some _ => s
          | none => s.setProc pid { p with selectState := some { st with startTime := some env.now } }
        let snap : SelectState := match st.startTime with
          | some _ => st
          | none => { st with startTime := some env.now }
        processSources env pid snap receiveResult startTime s 0 snap.sources

/-- one iteration of the instruction loop of `step` on a `Select` instruction (handler + `Err` arm) -/
def stepSelect (env : SelEnv) (s : State) (pid : Nat) : State × Out :=
  match handleSelect env s pid with
  | (s, .fail) => (setError s pid, .fail)
  | r => r

/-! ### variant: a select with process sources waits for its await answers
(`notes/C05-fixes/01-select-waits-for-its-await-answer.patch`, `SelectState.unanswered`)

`unanswered` holds process ids only (no values); like `awaiting_failed` it is kept by the driver and
reaches the model as one bit: `pending` = "the current select state has an unanswered target". With
the repair a select whose gate is closed evaluates NOTHING (no start time, no source, nothing
consumed) and goes back to `selecting`; only the continuation check of phase 1 has run before. With
`pending = false` this is `handle_select` as it was. -/

def hasSelectStateB (s : State) (pid : Nat) : Bool :=
  match s.getProc pid with
  | some p => p.selectState.isSome
  | none => false

/-- `handle_select` with the gate between phases 2 and 3 -/
def handleSelectWaiting (env : SelEnv) (pending : Bool) (s : State) (pid : Nat) : State × Out :=
  match handleSelectContinuation s pid with
  | (s1, none) => (s1, .fail)
  | (s1, some _) =>
    if pending && hasSelectStateB s1 pid then (s1, .wait)     -- `mark_selecting`, `Ok(None)`
    else handleSelect env s pid

/-- one iteration of the instruction loop on a `Select` instruction, repaired variant -/
def stepSelectWaiting (env : SelEnv) (pending : Bool) (s : State) (pid : Nat) : State × Out :=
  match handleSelectWaiting env pending s pid with
  | (s, .fail) => (setError s pid, .fail)
  | r => r

end QM.Heap
