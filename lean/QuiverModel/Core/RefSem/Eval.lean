import QuiverModel.Core.RefSem.Syntax
/-
M-RefSem, evaluator — a fuelled big-step **reference semantics of the documented core language**,
written from `docs/spec.md` (not from the compiler): the comments quote the sentence of the spec each
rule formalises. Independent of M-VM. Import-free.

Judgement forms (all take the *flowing value* `flow` — "`~` always names the value to the left"):

  evalExpr  fuel env flow e      : Res Val             a block body `{ b₁ | b₂ | … }`
  evalSeq   fuel env flow cs     : Res (Val × Env)     `c₁, c₂, …`   (fallible pipe)
  evalChain fuel env flow c      : Res (Val × Env)     `p = t₁ t₂ …` (infallible pipe)
  evalTerms / evalTerm           : Res (Val × Env)     one term transforms the flowing value
  evalFields                     : Res (fields × Env)  tuple fields, each receives a copy of `flow`
  apply     fuel f arg           : Res Val             function application

`Env` is the list of visible bindings, innermost first. The enclosing function's parameter `$` and
the function itself (target of `^`) live in the same list under the reserved names `"$"` and `"^"`
(no identifier can be spelled that way), so closures capture them like everything else.

A name maps to `none` when it was bound by a pattern whose match *failed*: the spec says the
variables of a pattern "are in scope afterwards" but fixes no value for them in that case; reading
such a name is `Res.unspec` (the correspondence check skips these programs, and counts them).
-/
namespace QM.RefSem

/-- Runtime values, structurally: tuples carry their name and field labels, binaries their bytes. -/
inductive Val where
  | int (z : Int)
  | bin (bs : List UInt8)
  | tup (name : Option String) (fields : List (Option String × Val))
  /-- a function value: its parameter is nil (`nilary`), its body, and the bindings it captured -/
  | clo (nilary : Bool) (body : Option Expr) (env : List (String × Option Val))
  | builtin (name : String)
  deriving Inhabited

abbrev Env := List (String × Option Val)
abbrev Fields := List (Option String × Val)

/-- Result of evaluation. `fuelOut` is its own outcome; `err` is a runtime error of the given class
(only value-domain errors of builtins); `unspec` marks programs outside what the spec fixes
(ill-typed operations that the static checker is supposed to exclude, equality of functions, reads
of variables of a failed match). -/
inductive Res (α : Type) where
  | ok (a : α)
  | fuelOut
  | err (cls : String)
  | unspec (why : String)
  deriving Inhabited

namespace Val
/-- `[]` -/
def nil : Val := .tup none []
/-- `Ok` -/
def okv : Val := .tup (some "Ok") []

def isNil : Val → Bool
  | .tup none [] => true
  | _ => false

def isCallable : Val → Bool
  | .clo .. => true
  | .builtin _ => true
  | _ => false
end Val

/-! ### Structural equality ("Refs support equality and pattern matching"; literal and pin patterns) -/

mutual
  /-- `none` when the answer would depend on comparing two function values (not fixed by the spec). -/
  def Val.eqv : Val → Val → Option Bool
    | .int a, .int b => some (decide (a = b))
    | .bin a, .bin b => some (decide (a = b))
    | .tup n fs, .tup m gs => if n = m then eqvFields fs gs else some false
    | .clo .., .clo .. => none
    | .clo .., .builtin _ => none
    | .builtin _, .clo .. => none
    | .builtin _, .builtin _ => none
    | _, _ => some false
  def eqvFields : Fields → Fields → Option Bool
    | [], [] => some true
    | (l, v) :: fs, (m, w) :: gs =>
      if l = m then
        match Val.eqv v w with
        | some true => eqvFields fs gs
        | r => r
      else some false
    | _, _ => some false
end

/-! ### Environment -/

def lookup (env : Env) (x : String) : Option (Option Val) :=
  match env with
  | [] => none
  | (y, v) :: rest => if x = y then some v else lookup rest x

/-- Read a variable: unbound names are excluded statically (`unspec`), names of a failed match too. -/
def readVar (env : Env) (x : String) : Res Val :=
  match lookup env x with
  | some (some v) => .ok v
  | some none => .unspec "read of a variable bound by a failed match"
  | none => .unspec "unbound variable"

/-! ### Field access (spec §Field access: `point.x`, `tuple.0`, chained) -/

def fieldByLabel (fs : Fields) (l : String) : Option Val :=
  match fs with
  | [] => none
  | (some m, v) :: rest => if l = m then some v else fieldByLabel rest l
  | (none, _) :: rest => fieldByLabel rest l

def fieldByIndex (fs : Fields) (i : Nat) : Option Val :=
  match fs, i with
  | [], _ => none
  | (_, v) :: _, 0 => some v
  | _ :: rest, i + 1 => fieldByIndex rest i

def project1 (v : Val) (a : Acc) : Res Val :=
  match v, a with
  | .tup _ fs, .label l =>
    match fieldByLabel fs l with
    | some w => .ok w
    | none => .unspec "ill-typed access: no such field"
  | .tup _ fs, .index i =>
    match fieldByIndex fs i with
    | some w => .ok w
    | none => .unspec "ill-typed access: no such position"
  | _, _ => .unspec "ill-typed access: not a tuple"

def project (v : Val) (accs : List Acc) : Res Val :=
  match accs with
  | [] => .ok v
  | a :: rest =>
    match project1 v a with
    | .ok w => project w rest
    | r => r

/-! ### Run-time type tests of first-order types (type patterns) -/

mutual
  def hasType : Ty → Val → Bool
    | .int, .int _ => true
    | .bin, .bin _ => true
    | .tup n tfs, .tup m fs => decide (n = m) && hasTypeFields tfs fs
    | .part n tfs, .tup m fs =>
      (match n with | none => true | some _ => decide (n = m)) && hasTypePart tfs fs
    | .union alts, v => hasTypeAny alts v
    | _, _ => false
  def hasTypeFields : List (Option String × Ty) → Fields → Bool
    | [], [] => true
    | (l, t) :: ts, (m, v) :: fs => decide (l = m) && hasType t v && hasTypeFields ts fs
    | _, _ => false
  def hasTypePart : List (String × Ty) → Fields → Bool
    | [], _ => true
    | (l, t) :: ts, fs =>
      (match fieldByLabel fs l with
       | some v => hasType t v
       | none => false) && hasTypePart ts fs
  def hasTypeAny : List Ty → Val → Bool
    | [], _ => false
    | t :: ts, v => hasType t v || hasTypeAny ts v
end

/-! ### Pattern matching (spec §Pattern matching)

`matchPat env p v acc` extends the bindings `acc` made so far *by this pattern* (innermost first),
or fails. "Identifiers in patterns bind by default"; a repeated identifier inside one pattern tests
equality with its first occurrence; `&x` tests equality with the visible binding of `x`. -/

inductive MRes where
  | matched (bs : Env)
  | failed
  | unspec (why : String)
  deriving Inhabited

def eqTest (a b : Val) (bs : Env) : MRes :=
  match Val.eqv a b with
  | some true => .matched bs
  | some false => .failed
  | none => .unspec "equality of function values"

def bindVar (x : String) (v : Val) (acc : Env) : MRes :=
  match lookup acc x with
  | some (some w) => eqTest w v acc
  | some none => .unspec "repeated binder after failure"
  | none => .matched ((x, some v) :: acc)

def litVal : Lit → Val
  | .int z => .int z
  | .bin bs => .bin bs

/-- bind every labelled field under its label (`*`) -/
def bindStar (fs : Fields) (acc : Env) : MRes :=
  match fs with
  | [] => .matched acc
  | (some l, v) :: rest =>
    match bindVar l v acc with
    | .matched acc' => bindStar rest acc'
    | r => r
  | (none, _) :: rest => bindStar rest acc

mutual
  def matchPat (env : Env) : Pat → Val → Env → MRes
    | .bind x, v, acc => bindVar x v acc
    | .wild, _, acc => .matched acc
    | .lit l, v, acc => eqTest (litVal l) v acc
    | .pin x, v, acc =>
      match lookup env x with
      | some (some w) => eqTest w v acc
      | some none => .unspec "pin of a variable bound by a failed match"
      | none => .unspec "pin of an unbound variable"
    | .tup n pfs, v, acc =>
      match v with
      | .tup m fs => if n = m then matchFields env pfs fs acc else .failed
      | _ => .failed
    | .part n pfs, v, acc =>
      match v with
      | .tup m fs =>
        if (match n with | none => true | some _ => decide (n = m)) then matchPart env pfs fs acc
        else .failed
      | _ => .failed
    | .star n, v, acc =>
      match v with
      | .tup m fs =>
        if (match n with | none => true | some _ => decide (n = m)) then bindStar fs acc else .failed
      | _ => .failed
    | .type t, v, acc => if hasType t v then .matched acc else .failed
    | .alt ps, v, acc => matchAlt env ps v acc
    | .as t x, v, acc => if hasType t v then bindVar x v acc else .failed
  /-- exact tuple pattern: same arity, same label (or none) at each position -/
  def matchFields (env : Env) : List (Option String × Pat) → Fields → Env → MRes
    | [], [], acc => .matched acc
    | (l, p) :: ps, (m, v) :: fs, acc =>
      if l = m then
        match matchPat env p v acc with
        | .matched acc' => matchFields env ps fs acc'
        | r => r
      else .failed
    | _, _, _ => .failed
  /-- partial pattern: each listed label must be present -/
  def matchPart (env : Env) : List (String × Option Pat) → Fields → Env → MRes
    | [], _, acc => .matched acc
    | (l, op) :: ps, fs, acc =>
      match fieldByLabel fs l with
      | none => .failed
      | some v =>
        match (match op with
               | none => bindVar l v acc
               | some p => matchPat env p v acc) with
        | .matched acc' => matchPart env ps fs acc'
        | r => r
  /-- alternation: "matches if any alternative matches" (the first that does) -/
  def matchAlt (env : Env) : List Pat → Val → Env → MRes
    | [], _, _ => .failed
    | p :: ps, v, acc =>
      match matchPat env p v acc with
      | .failed => matchAlt env ps v acc
      | r => r
end

mutual
  /-- the variables a pattern binds -/
  def patVars : Pat → List String
    | .bind x => [x]
    | .tup _ pfs => patVarsFields pfs
    | .part _ pfs => patVarsPart pfs
    | .alt ps => patVarsAlt ps
    | .as _ x => [x]
    | _ => []
  def patVarsFields : List (Option String × Pat) → List String
    | [] => []
    | (_, p) :: ps => patVars p ++ patVarsFields ps
  def patVarsPart : List (String × Option Pat) → List String
    | [] => []
    | (l, none) :: ps => l :: patVarsPart ps
    | (_, some p) :: ps => patVars p ++ patVarsPart ps
  /-- "Every alternative must bind the same set of variables": the first alternative's. -/
  def patVarsAlt : List Pat → List String
    | [] => []
    | p :: _ => patVars p
end

/-- Is `=p` a bare binder or placeholder ("always succeeds — it binds any value, including `[]`")? -/
def Pat.irrefutable : Pat → Bool
  | .bind _ => true
  | .wild => true
  | _ => false

/-- `*` binds names that depend on the value; on failure nothing is known about them. -/
def Pat.hasStar : Pat → Bool
  | .star _ => true
  | _ => false

/-- A match "evaluates to `Ok` if it succeeds and nil (`[]`) if it fails — the matched value does not
flow onward, but any variables the pattern binds are in scope afterwards." -/
def doMatch (env : Env) (p : Pat) (v : Val) : Res (Val × Env) :=
  match matchPat env p v [] with
  | .matched bs => .ok (Val.okv, bs ++ env)
  | .failed => .ok (Val.nil, (patVars p).map (fun x => (x, none)) ++ env)
  | .unspec why => .unspec why

/-! ### Builtins (by name; the handful generated programs use) -/

def int2 (arg : Val) : Option (Int × Int) :=
  match arg with
  | .tup _ [(_, .int a), (_, .int b)] => some (a, b)
  | _ => none

def evalBuiltin (name : String) (arg : Val) : Res Val :=
  let ill : Res Val := .unspec "ill-typed builtin argument"
  match name with
  | "integer_add" => match int2 arg with | some (a, b) => .ok (.int (a + b)) | none => ill
  | "integer_subtract" => match int2 arg with | some (a, b) => .ok (.int (a - b)) | none => ill
  | "integer_multiply" => match int2 arg with | some (a, b) => .ok (.int (a * b)) | none => ill
  | "integer_divide" =>
    match int2 arg with
    | some (a, b) => if b = 0 then .err "InvalidArgument" else .ok (.int (Int.tdiv a b))
    | none => ill
  | "integer_modulo" =>
    match int2 arg with
    | some (a, b) => if b = 0 then .err "InvalidArgument" else .ok (.int (Int.tmod a b))
    | none => ill
  | "integer_compare" =>
    match int2 arg with
    | some (a, b) => .ok (.int (if a < b then -1 else if a > b then 1 else 0))
    | none => ill
  | "integer_abs" => match arg with | .int a => .ok (.int (Int.ofNat a.natAbs)) | _ => ill
  | "binary_length" => match arg with | .bin bs => .ok (.int (Int.ofNat bs.length)) | _ => ill
  | "binary_concat" =>
    match arg with
    | .tup _ [(_, .bin a), (_, .bin b)] => .ok (.bin (a ++ b))
    | _ => ill
  | _ => .unspec "builtin outside the fragment"

/-! ### Spreads (spec §Spread operator): later fields override earlier ones with the same label, in
place; new labels and unlabelled fields append. -/

def setOrAppend (acc : Fields) (l : Option String) (v : Val) : Fields :=
  match l with
  | none => acc ++ [(none, v)]
  | some lab =>
    if acc.any (fun f => f.1 = some lab) then
      acc.map (fun f => if f.1 = some lab then (f.1, v) else f)
    else acc ++ [(some lab, v)]

def spreadInto (acc : Fields) (src : Fields) : Fields :=
  src.foldl (fun a f => setOrAppend a f.1 f.2) acc

/-! ### The evaluator -/

namespace Res
/-- sequencing: everything but `ok` (fuel exhaustion, errors, unspecified) propagates -/
def bind {α β : Type} (r : Res α) (f : α → Res β) : Res β :=
  match r with
  | .ok a => f a
  | .fuelOut => .fuelOut
  | .err c => .err c
  | .unspec y => .unspec y
end Res

/-- the name a tuple term gets: `Name[…]`, `[…]`, or inherited from the first spread's source -/
def tupleName (name : TupName) (inh : Option (Option String)) : Option String :=
  match name with
  | .anon => none
  | .named s => some s
  | .inherit => (match inh with | some n => n | none => none)

mutual

  /-- Function application. "Functions always have a single parameter"; the parameter is reachable as
  `$`; "`#'int` is equivalent to `#'int { $ }`". The body is a block whose parameter is the argument. -/
  def apply : Nat → Val → Val → Res Val
    | 0, _, _ => .fuelOut
    | fuel + 1, f, arg =>
      match f with
      | .clo _ none _ => .ok arg
      | .clo _ (some body) cenv => evalExpr fuel (("$", some arg) :: ("^", some f) :: cenv) arg body
      | .builtin name => evalBuiltin name arg
      | _ => .unspec "ill-typed call: not callable"

  /-- A callable term receiving the flowing value: "Callable terms are called with the value — unless
  the callable is nilary (its parameter is nil), in which case it ignores the flowing value and is
  called with nil". -/
  def callFlow : Nat → Val → Val → Res Val
    | 0, _, _ => .fuelOut
    | fuel + 1, f, flow =>
      match f with
      | .clo true _ _ => apply fuel f Val.nil
      | _ => apply fuel f flow

  /-- Blocks (spec §Blocks, §Branches, §Condition-consequence). "each branch starts from the block's
  parameter"; "If a branch's sequence evaluates to nil, execution jumps to the next branch, or, if
  there are no more branches, the block evaluates to nil"; "If the condition doesn't evaluate to nil,
  then the consequence will be executed, and then execution will jump to the end of the block, taking
  the value of the consequence … if a consequence fails, execution jumps to the end rather than to
  the next branch". The consequence is a new sequence, so it too starts from the block's parameter;
  it sees the condition's bindings. Bindings of a branch are local to it. -/
  def evalExpr : Nat → Env → Val → Expr → Res Val
    | 0, _, _, _ => .fuelOut
    | _ + 1, _, _, .mk [] => .ok Val.nil
    | fuel + 1, env, flow, .mk (.mk cond cons :: rest) =>
      (evalSeq fuel env flow cond).bind fun (v, env') =>
        if v.isNil then evalExpr fuel env flow (.mk rest)
        else
          match cons with
          | none => .ok v
          | some cs => (evalSeq fuel env' flow cs).bind fun (w, _) => .ok w

  /-- Sequences (spec §Expressions). "A sequence threads and is fallible: each step starts from the
  previous step's result, and if a step evaluates to nil the rest of the sequence short-circuits and
  the whole sequence evaluates to nil. Variable bindings persist across steps." -/
  def evalSeq : Nat → Env → Val → List Chain → Res (Val × Env)
    | 0, _, _, _ => .fuelOut
    | _ + 1, env, flow, [] => .ok (flow, env)
    | fuel + 1, env, flow, c :: cs =>
      (evalChain fuel env flow c).bind fun (v, env') =>
        match cs with
        | [] => .ok (v, env')
        | _ :: _ => if v.isNil then .ok (Val.nil, env') else evalSeq fuel env' v cs

  /-- Chains (spec §Chains). "The first term starts from the chain's input; each subsequent term
  transforms the flowing value. A chain is an infallible pipe: nil flows through it like any other
  value." With a binding pattern (`p = …`) the chain's value is matched and the verdict is its
  result. -/
  def evalChain : Nat → Env → Val → Chain → Res (Val × Env)
    | 0, _, _, _ => .fuelOut
    | fuel + 1, env, flow, .mk pat terms =>
      (evalTerms fuel env flow terms).bind fun (v, env') =>
        match pat with
        | none => .ok (v, env')
        | some p => doMatch env' p v

  def evalTerms : Nat → Env → Val → List Term → Res (Val × Env)
    | 0, _, _, _ => .fuelOut
    | _ + 1, env, flow, [] => .ok (flow, env)
    | fuel + 1, env, flow, t :: ts =>
      (evalTerm fuel env flow t).bind fun (v, env') => evalTerms fuel env' v ts

  /-- One term receiving the flowing value (spec §Chains, "When a term receives a value"). -/
  def evalTerm : Nat → Env → Val → Term → Res (Val × Env)
    | 0, _, _, _ => .fuelOut
    -- "Literals and tuples replace the value (discarding it)"
    | _ + 1, env, _, .lit l => .ok (litVal l, env)
    -- "The flowing value is also passed into the fields of a tuple that is constructed in the chain"
    | fuel + 1, env, flow, .tuple name fields =>
      (evalFields fuel env flow fields [] none).bind fun (fs, inh, env') =>
        .ok (.tup (tupleName name inh) fs, env')
    -- "`e =x` … is an in-chain match"
    | _ + 1, env, flow, .mtch p => doMatch env p flow
    -- "Blocks create new scopes. Variables assigned within a block shadow outer variables but don't
    --  affect them" — the environment after the block is the one before it.
    | fuel + 1, env, flow, .block e => (evalExpr fuel env flow e).bind fun v => .ok (v, env)
    -- a function literal is a value (closure over the visible bindings); it is not called
    | _ + 1, env, _, .fn nilary body => .ok (.clo nilary body env, env)
    -- "Variables depend on their type: callable variables are called, others replace the value";
    -- `~` is the flowing value itself (never called: "no bare ripple application")
    | fuel + 1, env, flow, .access s accs =>
      match s with
      | .ripple => (project flow accs).bind fun v => .ok (v, env)
      | .builtin name => (callFlow fuel (.builtin name) flow).bind fun v => .ok (v, env)
      | .var x =>
        (readVar env x).bind fun b => (project b accs).bind fun v =>
          if v.isCallable then (callFlow fuel v flow).bind fun w => .ok (w, env) else .ok (v, env)
      | .param =>
        (readVar env "$").bind fun b => (project b accs).bind fun v =>
          if v.isCallable then (callFlow fuel v flow).bind fun w => .ok (w, env) else .ok (v, env)
    -- "`&f` references `f` without calling it"
    | _ + 1, env, _, .ref s accs =>
      match s with
      | .ripple => .unspec "cannot reference ripple"
      | .builtin name => .ok (.builtin name, env)
      | .var x => (readVar env x).bind fun b => (project b accs).bind fun v => .ok (v, env)
      | .param => (readVar env "$").bind fun b => (project b accs).bind fun v => .ok (v, env)
    -- "Use `^` for tail-recursive calls. Like any call it is argument-first"; `^f` names another
    -- function. (The driver only accepts tail calls in tail position, where a call's value *is* the
    -- function's value.)
    | fuel + 1, env, flow, .tail none =>
      (readVar env "^").bind fun f => (callFlow fuel f flow).bind fun w => .ok (w, env)
    | fuel + 1, env, flow, .tail (some (x, accs)) =>
      (readVar env x).bind fun b => (project b accs).bind fun f =>
        (callFlow fuel f flow).bind fun w => .ok (w, env)
    -- "`^~` … hands the flowing value (which must be a nilary function) a nil argument"
    | fuel + 1, env, flow, .tailRipple =>
      match flow with
      | .clo true _ _ => (apply fuel flow Val.nil).bind fun w => .ok (w, env)
      | _ => .unspec "ill-typed ^~: not a nilary function"

  /-- Tuple fields: "Each field/argument receives its own copy" of the flowing value; bindings made
  in a field stay visible (a tuple is not a scope). `inh` is the name of the first spread's source. -/
  def evalFields : Nat → Env → Val → List Field → Fields → Option (Option String)
      → Res (Fields × Option (Option String) × Env)
    | 0, _, _, _, _, _ => .fuelOut
    | _ + 1, env, _, [], acc, inh => .ok (acc, inh, env)
    | fuel + 1, env, flow, .val label c :: rest, acc, inh =>
      (evalChain fuel env flow c).bind fun (v, env') =>
        evalFields fuel env' flow rest (setOrAppend acc label v) inh
    | fuel + 1, env, flow, .spread src :: rest, acc, inh =>
      (match src with
       | none => Res.ok flow
       | some x => readVar env x).bind fun sv =>
        match sv with
        | .tup n fs =>
          evalFields fuel env flow rest (spreadInto acc fs) (match inh with | none => some n | some _ => inh)
        | _ => .unspec "ill-typed spread: not a tuple"
end

/-- A whole program "is a single sequence"; it starts from nil and has no `$`. -/
def evalProgram (fuel : Nat) (steps : List Chain) : Res Val :=
  (evalSeq fuel [] Val.nil steps).bind fun (v, _) => .ok v

end QM.RefSem
