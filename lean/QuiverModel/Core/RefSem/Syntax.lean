/-
M-RefSem, syntax — the documented core language of `docs/spec.md` (sequential fragment).

The grammar follows the spec's own vocabulary: a *program* / *block body* is an expression made of
`|`-separated **branches**; a branch is a *condition* **sequence** with an optional `=>` *consequence*
sequence; a sequence is a `,`/newline-separated list of **chains**; a chain is an optional binding
pattern (`p = …`) and a whitespace-separated list of **terms**. Import-free (core Lean only).

Out of scope (the driver answers `unsupported`): processes / select / spawn, imports, resources,
string interpolation holes (plain strings are the tuple `Str[<bytes>]`, as the spec defines them),
type parameters, function-type patterns.
-/
namespace QM.RefSem

/-- Integer and binary literals. -/
inductive Lit where
  | int (z : Int)
  | bin (bs : List UInt8)
  deriving Repr, Inhabited

/-- First-order types, as far as a *pattern* can test them at run time (`='int`, `=Point['int, 'bin]`,
`=(x: 'int)`, `=('int | 'bin)`). Function / process types are not testable by value and are not
part of the fragment. -/
inductive Ty where
  | int
  | bin
  /-- `Name['t, l: 'u]` / `['t]` : exact tuple type (name, arity and labels fixed) -/
  | tup (name : Option String) (fields : List (Option String × Ty))
  /-- `Name(l: 't)` / `(l: 't)` : partial type (name if given; the listed labels present) -/
  | part (name : Option String) (fields : List (String × Ty))
  | union (alts : List Ty)
  deriving Repr, Inhabited

/-- Patterns (spec §Pattern matching). -/
inductive Pat where
  /-- `x` : binder; a *repeated* binder inside one pattern is an equality test -/
  | bind (x : String)
  /-- `_` -/
  | wild
  /-- `5`, `0xff` (and `"text"` as `Str[<bytes>]` through `tup`) -/
  | lit (l : Lit)
  /-- `&x` : equal to the value currently bound to `x` -/
  | pin (x : String)
  /-- `Name[p, l: q]` / `[p, q]` : exact tuple pattern -/
  | tup (name : Option String) (fields : List (Option String × Pat))
  /-- `Name(l, m: q)` / `(l)` : partial pattern; `none` binds the field under its own label -/
  | part (name : Option String) (fields : List (String × Option Pat))
  /-- `*` / `Name*` : bind every labelled field under its label -/
  | star (name : Option String)
  /-- `'int`, `Point['int]`, … : type test -/
  | type (t : Ty)
  /-- `(p | q)` -/
  | alt (alts : List Pat)
  /-- `(T)x` : type test, then bind the whole value -/
  | as (t : Ty) (x : String)
  deriving Repr, Inhabited

/-- `.x` / `.0` -/
inductive Acc where
  | label (l : String)
  | index (i : Nat)
  deriving Repr, Inhabited, DecidableEq

/-- What an access term reads. -/
inductive Src where
  /-- `x` -/
  | var (x : String)
  /-- `$` : the enclosing function's parameter -/
  | param
  /-- `~` (also the bare postfix form `.x`) : the flowing value -/
  | ripple
  /-- `__integer_add__` -/
  | builtin (name : String)
  deriving Repr, Inhabited

mutual
  /-- A term of a chain: it receives the flowing value and produces the next one. -/
  inductive Term where
    | lit (l : Lit)
    /-- `Name[l: chain, chain, ...x]` -/
    | tuple (name : TupName) (fields : List Field)
    /-- `=p` -/
    | mtch (p : Pat)
    /-- `{ … }` -/
    | block (e : Expr)
    /-- `#T { … }`; `nilary` = the parameter type is `[]`; `body = none` is the identity `#T` -/
    | fn (nilary : Bool) (body : Option Expr)
    /-- `x`, `x.a.0`, `$`, `$0`, `~`, `~.x`, `.x`, `__b__` : read, then call if callable -/
    | access (s : Src) (accs : List Acc)
    /-- `&x`, `&x.a`, `&$`, `&__b__` : read without calling -/
    | ref (s : Src) (accs : List Acc)
    /-- `^` (`none`), `^f`, `^f.a` : tail call with the flowing value as argument -/
    | tail (f : Option (String × List Acc))
    /-- `^~` : tail call of the flowing (nilary) function with nil -/
    | tailRipple

  inductive TupName where
    | anon
    | named (n : String)
    /-- `~[..., …]` / `a[..., …]` : inherit the name of the first spread's source -/
    | inherit

  inductive Field where
    /-- `l: chain` / `chain` -/
    | val (label : Option String) (c : Chain)
    /-- `...` (`none`, the flowing value) / `...x` -/
    | spread (x : Option String)

  /-- `p = t₁ t₂ …` / `t₁ t₂ …` -/
  inductive Chain where
    | mk (pat : Option Pat) (terms : List Term)

  /-- `cond` / `cond => cons` where both are sequences (lists of chains) -/
  inductive Branch where
    | mk (cond : List Chain) (cons : Option (List Chain))

  /-- `b₁ | b₂ | …` -/
  inductive Expr where
    | mk (branches : List Branch)
end

instance : Inhabited Expr := ⟨.mk []⟩
instance : Inhabited Chain := ⟨.mk none []⟩
instance : Inhabited Term := ⟨.tailRipple⟩
instance : Inhabited Branch := ⟨.mk [] none⟩
instance : Inhabited Field := ⟨.spread none⟩

abbrev Seq := List Chain

end QM.RefSem
