import QuiverModel.Core.Prelude
import QuiverModel.Core.RefSem.Eval
/-
M-RefSem, concrete exchange syntax: S-expressions ⇄ `Syntax`, and the canonical value printer
(the same canonical form as `qverif::canon::canon`, closures opaque). Driver glue (trusted), shared
by the C02 driver and whoever reuses the reference evaluator.

  program ::= (prog chain*)
  expr    ::= (e branch*)
  branch  ::= (br seq) | (br seq seq)
  seq     ::= (s chain+)
  chain   ::= (c term*) | (cp pat term*)
  term    ::= (i z) | (b hex?) | (t name|_|^ field*) | (m pat) | (blk branch*) | (fn 0|1 expr?)
            | (v x acc*) | ($ acc*) | (~ acc*) | (bi name)
            | (&v x acc*) | (&$ acc*) | (&bi name)
            | (tc) | (tcf x acc*) | (tcr)
  field   ::= (f label|_ chain) | (sp) | (sp x)
  acc     ::= (l label) | (n index)
  pat     ::= (pb x) | (pw) | (pi z) | (pbin hex?) | (pp x) | (pt name|_ (label|_ pat)*)
            | (pa name|_ (label pat?)*) | (ps name|_) | (pty ty) | (por pat+) | (pas ty x)
  ty      ::= int | bin | (tt name|_ (label|_ ty)*) | (tp name|_ (label ty)*) | (tu ty+)
-/
namespace QM.RefSem
open QM

def optName (s : String) : Option String := if s = "_" then none else some s

def parseLitBin : List Sx → Option (List UInt8)
  | [] => some []
  | [.atom h] => parseHex h
  | _ => none

def parseAcc : Sx → Option Acc
  | .list [.atom "l", .atom l] => some (.label l)
  | .list [.atom "n", n] => n.asNat.map Acc.index
  | _ => none

partial def parseTy : Sx → Option Ty
  | .atom "int" => some .int
  | .atom "bin" => some .bin
  | .list (.atom "tt" :: .atom n :: fs) =>
    (fs.mapM (fun (f : Sx) => match f with
      | .list [.atom l, t] => (parseTy t).map (fun t' => (optName l, t'))
      | _ => none)).map (Ty.tup (optName n))
  | .list (.atom "tp" :: .atom n :: fs) =>
    (fs.mapM (fun (f : Sx) => match f with
      | .list [.atom l, t] => (parseTy t).map (fun t' => (l, t'))
      | _ => none)).map (Ty.part (optName n))
  | .list (.atom "tu" :: ts) => (ts.mapM parseTy).map Ty.union
  | _ => none

partial def parsePat : Sx → Option Pat
  | .list [.atom "pb", .atom x] => some (.bind x)
  | .list [.atom "pw"] => some .wild
  | .list [.atom "pi", z] => z.asInt.map (fun z => .lit (.int z))
  | .list (.atom "pbin" :: r) => (parseLitBin r).map (fun b => .lit (.bin b))
  | .list [.atom "pp", .atom x] => some (.pin x)
  | .list (.atom "pt" :: .atom n :: fs) =>
    (fs.mapM (fun (f : Sx) => match f with
      | .list [.atom l, p] => (parsePat p).map (fun p' => (optName l, p'))
      | _ => none)).map (Pat.tup (optName n))
  | .list (.atom "pa" :: .atom n :: fs) =>
    (fs.mapM (fun (f : Sx) => match f with
      | .list [.atom l] => some (l, none)
      | .list [.atom l, p] => (parsePat p).map (fun p' => (l, some p'))
      | _ => none)).map (Pat.part (optName n))
  | .list [.atom "ps", .atom n] => some (.star (optName n))
  | .list [.atom "pty", t] => (parseTy t).map Pat.type
  | .list (.atom "por" :: ps) => (ps.mapM parsePat).map Pat.alt
  | .list [.atom "pas", t, .atom x] => (parseTy t).map (fun t' => .as t' x)
  | _ => none

mutual
  partial def parseTerm : Sx → Option Term
    | .list [.atom "i", z] => z.asInt.map (fun z => .lit (.int z))
    | .list (.atom "b" :: r) => (parseLitBin r).map (fun b => .lit (.bin b))
    | .list (.atom "t" :: .atom n :: fs) =>
      let name : TupName := if n = "_" then .anon else if n = "^" then .inherit else .named n
      (fs.mapM parseField).map (Term.tuple name)
    | .list [.atom "m", p] => (parsePat p).map Term.mtch
    | .list (.atom "blk" :: bs) => (bs.mapM parseBranch).map (fun bs => .block (.mk bs))
    | .list [.atom "fn", .atom n] =>
      if n = "0" then some (.fn false none) else if n = "1" then some (.fn true none) else none
    | .list [.atom "fn", .atom n, e] =>
      match parseExpr e with
      | some e' =>
        if n = "0" then some (.fn false (some e')) else if n = "1" then some (.fn true (some e')) else none
      | none => none
    | .list (.atom "v" :: .atom x :: accs) => (accs.mapM parseAcc).map (Term.access (.var x))
    | .list (.atom "$" :: accs) => (accs.mapM parseAcc).map (Term.access .param)
    | .list (.atom "~" :: accs) => (accs.mapM parseAcc).map (Term.access .ripple)
    | .list [.atom "bi", .atom name] => some (.access (.builtin name) [])
    | .list (.atom "&v" :: .atom x :: accs) => (accs.mapM parseAcc).map (Term.ref (.var x))
    | .list (.atom "&$" :: accs) => (accs.mapM parseAcc).map (Term.ref .param)
    | .list [.atom "&bi", .atom name] => some (.ref (.builtin name) [])
    | .list [.atom "tc"] => some (.tail none)
    | .list (.atom "tcf" :: .atom x :: accs) => (accs.mapM parseAcc).map (fun a => .tail (some (x, a)))
    | .list [.atom "tcr"] => some .tailRipple
    | _ => none
  partial def parseField : Sx → Option Field
    | .list [.atom "f", .atom l, c] => (parseChain c).map (Field.val (optName l))
    | .list [.atom "sp"] => some (.spread none)
    | .list [.atom "sp", .atom x] => some (.spread (some x))
    | _ => none
  partial def parseChain : Sx → Option Chain
    | .list (.atom "c" :: ts) => (ts.mapM parseTerm).map (Chain.mk none)
    | .list (.atom "cp" :: p :: ts) =>
      match parsePat p with
      | some p' => (ts.mapM parseTerm).map (Chain.mk (some p'))
      | none => none
    | _ => none
  partial def parseSeq : Sx → Option (List Chain)
    | .list (.atom "s" :: cs) => cs.mapM parseChain
    | _ => none
  partial def parseBranch : Sx → Option Branch
    | .list [.atom "br", c] => (parseSeq c).map (fun c => .mk c none)
    | .list [.atom "br", c, k] =>
      match parseSeq c, parseSeq k with
      | some c', some k' => some (.mk c' (some k'))
      | _, _ => none
    | _ => none
  partial def parseExpr : Sx → Option Expr
    | .list (.atom "e" :: bs) => (bs.mapM parseBranch).map Expr.mk
    | _ => none
end

def parseProgram : Sx → Option (List Chain)
  | .list (.atom "prog" :: cs) => cs.mapM parseChain
  | _ => none

/-! ### Tail-position check: `^`, `^f`, `^~` are *tail* calls; the fragment admits them only where
the call's value is the enclosing function's value. -/

mutual
  /-- no tail call anywhere inside -/
  partial def noTailTerm : Term → Bool
    | .tail _ => false
    | .tailRipple => false
    | .tuple _ fs => fs.all (fun f => match f with | .val _ c => noTailChain c | .spread _ => true)
    | .block e => noTailExpr e
    | .fn _ (some body) => tailOkExpr body     -- a function body is a fresh tail context
    | _ => true
  partial def noTailChain : Chain → Bool
    | .mk _ ts => ts.all noTailTerm
  partial def noTailSeq (cs : List Chain) : Bool := cs.all noTailChain
  partial def noTailExpr : Expr → Bool
    | .mk bs => bs.all (fun b => match b with
      | .mk c k => noTailSeq c && (match k with | none => true | some k => noTailSeq k))
  /-- tail calls only in tail position of this expression (the body of a function) -/
  partial def tailOkExpr : Expr → Bool
    | .mk bs => tailOkBranches bs
  partial def tailOkBranches : List Branch → Bool
    | [] => true
    | [.mk c none] => tailOkSeq c
    | .mk c none :: rest => noTailSeq c && tailOkBranches rest
    | .mk c (some k) :: rest => noTailSeq c && tailOkSeq k && tailOkBranches rest
  partial def tailOkSeq : List Chain → Bool
    | [] => true
    | [c] => tailOkChain c
    | c :: rest => noTailChain c && tailOkSeq rest
  partial def tailOkChain : Chain → Bool
    | .mk (some _) ts => ts.all noTailTerm
    | .mk none ts => tailOkTerms ts
  partial def tailOkTerms : List Term → Bool
    | [] => true
    | [t] => (match t with
      | .tail _ => true
      | .tailRipple => true
      | .block e => tailOkExpr e
      | t => noTailTerm t)
    | t :: rest => noTailTerm t && tailOkTerms rest
end

/-- top level: no tail calls outside function bodies; inside, only in tail position -/
def programTailOk (steps : List Chain) : Bool := noTailSeq steps

/-! ### Canonical printing (as `qverif::canon::canon`; function values print as `f`) -/

partial def canon : Val → String
  | .int z => "i" ++ toString z
  | .bin bs => "b" ++ toHex bs
  | .tup n fs =>
    "t(" ++ (n.getD "_") ++ ";" ++
      ",".intercalate (fs.map (fun (l, v) => (l.getD "_") ++ "=" ++ canon v)) ++ ")"
  | .clo .. => "f"
  | .builtin _ => "f"

def renderRes : Res Val → String
  | .ok v => "ok " ++ canon v
  | .fuelOut => "fuel-out"
  | .err c => "err " ++ c
  | .unspec why => "unspecified " ++ why.replace " " "-"

end QM.RefSem
