import QuiverModel.Core.RefSem.Compile2
/-
M-RefSem ↔ M-VM, fragment compiler with FUNCTIONS AND CALLS (`compile3`), C02 stretch goal part 6:
the fragment of Compile2.lean (value flow, locals, bindings, simple matches, blocks) + function
literals with captures and the application of callable variables.

  * a function literal `#T { body }` at its use site (compile_function): `Pop` (it replaces the flowing
    value), `Load(slot c)` for every captured variable in capture order, `Function(fi)` — the VM pops the
    captured values into the closure;
  * the function's own code is its body compiled as a BLOCK in a fresh frame whose first locals are the
    captures: `Store` (the argument → slot `#captures`), the branches, `Reset(#captures)` — exactly
    `compileT caps (.block body)` of Compile2, after which the frame is exhausted and the VM returns;
  * a callable variable `x` in a chain (compile_access): `Load(slot x)`, `Call` — the flowing value is the
    argument; a NILARY one ignores it: `Load(slot x), Rotate(2), Pop, Tuple(NIL), Rotate(2), Call`.

The meaning functions are those of Compile2 with one more parameter `cs`, the meaning of applying a
function value to an argument; `callSem` ties the knot by fuel over the program's function table `Φ`.
-/
namespace QM.RefSem.C3
open QM.VM
open QM.RefSem.C1 (Sub Pat1 slot compilePat patBinds evalPat wfPat wfProg)
open QM.RefSem.C2 (resetIf)

mutual
  inductive T3 where
    | int (z : Int) (cidx : Nat)
    | ripple
    | tup (id : Nat) (fields : Fs3)
    /-- read the variable `x` (it replaces the flowing value) -/
    | var (x : String)
    /-- `=p` -/
    | mtch (p : Pat1)
    /-- `{ | cond₁ => cons₁ | cond₂ | … }` -/
    | block (bs : Brs3)
    /-- a function literal `#T { … }`: function `fi` of the program with the captured variables `caps`
    (in capture order); it replaces the flowing value -/
    | fnlit (fi : Nat) (caps : List String)
    /-- the callable variable `x` applied to the flowing value -/
    | call (x : String)
    /-- the NILARY callable variable `x` in a chain: it ignores the flowing value and is called with nil -/
    | callNil (x : String)
  inductive Ch3 where
    | nil
    | cons (t : T3) (rest : Ch3)
  inductive Fs3 where
    | nil
    | cons (c : Ch3) (rest : Fs3)
  /-- `c₁, c₂, …` -/
  inductive Sq3 where
    | last (c : Ch3)
    | cons (c : Ch3) (rest : Sq3)
  inductive OSq3 where
    | none
    | some (s : Sq3)
  /-- the branches of a block: condition, optional consequence -/
  inductive Brs3 where
    | nil
    | cons (cond : Sq3) (cons : OSq3) (rest : Brs3)
end

def Brs3.isNil : Brs3 → Bool
  | .nil => true
  | .cons _ _ _ => false

def Fs3.length : Fs3 → Nat
  | .nil => 0
  | .cons _ r => r.length + 1

/-- `Load(slot)` of each captured variable, in capture order -/
def loadsOf (Γ : List String) : List String → List Instr
  | [] => []
  | c :: r => .load ((slot Γ c).getD 0) :: loadsOf Γ r

mutual
  /-- code and the compile-time locals afterwards -/
  def compileT (Γ : List String) : T3 → List Instr × List String
    | .int _ i => ([.pop, .constant i], Γ)
    | .ripple => ([], Γ)
    | .tup id fs =>
      let r := compileFs Γ fs 0
      (r.1 ++ [.tuple id, .rotate 2, .pop], r.2)
    | .var x => ([.pop, .load ((slot Γ x).getD 0)], Γ)
    | .mtch p => (compilePat p, Γ ++ patBinds p)
    -- compile_scoped_expression: the parameter goes to slot `n = local_count`; branches; the parameter
    -- clear `Reset(n)`; then, if any branch needs one, a jump over the cleanup blocks and the cleanup
    -- blocks. Afterwards `local_count` is what it was.
    | .block bs =>
      let r := compileBrs (Γ ++ [""]) Γ.length bs 0 true
      ([.store] ++ (r.1 ++ ([.reset Γ.length] ++
        ((if r.2 = [] then [] else [.jump ((r.2.length : Nat) : Int)]) ++ r.2))), Γ)
    -- compile_function (use site): drop the flowing value, push the captured values, `Function(fi)`
    | .fnlit fi caps => ([.pop] ++ (loadsOf Γ caps ++ [.function fi]), Γ)
    -- compile_access of a callable variable: the flowing value stays as the argument
    | .call x => ([.load ((slot Γ x).getD 0), .call], Γ)
    -- a nilary callee: the flowing value is replaced by nil under the function
    | .callNil x => ([.load ((slot Γ x).getD 0), .rotate 2, .pop, .tuple 0, .rotate 2, .call], Γ)
  def compileCh (Γ : List String) : Ch3 → List Instr × List String
    | .nil => ([], Γ)
    | .cons t r =>
      let a := compileT Γ t
      let b := compileCh a.2 r
      (a.1 ++ b.1, b.2)
  def compileFs (Γ : List String) : Fs3 → Nat → List Instr × List String
    | .nil, _ => ([], Γ)
    | .cons c r, k =>
      let a := compileCh Γ c
      let b := compileFs a.2 r (k + 1)
      ([.pick k] ++ a.1 ++ b.1, b.2)
  def compileSq (Γ : List String) : Sq3 → List Instr × List String
    | .last c => compileCh Γ c
    | .cons c r =>
      let a := compileCh Γ c
      let b := compileSq a.2 r
      (a.1 ++ ([.duplicate, .not, .jumpIf (b.1.length : Int)] ++ b.1), b.2)
  /-- The branches from a given one on: (main code, cleanup blocks). `Γp` = the slot names with the
  block parameter (slot `n`) as last; `k` = number of cleanup blocks of earlier branches; `first` = no
  earlier branch (a later branch starts by popping the failed condition's nil). The main code of the
  branches ends exactly at the parameter clear (position `PC`); the cleanup blocks start at
  `PC + 2` (after `Reset(n)` and the jump over them), two instructions each.
    bodiless branch:  [Pop] Load(n) cond [Reset(n+1)] [Duplicate JumpIf(→PC)]
    with consequence: [Pop] Load(n) cond Duplicate Not JumpIf(→T) Pop Load(n) cons [Reset(n+1)] [Jump(→PC)]
       T = the next branch (the parameter clear for the last one) — via this branch's cleanup block
       `Reset(n+1), Jump(→ back to the next branch / PC)` if the condition has bindings -/
  def compileBrs (Γp : List String) (n : Nat) : Brs3 → Nat → Bool → List Instr × List Instr
    | .nil, _, _ => ([], [])
    | .cons cond .none rest, k, first =>
      let c := compileSq Γp cond
      let r := compileBrs Γp n rest k false
      ((if first then [] else [.pop]) ++ ([.load n] ++ (c.1 ++ (resetIf c.2.length n ++
        ((if rest.isNil then [] else [.duplicate, .jumpIf (r.1.length : Int)]) ++ r.1)))), r.2)
    | .cons cond (.some cons) rest, k, first =>
      let c := compileSq Γp cond
      let needs : Bool := decide (c.2.length > n + 1)
      let r := compileBrs Γp n rest (if needs then k + 1 else k) false
      let cc := compileSq c.2 cons
      let ej : List Instr := if rest.isNil then [] else [.jump (r.1.length : Int)]
      -- length of `Pop, Load(n), cons, [Reset(n+1)], [Jump]`
      let tailLen : Nat := 2 + cc.1.length + (resetIf cc.2.length n).length + ej.length
      let off : Nat := if needs then tailLen + r.1.length + 2 + 2 * k else tailLen
      ((if first then [] else [.pop]) ++ ([.load n] ++ (c.1 ++ ([.duplicate, .not, .jumpIf (off : Int)] ++
        ([.pop, .load n] ++ (cc.1 ++ (resetIf cc.2.length n ++ (ej ++ r.1))))))),
       (if needs then [.reset (n + 1), .jump (-((r.1.length + 2 * k + 4 : Nat) : Int))] else []) ++ r.2)
end

/-! ### Meaning -/

/-- the captured values (`none`: a captured name has no slot) -/
def capVals (Γ : List String) (L : List Val) : List String → Option (List Val)
  | [] => some []
  | c :: r =>
    match (slot Γ c).bind (fun i => L[i]?), capVals Γ L r with
    | some v, some vs => some (v :: vs)
    | _, _ => none

/- The meaning functions are parametric in `cs`, the meaning of APPLYING a function value to an argument
(`cs fv arg = some res`); the knot is tied by fuel in `callSem` below. -/
mutual
  def evalT (cs : Val → Val → Option Val) (Γ : List String) (L : List Val) (flow : Val) : T3 → Option (Val × List Val)
    | .int z _ => some (.int z, L)
    | .ripple => some (flow, L)
    | .tup id fs => (evalFs cs Γ L flow fs).map fun r => (.tup id (ValList.ofList r.1), r.2)
    | .var x => (slot Γ x).bind fun i => (L[i]?).map fun v => (v, L)
    | .mtch p => (evalPat flow p).map fun r => (r.1, L ++ r.2)
    -- "Blocks create new scopes": the locals afterwards are the locals before
    | .block bs => (evalBrs cs (Γ ++ [""]) (L ++ [flow]) flow bs).map fun v => (v, L)
    | .fnlit fi caps => (capVals Γ L caps).map fun ws => (.fn fi (ValList.ofList ws), L)
    | .call x => (slot Γ x).bind fun i => (L[i]?).bind fun fv => (cs fv flow).map fun res => (res, L)
    | .callNil x => (slot Γ x).bind fun i => (L[i]?).bind fun fv => (cs fv Val.nil).map fun res => (res, L)
  def evalCh (cs : Val → Val → Option Val) (Γ : List String) (L : List Val) (flow : Val) : Ch3 → Option (Val × List Val)
    | .nil => some (flow, L)
    | .cons t r => (evalT cs Γ L flow t).bind fun a => evalCh cs (compileT Γ t).2 a.2 a.1 r
  /-- every field starts from `flow`; bindings made in a field persist -/
  def evalFs (cs : Val → Val → Option Val) (Γ : List String) (L : List Val) (flow : Val) : Fs3 → Option (List Val × List Val)
    | .nil => some ([], L)
    | .cons c r =>
      (evalCh cs Γ L flow c).bind fun a =>
        (evalFs cs (compileCh Γ c).2 a.2 flow r).map fun b => (a.1 :: b.1, b.2)
  /-- the nil short-circuit: the remaining steps are skipped — and so are their Stores: after a nil step
  the locals are NOT aligned with the sequence's compile-time `Γ` any more (that is why every enclosing
  scope ends in a `Reset`) -/
  def evalSq (cs : Val → Val → Option Val) (Γ : List String) (L : List Val) (flow : Val) : Sq3 → Option (Val × List Val)
    | .last c => evalCh cs Γ L flow c
    | .cons c r =>
      (evalCh cs Γ L flow c).bind fun a =>
        if a.1.isNil then some a else evalSq cs (compileCh Γ c).2 a.2 a.1 r
  /-- the branches in order, each condition from the block parameter `flow` with the locals `Lp`
  (= the locals before the block and the parameter): the first condition that is not nil commits; its
  consequence — if any — starts again from the parameter and sees the condition's bindings -/
  def evalBrs (cs : Val → Val → Option Val) (Γp : List String) (Lp : List Val) (flow : Val) : Brs3 → Option Val
    | .nil => some Val.nil
    | .cons cond .none rest =>
      (evalSq cs Γp Lp flow cond).bind fun a =>
        if a.1.isNil then evalBrs cs Γp Lp flow rest else some a.1
    | .cons cond (.some cons) rest =>
      (evalSq cs Γp Lp flow cond).bind fun a =>
        if a.1.isNil then evalBrs cs Γp Lp flow rest
        else (evalSq cs (compileSq Γp cond).2 a.2 flow cons).map fun b => b.1
end

/-! ### Well-formedness -/

mutual
  def wfT (P : Prog) : T3 → Prop
    | .int z i => P.constants[i]? = some (.int z)
    | .ripple => True
    | .tup id fs => P.tuples[id]? = some fs.length ∧ wfFs P fs
    | .var _ => True
    | .mtch p => wfPat P p
    | .block bs => bs.isNil = false ∧ wfBrs P bs
    | .fnlit fi caps => ∃ fn, P.functions[fi]? = some fn ∧ fn.captures = caps.length
    | .call _ => True
    | .callNil _ => True
  def wfCh (P : Prog) : Ch3 → Prop
    | .nil => True
    | .cons t r => wfT P t ∧ wfCh P r
  def wfFs (P : Prog) : Fs3 → Prop
    | .nil => True
    | .cons c r => wfCh P c ∧ wfFs P r
  def wfSq (P : Prog) : Sq3 → Prop
    | .last c => wfCh P c
    | .cons c r => wfCh P c ∧ wfSq P r
  def wfBrs (P : Prog) : Brs3 → Prop
    | .nil => True
    | .cons cond .none rest => wfSq P cond ∧ wfBrs P rest
    | .cons cond (.some cons) rest => wfSq P cond ∧ wfSq P cons ∧ wfBrs P rest
end


/-! ### The function table and the meaning of application -/

/-- a function of the program: the names of its captures (its first locals) and its body -/
structure FnDef where
  caps : List String
  body : Brs3

abbrev FTab := List (Nat × FnDef)

/-- the function's code: its body as a block over the captures -/
def fnCode (d : FnDef) : List Instr := (compileT d.caps (.block d.body)).1

/-- applying `fv` to `arg` with at most `fuel` nested calls -/
def callSem (Φ : FTab) : Nat → Val → Val → Option Val
  | 0, _, _ => none
  | fuel + 1, fv, arg =>
    match fv with
    | .fn fi cv =>
      match Φ.lookup fi with
      | some d =>
        if cv.toList.length = d.caps.length then
          evalBrs (callSem Φ fuel) (d.caps ++ [""]) (cv.toList ++ [arg]) arg d.body
        else none
      | none => none
    | _ => none

/-- the program's tables say what `Φ` says -/
def FnOK (P : Prog) (Φ : FTab) : Prop :=
  ∀ fi d, Φ.lookup fi = some d →
    ∃ fn, P.functions[fi]? = some fn ∧ fn.instructions = (fnCode d).toArray ∧
      fn.captures = d.caps.length ∧ d.body.isNil = false ∧ wfBrs P d.body ∧
      fn.instructions.size < 2 ^ 63 - 1

end QM.RefSem.C3
