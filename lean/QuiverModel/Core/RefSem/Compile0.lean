import QuiverModel.Core.VM.Step
/-
M-RefSem ↔ M-VM, fragment compiler `compile0` (stretch goal of C02, DESIGN §5).

A Lean model of what `quiver-compiler/src/compiler.rs` emits for the **value-flow fragment**: integer
literals, the ripple `~`, tuple literals (any nesting) whose fields are chains of these, chains of such
terms, and (at the end of the file) sequences of such chains with the nil short-circuit jumps. It mirrors

  compile_term   Literal  : `Pop` (drop the flowing value), `Constant(i)`
  compile_access Ripple   : nothing — the flowing value already sits on the stack
  compile_term   Tuple    : RippleContext { stack_offset: 0, owns_value: true }
  compile_tuple           : per field `Pick(ctx.stack_offset + fields_compiled)` (a copy of the flowing
                            value as the field chain's input), the field's chain, …, `Tuple(id)`, and — the
                            context owns the value — `Rotate(2)`, `Pop`
  compile_chain_with_input: the terms one after the other

(the bookkeeping the property names: *where the flowing value sits on the VM stack while tuple fields
are compiled*). The VM side is C07's M-VM (`QM.VM.stepInstr`), imported read-only.
Import-free apart from Core/VM.
-/
namespace QM.RefSem.C0
open QM.VM

mutual
  /-- a term of the fragment; a literal carries the index of its constant, a tuple its tuple id -/
  inductive T0 where
    | int (z : Int) (cidx : Nat)
    | ripple
    | tup (id : Nat) (fields : Fs0)
  /-- a chain: terms applied one after the other to the flowing value -/
  inductive Ch0 where
    | nil
    | cons (t : T0) (rest : Ch0)
  /-- the field chains of a tuple literal -/
  inductive Fs0 where
    | nil
    | cons (c : Ch0) (rest : Fs0)
end

def Fs0.length : Fs0 → Nat
  | .nil => 0
  | .cons _ r => r.length + 1

/-! ### The compiler model -/

mutual
  def compileT : T0 → List Instr
    | .int _ i => [.pop, .constant i]
    | .ripple => []
    | .tup id fs => compileFs fs 0 ++ [.tuple id, .rotate 2, .pop]
  def compileCh : Ch0 → List Instr
    | .nil => []
    | .cons t r => compileT t ++ compileCh r
  /-- `k` = number of fields already compiled (`ctx.stack_offset + fields_compiled`, offset 0) -/
  def compileFs : Fs0 → Nat → List Instr
    | .nil, _ => []
    | .cons c r, k => [.pick k] ++ compileCh c ++ compileFs r (k + 1)
end

/-! ### What the spec says the fragment means (on VM values: tuples carry their id) -/

mutual
  /-- "Literals and tuples replace the value"; `~` is the value; "the flowing value is also passed
  into the fields of a tuple" -/
  def evalT : Val → T0 → Val
    | _, .int z _ => .int z
    | flow, .ripple => flow
    | flow, .tup id fs => .tup id (ValList.ofList (evalFs flow fs))
  def evalCh : Val → Ch0 → Val
    | flow, .nil => flow
    | flow, .cons t r => evalCh (evalT flow t) r
  def evalFs : Val → Fs0 → List Val
    | _, .nil => []
    | flow, .cons c r => evalCh flow c :: evalFs flow r
end

theorem evalFs_length (flow : Val) : (fs : Fs0) → (evalFs flow fs).length = fs.length
  | .nil => by simp [evalFs, Fs0.length]
  | .cons c r => by simp [evalFs, Fs0.length, evalFs_length flow r]

/-! ### Well-formedness against the program tables -/

mutual
  /-- constants and tuple arities are what the term says -/
  def wfT (P : Prog) : T0 → Prop
    | .int z i => P.constants[i]? = some (.int z)
    | .ripple => True
    | .tup id fs => P.tuples[id]? = some fs.length ∧ wfFs P fs
  def wfCh (P : Prog) : Ch0 → Prop
    | .nil => True
    | .cons t r => wfT P t ∧ wfCh P r
  def wfFs (P : Prog) : Fs0 → Prop
    | .nil => True
    | .cons c r => wfCh P c ∧ wfFs P r
end

/-! ### Running straight-line code on M-VM -/

/-- execute a list of instructions with M-VM's own `stepInstr`, one after the other (no instruction
of the fragment jumps, calls or yields an action) -/
def runList (O : Oracle) (P : Prog) : List Instr → Proc → Except Err Proc
  | [], p => .ok p
  | i :: is, p =>
    match stepInstr O P p i with
    | .ok (p', _) => runList O P is p'
    | .error e => .error e

theorem runList_append (O : Oracle) (P : Prog) (a b : List Instr) (p : Proc) :
    runList O P (a ++ b) p = (runList O P a p).bind (runList O P b) := by
  induction a generalizing p with
  | nil => rfl
  | cons i is ih =>
    simp only [List.cons_append, runList]
    cases stepInstr O P p i with
    | ok r => exact ih r.1
    | error e => rfl


/-! ### Sequences (compile_sequence): `c₁, c₂, …` with the nil short-circuit -/

/-- sequences of the fragment -/
inductive Sq0 where
  | last (c : Ch0)
  | cons (c : Ch0) (rest : Sq0)

/-- compile_sequence: each step's code; between steps `emit_duplicate_jump_if_nil` = `Duplicate, Not,
JumpIf(off)` with all jumps patched to the end of the sequence -/
def compileSq : Sq0 → List Instr
  | .last c => compileCh c
  | .cons c r => compileCh c ++ [.duplicate, .not, .jumpIf (compileSq r).length] ++ compileSq r

/-- "each step starts from the previous step's result, and if a step evaluates to nil the rest of the
sequence short-circuits and the whole sequence evaluates to nil" -/
def evalSq : Val → Sq0 → Val
  | flow, .last c => evalCh flow c
  | flow, .cons c r => let v := evalCh flow c; if v.isNil then v else evalSq v r

def wfSq (P : Prog) : Sq0 → Prop
  | .last c => wfCh P c
  | .cons c r => wfCh P c ∧ wfSq P r

end QM.RefSem.C0
