import QuiverModel.Core.RefSem.Compile3
/-
M-RefSem ↔ M-VM, fragment compiler with NAMED TAIL CALLS (`compile5`), C02 stretch goal part 8:
Compile4.lean (…, function literals with captures, calls, `^`, builtin calls)
  + `^x`   the tail call of the callable variable `x` with the flowing value: `Load(slot x), TailCall(false)`; the
           VM replaces the frame by one of the callee over ITS captures (same locals base) and runs the callee's
           code in it — what that yields is the result of the enclosing function.
The syntax and the definitions are those of Compile4 with the one constructor added (Compile4 and the theorems
proved about it stay as they are); the meaning of `^x` is `exit (app x flow)`.
-/
namespace QM.RefSem.C5
open QM.VM
open QM.RefSem.C1 (Sub Pat1 slot compilePat patBinds evalPat wfPat wfProg)
open QM.RefSem.C2 (resetIf)

mutual
  inductive T4 where
    | int (z : Int) (cidx : Nat)
    | ripple
    | tup (id : Nat) (fields : Fs4)
    /-- read the variable `x` (it replaces the flowing value) -/
    | var (x : String)
    /-- `=p` -/
    | mtch (p : Pat1)
    /-- `{ | cond₁ => cons₁ | cond₂ | … }` -/
    | block (bs : Brs4)
    /-- a function literal `#T { … }`: function `fi` of the program with the captured variables `caps`
    (in capture order); it replaces the flowing value -/
    | fnlit (fi : Nat) (caps : List String)
    /-- the callable variable `x` applied to the flowing value -/
    | call (x : String)
    /-- the NILARY callable variable `x` in a chain: it ignores the flowing value and is called with nil -/
    | callNil (x : String)
    /-- `^`: tail call of the enclosing function with the flowing value -/
    | tailSelf
    /-- builtin `bi` applied to the flowing value -/
    | bcall (bi : Nat)
    /-- `^x`: tail call of the callable variable `x` with the flowing value -/
    | tailNamed (x : String)
  inductive Ch4 where
    | nil
    | cons (t : T4) (rest : Ch4)
  inductive Fs4 where
    | nil
    | cons (c : Ch4) (rest : Fs4)
  /-- `c₁, c₂, …` -/
  inductive Sq4 where
    | last (c : Ch4)
    | cons (c : Ch4) (rest : Sq4)
  inductive OSq4 where
    | none
    | some (s : Sq4)
  /-- the branches of a block: condition, optional consequence -/
  inductive Brs4 where
    | nil
    | cons (cond : Sq4) (cons : OSq4) (rest : Brs4)
end

def Brs4.isNil : Brs4 → Bool
  | .nil => true
  | .cons _ _ _ => false

def Fs4.length : Fs4 → Nat
  | .nil => 0
  | .cons _ r => r.length + 1

/-- `Load(slot)` of each captured variable, in capture order -/
def loadsOf (Γ : List String) : List String → List Instr
  | [] => []
  | c :: r => .load ((slot Γ c).getD 0) :: loadsOf Γ r

mutual
  /-- code and the compile-time locals afterwards -/
  def compileT (Γ : List String) : T4 → List Instr × List String
    | .int _ i => ([.pop, .constant i], Γ)
    | .ripple => ([], Γ)
    | .tup id fs =>
      let r := compileFs Γ fs 0
      (r.1 ++ [.tuple id, .rotate 2, .pop], r.2)
    | .var x => ([.pop, .load ((slot Γ x).getD 0)], Γ)
    | .mtch p => (compilePat p, Γ ++ patBinds p)
    -- compile_scoped_expression: the parameter goes to slot `n = local_count`; branches; the parameter
    -- clear `Reset(n)`; then, if any branch needs one, a jump over the cleanup blocks and the cleanup
    -- blocks. Afterwards `local_count` is what it was.
    | .block bs =>
      let r := compileBrs (Γ ++ [""]) Γ.length bs 0 true
      ([.store] ++ (r.1 ++ ([.reset Γ.length] ++
        ((if r.2 = [] then [] else [.jump ((r.2.length : Nat) : Int)]) ++ r.2))), Γ)
    -- compile_function (use site): drop the flowing value, push the captured values, `Function(fi)`
    | .fnlit fi caps => ([.pop] ++ (loadsOf Γ caps ++ [.function fi]), Γ)
    -- compile_access of a callable variable: the flowing value stays as the argument
    | .call x => ([.load ((slot Γ x).getD 0), .call], Γ)
    -- a nilary callee: the flowing value is replaced by nil under the function
    | .callNil x => ([.load ((slot Γ x).getD 0), .rotate 2, .pop, .tuple 0, .rotate 2, .call], Γ)
    | .tailSelf => ([.tailCall true], Γ)
    | .bcall bi => ([.builtin bi, .call], Γ)
    -- compile_tail_call: the function on top of the argument, `TailCall(false)`
    | .tailNamed x => ([.load ((slot Γ x).getD 0), .tailCall false], Γ)
  def compileCh (Γ : List String) : Ch4 → List Instr × List String
    | .nil => ([], Γ)
    | .cons t r =>
      let a := compileT Γ t
      let b := compileCh a.2 r
      (a.1 ++ b.1, b.2)
  def compileFs (Γ : List String) : Fs4 → Nat → List Instr × List String
    | .nil, _ => ([], Γ)
    | .cons c r, k =>
      let a := compileCh Γ c
      let b := compileFs a.2 r (k + 1)
      ([.pick k] ++ a.1 ++ b.1, b.2)
  def compileSq (Γ : List String) : Sq4 → List Instr × List String
    | .last c => compileCh Γ c
    | .cons c r =>
      let a := compileCh Γ c
      let b := compileSq a.2 r
      (a.1 ++ ([.duplicate, .not, .jumpIf (b.1.length : Int)] ++ b.1), b.2)
  /-- The branches from a given one on: (main code, cleanup blocks). `Γp` = the slot names with the
  block parameter (slot `n`) as last; `k` = number of cleanup blocks of earlier branches; `first` = no
  earlier branch (a later branch starts by popping the failed condition's nil). The main code of the
  branches ends exactly at the parameter clear (position `PC`); the cleanup blocks start at
  `PC + 2` (after `Reset(n)` and the jump over them), two instructions each.
    bodiless branch:  [Pop] Load(n) cond [Reset(n+1)] [Duplicate JumpIf(→PC)]
    with consequence: [Pop] Load(n) cond Duplicate Not JumpIf(→T) Pop Load(n) cons [Reset(n+1)] [Jump(→PC)]
       T = the next branch (the parameter clear for the last one) — via this branch's cleanup block
       `Reset(n+1), Jump(→ back to the next branch / PC)` if the condition has bindings -/
  def compileBrs (Γp : List String) (n : Nat) : Brs4 → Nat → Bool → List Instr × List Instr
    | .nil, _, _ => ([], [])
    | .cons cond .none rest, k, first =>
      let c := compileSq Γp cond
      let r := compileBrs Γp n rest k false
      ((if first then [] else [.pop]) ++ ([.load n] ++ (c.1 ++ (resetIf c.2.length n ++
        ((if rest.isNil then [] else [.duplicate, .jumpIf (r.1.length : Int)]) ++ r.1)))), r.2)
    | .cons cond (.some cons) rest, k, first =>
      let c := compileSq Γp cond
      let needs : Bool := decide (c.2.length > n + 1)
      let r := compileBrs Γp n rest (if needs then k + 1 else k) false
      let cc := compileSq c.2 cons
      let ej : List Instr := if rest.isNil then [] else [.jump (r.1.length : Int)]
      -- length of `Pop, Load(n), cons, [Reset(n+1)], [Jump]`
      let tailLen : Nat := 2 + cc.1.length + (resetIf cc.2.length n).length + ej.length
      let off : Nat := if needs then tailLen + r.1.length + 2 + 2 * k else tailLen
      ((if first then [] else [.pop]) ++ ([.load n] ++ (c.1 ++ ([.duplicate, .not, .jumpIf (off : Int)] ++
        ([.pop, .load n] ++ (cc.1 ++ (resetIf cc.2.length n ++ (ej ++ r.1))))))),
       (if needs then [.reset (n + 1), .jump (-((r.1.length + 2 * k + 4 : Nat) : Int))] else []) ++ r.2)
end

/-! ### Meaning -/

/-- the captured values (`none`: a captured name has no slot) -/
def capVals (Γ : List String) (L : List Val) : List String → Option (List Val)
  | [] => some []
  | c :: r =>
    match (slot Γ c).bind (fun i => L[i]?), capVals Γ L r with
    | some v, some vs => some (v :: vs)
    | _, _ => none

/-- the outcome of a construct -/
inductive Out where
  /-- it ran to its end: value, the frame's locals -/
  | norm (v : Val) (L : List Val)
  /-- a `^` was taken inside: the result of the whole function -/
  | exit (res : Val)

/-- what the meaning functions are parametric in -/
structure Sem where
  /-- applying a function value to an argument -/
  app : Val → Val → Option Val
  /-- a builtin on an argument -/
  bi : Nat → Val → Option Val
  /-- the function being executed (`none` at the top level) -/
  self : Option Val

mutual
  def evalT (cs : Sem) (Γ : List String) (L : List Val) (flow : Val) : T4 → Option Out
    | .int z _ => some (.norm (.int z) L)
    | .ripple => some (.norm flow L)
    | .tup id fs => (evalFs cs Γ L flow fs).map fun r => .norm (.tup id (ValList.ofList r.1)) r.2
    | .var x => (slot Γ x).bind fun i => (L[i]?).map fun v => .norm v L
    | .mtch p => (evalPat flow p).map fun r => .norm r.1 (L ++ r.2)
    -- "Blocks create new scopes": the locals afterwards are the locals before
    | .block bs =>
      (evalBrs cs (Γ ++ [""]) (L ++ [flow]) flow bs).map fun
        | .norm v _ => .norm v L
        | .exit res => .exit res
    | .fnlit fi caps => (capVals Γ L caps).map fun ws => .norm (.fn fi (ValList.ofList ws)) L
    | .call x => (slot Γ x).bind fun i => (L[i]?).bind fun fv => (cs.app fv flow).map fun res => .norm res L
    | .callNil x => (slot Γ x).bind fun i => (L[i]?).bind fun fv => (cs.app fv Val.nil).map fun res => .norm res L
    | .tailSelf => cs.self.bind fun sv => (cs.app sv flow).map fun res => .exit res
    | .bcall bi => (cs.bi bi flow).map fun v => .norm v L
    | .tailNamed x => (slot Γ x).bind fun i => (L[i]?).bind fun fv => (cs.app fv flow).map fun res => .exit res
  def evalCh (cs : Sem) (Γ : List String) (L : List Val) (flow : Val) : Ch4 → Option Out
    | .nil => some (.norm flow L)
    | .cons t r =>
      (evalT cs Γ L flow t).bind fun
        | .norm v L₁ => evalCh cs (compileT Γ t).2 L₁ v r
        | .exit res => some (.exit res)
  /-- every field starts from `flow`; bindings made in a field persist; a `^` inside a field has no
  meaning (the operand stack holds the tuple's earlier fields: not a tail position) -/
  def evalFs (cs : Sem) (Γ : List String) (L : List Val) (flow : Val) : Fs4 → Option (List Val × List Val)
    | .nil => some ([], L)
    | .cons c r =>
      (evalCh cs Γ L flow c).bind fun
        | .norm v L₁ => (evalFs cs (compileCh Γ c).2 L₁ flow r).map fun b => (v :: b.1, b.2)
        | .exit _ => none
  def evalSq (cs : Sem) (Γ : List String) (L : List Val) (flow : Val) : Sq4 → Option Out
    | .last c => evalCh cs Γ L flow c
    | .cons c r =>
      (evalCh cs Γ L flow c).bind fun
        | .norm v L₁ => if v.isNil then some (.norm v L₁) else evalSq cs (compileCh Γ c).2 L₁ v r
        | .exit res => some (.exit res)
  /-- the branches; `norm v Lp`: the block's value at the parameter clear, locals `Lp` -/
  def evalBrs (cs : Sem) (Γp : List String) (Lp : List Val) (flow : Val) : Brs4 → Option Out
    | .nil => some (.norm Val.nil Lp)
    | .cons cond .none rest =>
      (evalSq cs Γp Lp flow cond).bind fun
        | .norm v _ => if v.isNil then evalBrs cs Γp Lp flow rest else some (.norm v Lp)
        | .exit res => some (.exit res)
    | .cons cond (.some cons) rest =>
      (evalSq cs Γp Lp flow cond).bind fun
        | .norm v Lc =>
          if v.isNil then evalBrs cs Γp Lp flow rest
          else (evalSq cs (compileSq Γp cond).2 Lc flow cons).map fun
            | .norm w _ => .norm w Lp
            | .exit res => .exit res
        | .exit res => some (.exit res)
end

/-! ### Well-formedness -/

mutual
  def wfT (P : Prog) : T4 → Prop
    | .int z i => P.constants[i]? = some (.int z)
    | .ripple => True
    | .tup id fs => P.tuples[id]? = some fs.length ∧ wfFs P fs
    | .var _ => True
    | .mtch p => wfPat P p
    | .block bs => bs.isNil = false ∧ wfBrs P bs
    | .fnlit fi caps => ∃ fn, P.functions[fi]? = some fn ∧ fn.captures = caps.length
    | .call _ => True
    | .callNil _ => True
    | .tailSelf => True
    | .bcall bi => bi < P.builtins
    | .tailNamed _ => True
  def wfCh (P : Prog) : Ch4 → Prop
    | .nil => True
    | .cons t r => wfT P t ∧ wfCh P r
  def wfFs (P : Prog) : Fs4 → Prop
    | .nil => True
    | .cons c r => wfCh P c ∧ wfFs P r
  def wfSq (P : Prog) : Sq4 → Prop
    | .last c => wfCh P c
    | .cons c r => wfCh P c ∧ wfSq P r
  def wfBrs (P : Prog) : Brs4 → Prop
    | .nil => True
    | .cons cond .none rest => wfSq P cond ∧ wfBrs P rest
    | .cons cond (.some cons) rest => wfSq P cond ∧ wfSq P cons ∧ wfBrs P rest
end


/-! ### The function table and the meaning of application -/

/-- a function of the program: the names of its captures (its first locals) and its body -/
structure FnDef where
  caps : List String
  body : Brs4

abbrev FTab := List (Nat × FnDef)

/-- the function's code: its body as a block over the captures -/
def fnCode (d : FnDef) : List Instr := (compileT d.caps (.block d.body)).1

/-- applying `fv` to `arg` with at most `fuel` nested (and tail) calls -/
def callSem (Φ : FTab) (bi : Nat → Val → Option Val) : Nat → Val → Val → Option Val
  | 0, _, _ => none
  | fuel + 1, fv, arg =>
    match fv with
    | .fn fi cv =>
      match Φ.lookup fi with
      | some d =>
        if cv.toList.length = d.caps.length then
          match evalBrs ⟨callSem Φ bi fuel, bi, some fv⟩ (d.caps ++ [""]) (cv.toList ++ [arg]) arg d.body with
          | some (.norm v _) => some v
          | some (.exit res) => some res
          | none => none
        else none
      | none => none
    | _ => none

/-- the parameters of the meaning functions at the top level of the program, for a given fuel -/
def topSem (Φ : FTab) (bi : Nat → Val → Option Val) (fuel : Nat) : Sem := ⟨callSem Φ bi fuel, bi, none⟩

/-- the program's tables say what `Φ` says -/
def FnOK (P : Prog) (Φ : FTab) : Prop :=
  ∀ fi d, Φ.lookup fi = some d →
    ∃ fn, P.functions[fi]? = some fn ∧ fn.instructions = (fnCode d).toArray ∧
      fn.captures = d.caps.length ∧ d.body.isNil = false ∧ wfBrs P d.body ∧
      fn.instructions.size < 2 ^ 63 - 1

end QM.RefSem.C5
