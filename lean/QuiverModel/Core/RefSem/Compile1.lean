import QuiverModel.Core.RefSem.Compile0
/-
M-RefSem ↔ M-VM, fragment compiler with LOCALS AND BINDINGS (`compile1`), C02 stretch goal part 3.

Adds to the value-flow fragment of Compile0.lean:
  * reading a (non-callable) variable `x`      → `Pop, Load(slot)`            (compile_access_inner, Identifier)
  * the binder match `=x` (and `x = e`, which is `e =x`) → compile_match's template for a single binder:
        Jump(1), Jump(5), Duplicate, Store, Pop, Tuple(OK), Jump(4), Tuple(NIL), Store, Pop, Tuple(NIL)
    (start jump, fail jump, the binding's value access + Store, the verdict `Ok`, jump over the failure
     path — which nil-fills one local per binding and yields nil; a bare binder never takes it).

Compile-time state: `Γ`, the names of the frame's locals in slot order (`local_count = Γ.length`, a new
binding takes the next slot, a name resolves to its LAST slot = innermost binding). Run time: the
frame-relative locals `L`. The **alignment invariant** `L.length = Γ.length` (compile-time slot numbering =
run-time Store order) is what makes `Load(slot Γ x)` read the value bound to `x`.
-/
namespace QM.RefSem.C1
open QM.VM

mutual
  inductive T1 where
    | int (z : Int) (cidx : Nat)
    | ripple
    | tup (id : Nat) (fields : Fs1)
    /-- read the variable `x` (it replaces the flowing value) -/
    | var (x : String)
    /-- `=x` -/
    | bind (x : String)
  inductive Ch1 where
    | nil
    | cons (t : T1) (rest : Ch1)
  inductive Fs1 where
    | nil
    | cons (c : Ch1) (rest : Fs1)
end

inductive Sq1 where
  | last (c : Ch1)
  | cons (c : Ch1) (rest : Sq1)

def Fs1.length : Fs1 → Nat
  | .nil => 0
  | .cons _ r => r.length + 1

/-- the slot of `x`: the last position of `x` in `Γ` (innermost binding) -/
def slot : List String → String → Option Nat
  | [], _ => none
  | y :: r, x =>
    match slot r x with
    | some i => some (i + 1)
    | none => if x = y then some 0 else none

/-- compile_match for a bare binder -/
def bindCode : List Instr :=
  [.jump 1, .jump 5, .duplicate, .store, .pop, .tuple 1, .jump 4, .tuple 0, .store, .pop, .tuple 0]

mutual
  /-- code and the compile-time locals afterwards -/
  def compileT (Γ : List String) : T1 → List Instr × List String
    | .int _ i => ([.pop, .constant i], Γ)
    | .ripple => ([], Γ)
    | .tup id fs =>
      let r := compileFs Γ fs 0
      (r.1 ++ [.tuple id, .rotate 2, .pop], r.2)
    | .var x => ([.pop, .load ((slot Γ x).getD 0)], Γ)
    | .bind x => (bindCode, Γ ++ [x])
  def compileCh (Γ : List String) : Ch1 → List Instr × List String
    | .nil => ([], Γ)
    | .cons t r =>
      let a := compileT Γ t
      let b := compileCh a.2 r
      (a.1 ++ b.1, b.2)
  def compileFs (Γ : List String) : Fs1 → Nat → List Instr × List String
    | .nil, _ => ([], Γ)
    | .cons c r, k =>
      let a := compileCh Γ c
      let b := compileFs a.2 r (k + 1)
      ([.pick k] ++ a.1 ++ b.1, b.2)
end

def compileSq (Γ : List String) : Sq1 → List Instr × List String
  | .last c => compileCh Γ c
  | .cons c r =>
    let a := compileCh Γ c
    let b := compileSq a.2 r
    (a.1 ++ [.duplicate, .not, .jumpIf b.1.length] ++ b.1, b.2)

/-! ### Meaning: value, names and values of the locals afterwards -/

structure Out where
  val : Val
  names : List String
  locals : List Val

mutual
  def evalT (Γ : List String) (L : List Val) (flow : Val) : T1 → Out
    | .int z _ => ⟨.int z, Γ, L⟩
    | .ripple => ⟨flow, Γ, L⟩
    | .tup id fs =>
      let r := evalFs Γ L flow fs
      ⟨.tup id (ValList.ofList r.1), r.2.1, r.2.2⟩
    | .var x => ⟨(L[(slot Γ x).getD 0]?).getD Val.nil, Γ, L⟩
    -- "A bare binder always succeeds"; the verdict is `Ok`; the binding takes the next slot
    | .bind x => ⟨Val.ok, Γ ++ [x], L ++ [flow]⟩
  def evalCh (Γ : List String) (L : List Val) (flow : Val) : Ch1 → Out
    | .nil => ⟨flow, Γ, L⟩
    | .cons t r =>
      let a := evalT Γ L flow t
      evalCh a.names a.locals a.val r
  /-- every field starts from `flow`; bindings made in a field persist -/
  def evalFs (Γ : List String) (L : List Val) (flow : Val) : Fs1 → List Val × List String × List Val
    | .nil => ([], Γ, L)
    | .cons c r =>
      let a := evalCh Γ L flow c
      let b := evalFs a.names a.locals flow r
      (a.val :: b.1, b.2.1, b.2.2)
end

def evalSq (Γ : List String) (L : List Val) (flow : Val) : Sq1 → Out
  | .last c => evalCh Γ L flow c
  | .cons c r =>
    let a := evalCh Γ L flow c
    if a.val.isNil then a else evalSq a.names a.locals a.val r

/-! ### Well-formedness: tables as the term says, variables bound -/

mutual
  def wfT (P : Prog) (Γ : List String) : T1 → Prop
    | .int z i => P.constants[i]? = some (.int z)
    | .ripple => True
    | .tup id fs => P.tuples[id]? = some fs.length ∧ wfFs P Γ fs
    | .var x => (slot Γ x).isSome
    | .bind _ => True
  def wfCh (P : Prog) (Γ : List String) : Ch1 → Prop
    | .nil => True
    | .cons t r => wfT P Γ t ∧ wfCh P (compileT Γ t).2 r
  def wfFs (P : Prog) (Γ : List String) : Fs1 → Prop
    | .nil => True
    | .cons c r => wfCh P Γ c ∧ wfFs P (compileCh Γ c).2 r
end

def wfSq (P : Prog) (Γ : List String) : Sq1 → Prop
  | .last c => wfCh P Γ c
  | .cons c r => wfCh P Γ c ∧ wfSq P (compileCh Γ c).2 r

end QM.RefSem.C1
