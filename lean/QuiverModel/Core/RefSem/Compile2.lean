import QuiverModel.Core.RefSem.Compile0
/-
M-RefSem ↔ M-VM, fragment compiler with LOCALS, BINDINGS, SIMPLE MATCH PATTERNS AND BLOCKS (`compile2`),
C02 stretch goal part 4: Compile1.lean + blocks with branches and `=>` (compile_scoped_expression: the
parameter's slot, the per-branch `Reset(n+1)`, the parameter clear `Reset(n)`, the cleanup blocks).

Adds to the value-flow fragment of Compile0.lean:
  * reading a (non-callable) variable `x`      → `Pop, Load(slot)`            (compile_access_inner, Identifier)
  * the in-chain match `=p` (and `x = e`, which is `e =x`) for the simple pattern forms
        binder `x`, placeholder `_`, integer literal, flat tuple destructuring `[p₀, …]` / `A[p₀, …]`
        (sub-patterns binder / placeholder / literal) of a value whose static type is that tuple type
    → compile_match's template:
        Jump(1)                    start
        Jump(→ failure path)       the "fail jump": every failing test jumps BACK to it
        tests   (per literal:   Duplicate, [Get(k),] Constant(c), Equal(2), Not, JumpIf(→ fail jump))
        bindings(per binder:    Duplicate, [Get(k),] Store)            — after ALL tests, in the order of the
                                                                         binders' NAMES (analyze_pattern sorts them)
        Pop, Tuple(OK), Jump(over the failure path)
        failure path: (Tuple(NIL), Store) × #bindings, Pop, Tuple(NIL)  — the nil fill

Compile-time state: `Γ`, the names of the frame's locals in slot order (`local_count = Γ.length`, a new
binding takes the next slot, a name resolves to its LAST slot = innermost binding). Run time: the
frame-relative locals `L`.

The **alignment invariant** `L.length = Γ.length` (compile-time slot numbering = run-time Store order, on
EVERY path: the failure path stores one nil per binding precisely to keep it) is what makes
`Load(slot Γ x)` read the value bound to `x`; it is part of every correctness statement in
Theorems/C02Loc.lean.

The meaning functions are partial (`Option`): `none` = the fragment's typing assumption is violated (a
tuple pattern that tests or binds a field the value does not have, a read of a name that has no
slot) — the compiler only emits this code for well-typed programs. They follow the CODE where the code
is more liberal than a reading of the pattern would be: a tuple pattern does not check the width (the
static type did), and stops testing at the first literal that differs.
-/
namespace QM.RefSem.C2
open QM.VM

/-- sub-pattern / top-level simple pattern -/
inductive Sub where
  | bind (x : String)
  | wild
  | lit (z : Int) (cidx : Nat)

inductive Pat1 where
  /-- `=x`, `=_`, `=5` -/
  | top (s : Sub)
  /-- `=[p₀, …, pₙ₋₁]` (any tuple name: the static type is exactly the pattern's, no `IsType`) -/
  | tup (subs : List Sub)

mutual
  inductive T1 where
    | int (z : Int) (cidx : Nat)
    | ripple
    | tup (id : Nat) (fields : Fs1)
    /-- read the variable `x` (it replaces the flowing value) -/
    | var (x : String)
    /-- `=p` -/
    | mtch (p : Pat1)
    /-- `{ | cond₁ => cons₁ | cond₂ | … }` -/
    | block (bs : Brs1)
  inductive Ch1 where
    | nil
    | cons (t : T1) (rest : Ch1)
  inductive Fs1 where
    | nil
    | cons (c : Ch1) (rest : Fs1)
  /-- `c₁, c₂, …` -/
  inductive Sq1 where
    | last (c : Ch1)
    | cons (c : Ch1) (rest : Sq1)
  inductive OSq1 where
    | none
    | some (s : Sq1)
  /-- the branches of a block: condition, optional consequence -/
  inductive Brs1 where
    | nil
    | cons (cond : Sq1) (cons : OSq1) (rest : Brs1)
end

def Brs1.isNil : Brs1 → Bool
  | .nil => true
  | .cons _ _ _ => false

def Fs1.length : Fs1 → Nat
  | .nil => 0
  | .cons _ r => r.length + 1

/-- the slot of `x`: the last position of `x` in `Γ` (innermost binding) -/
def slot : List String → String → Option Nat
  | [], _ => none
  | y :: r, x =>
    match slot r x with
    | some i => some (i + 1)
    | none => if x = y then some 0 else none

/-! ### compile_match for the simple patterns -/

def subBinds : Sub → List String
  | .bind x => [x]
  | _ => []

/-- the binders of a tuple pattern with their field indices, field `k` onwards -/
def binders : List Sub → Nat → List (String × Nat)
  | [], _ => []
  | .bind x :: r, k => (x, k) :: binders r (k + 1)
  | .wild :: r, k => binders r (k + 1)
  | .lit _ _ :: r, k => binders r (k + 1)

def insertB (a : String × Nat) : List (String × Nat) → List (String × Nat)
  | [] => [a]
  | b :: r => if b.1 < a.1 then b :: insertB a r else a :: b :: r

/-- pattern::analyze_pattern sorts the bindings by name (`all_bindings.sort_by(|a, b| a.0.cmp(&b.0))`):
slots are handed out in that order, not in field order -/
def sortB : List (String × Nat) → List (String × Nat)
  | [] => []
  | a :: r => insertB a (sortB r)

def subsBinds (subs : List Sub) : List String := (sortB (binders subs 0)).map (·.1)

def patBinds : Pat1 → List String
  | .top s => subBinds s
  | .tup subs => subsBinds subs

/-- test of a top-level literal; `q` = position of its first instruction in the template (the fail
jump is at position 1) -/
def testTop : Sub → Nat → List Instr
  | .lit _ c, q => [.duplicate, .constant c, .equal 2, .not, .jumpIf (-((q + 4 : Nat) : Int))]
  | _, _ => []

def bindTop : Sub → List Instr
  | .bind _ => [.duplicate, .store]
  | _ => []

/-- tests of the literal sub-patterns, field `k` onwards, first instruction at template position `q` -/
def testsFields : List Sub → Nat → Nat → List Instr
  | [], _, _ => []
  | .lit _ c :: r, k, q =>
    [.duplicate, .get k, .constant c, .equal 2, .not, .jumpIf (-((q + 5 : Nat) : Int))] ++ testsFields r (k + 1) (q + 6)
  | .bind _ :: r, k, q => testsFields r (k + 1) q
  | .wild :: r, k, q => testsFields r (k + 1) q

def bindsCode : List (String × Nat) → List Instr
  | [] => []
  | (_, k) :: r => [.duplicate, .get k, .store] ++ bindsCode r

def nilFill : Nat → List Instr
  | 0 => []
  | n + 1 => [.tuple 0, .store] ++ nilFill n

def matchCode (tests binds : List Instr) (nb : Nat) : List Instr :=
  [.jump 1, .jump ((tests.length + binds.length + 3 : Nat) : Int)] ++ (tests ++ (binds ++
    ([.pop, .tuple 1, .jump ((2 * nb + 2 : Nat) : Int)] ++ (nilFill nb ++ [.pop, .tuple 0]))))

def compilePat : Pat1 → List Instr
  | .top s => matchCode (testTop s 2) (bindTop s) (subBinds s).length
  | .tup subs => matchCode (testsFields subs 0 2) (bindsCode (sortB (binders subs 0))) (subsBinds subs).length

/-- `Reset(n + 1)` — drop a branch's bindings, keep the block parameter — emitted only if the branch
has (compile-time) bindings -/
def resetIf (len n : Nat) : List Instr := if len > n + 1 then [.reset (n + 1)] else []

mutual
  /-- code and the compile-time locals afterwards -/
  def compileT (Γ : List String) : T1 → List Instr × List String
    | .int _ i => ([.pop, .constant i], Γ)
    | .ripple => ([], Γ)
    | .tup id fs =>
      let r := compileFs Γ fs 0
      (r.1 ++ [.tuple id, .rotate 2, .pop], r.2)
    | .var x => ([.pop, .load ((slot Γ x).getD 0)], Γ)
    | .mtch p => (compilePat p, Γ ++ patBinds p)
    -- compile_scoped_expression: the parameter goes to slot `n = local_count`; branches; the parameter
    -- clear `Reset(n)`; then, if any branch needs one, a jump over the cleanup blocks and the cleanup
    -- blocks. Afterwards `local_count` is what it was.
    | .block bs =>
      let r := compileBrs (Γ ++ [""]) Γ.length bs 0 true
      ([.store] ++ (r.1 ++ ([.reset Γ.length] ++
        ((if r.2 = [] then [] else [.jump ((r.2.length : Nat) : Int)]) ++ r.2))), Γ)
  def compileCh (Γ : List String) : Ch1 → List Instr × List String
    | .nil => ([], Γ)
    | .cons t r =>
      let a := compileT Γ t
      let b := compileCh a.2 r
      (a.1 ++ b.1, b.2)
  def compileFs (Γ : List String) : Fs1 → Nat → List Instr × List String
    | .nil, _ => ([], Γ)
    | .cons c r, k =>
      let a := compileCh Γ c
      let b := compileFs a.2 r (k + 1)
      ([.pick k] ++ a.1 ++ b.1, b.2)
  def compileSq (Γ : List String) : Sq1 → List Instr × List String
    | .last c => compileCh Γ c
    | .cons c r =>
      let a := compileCh Γ c
      let b := compileSq a.2 r
      (a.1 ++ ([.duplicate, .not, .jumpIf (b.1.length : Int)] ++ b.1), b.2)
  /-- The branches from a given one on: (main code, cleanup blocks). `Γp` = the slot names with the
  block parameter (slot `n`) as last; `k` = number of cleanup blocks of earlier branches; `first` = no
  earlier branch (a later branch starts by popping the failed condition's nil). The main code of the
  branches ends exactly at the parameter clear (position `PC`); the cleanup blocks start at
  `PC + 2` (after `Reset(n)` and the jump over them), two instructions each.
    bodiless branch:  [Pop] Load(n) cond [Reset(n+1)] [Duplicate JumpIf(→PC)]
    with consequence: [Pop] Load(n) cond Duplicate Not JumpIf(→T) Pop Load(n) cons [Reset(n+1)] [Jump(→PC)]
       T = the next branch (the parameter clear for the last one) — via this branch's cleanup block
       `Reset(n+1), Jump(→ back to the next branch / PC)` if the condition has bindings -/
  def compileBrs (Γp : List String) (n : Nat) : Brs1 → Nat → Bool → List Instr × List Instr
    | .nil, _, _ => ([], [])
    | .cons cond .none rest, k, first =>
      let c := compileSq Γp cond
      let r := compileBrs Γp n rest k false
      ((if first then [] else [.pop]) ++ ([.load n] ++ (c.1 ++ (resetIf c.2.length n ++
        ((if rest.isNil then [] else [.duplicate, .jumpIf (r.1.length : Int)]) ++ r.1)))), r.2)
    | .cons cond (.some cons) rest, k, first =>
      let c := compileSq Γp cond
      let needs : Bool := decide (c.2.length > n + 1)
      let r := compileBrs Γp n rest (if needs then k + 1 else k) false
      let cc := compileSq c.2 cons
      let tail : List Instr := [.pop, .load n] ++ (cc.1 ++ (resetIf cc.2.length n ++
        (if rest.isNil then [] else [.jump (r.1.length : Int)])))
      let off : Nat := if needs then tail.length + r.1.length + 2 + 2 * k else tail.length
      ((if first then [] else [.pop]) ++ ([.load n] ++ (c.1 ++ ([.duplicate, .not, .jumpIf (off : Int)] ++
        (tail ++ r.1)))),
       (if needs then [.reset (n + 1), .jump (-((r.1.length + 2 * k + 4 : Nat) : Int))] else []) ++ r.2)
end

/-! ### Meaning: the value and the frame's locals afterwards -/

def subPasses (v : Val) : Sub → Bool
  | .lit z _ => decide (v = .int z)
  | _ => true

def subBound (v : Val) : Sub → List Val
  | .bind _ => [v]
  | _ => []

/-- the fields a `Get` can reach -/
def fieldsOf : Val → List Val
  | .tup _ els => els.toList
  | _ => []

/-- the literal tests, in field order, stopping at the first that fails (`none`: a tested field does
not exist — `Get` fails) -/
def fieldsPass : List Sub → Nat → List Val → Option Bool
  | [], _, _ => some true
  | .lit z _ :: r, k, vs =>
    match vs[k]? with
    | none => none
    | some v => if v = .int z then fieldsPass r (k + 1) vs else some false
  | .bind _ :: r, k, vs => fieldsPass r (k + 1) vs
  | .wild :: r, k, vs => fieldsPass r (k + 1) vs

/-- the values stored for the (sorted) binders -/
def bindVals : List (String × Nat) → List Val → Option (List Val)
  | [], _ => some []
  | (_, k) :: r, vs =>
    match vs[k]?, bindVals r vs with
    | some v, some rest => some (v :: rest)
    | _, _ => none

/-- the verdict and the values stored (one per binder, in NAME order; nil for each on failure) -/
def evalPat (flow : Val) : Pat1 → Option (Val × List Val)
  | .top s =>
    if subPasses flow s then some (Val.ok, subBound flow s)
    else some (Val.nil, List.replicate (subBinds s).length Val.nil)
  | .tup subs =>
    match fieldsPass subs 0 (fieldsOf flow) with
    | some true => (bindVals (sortB (binders subs 0)) (fieldsOf flow)).map fun vs => (Val.ok, vs)
    | some false => some (Val.nil, List.replicate (subsBinds subs).length Val.nil)
    | none => none

mutual
  def evalT (Γ : List String) (L : List Val) (flow : Val) : T1 → Option (Val × List Val)
    | .int z _ => some (.int z, L)
    | .ripple => some (flow, L)
    | .tup id fs => (evalFs Γ L flow fs).map fun r => (.tup id (ValList.ofList r.1), r.2)
    | .var x => (slot Γ x).bind fun i => (L[i]?).map fun v => (v, L)
    | .mtch p => (evalPat flow p).map fun r => (r.1, L ++ r.2)
    -- "Blocks create new scopes": the locals afterwards are the locals before
    | .block bs => (evalBrs (Γ ++ [""]) (L ++ [flow]) flow bs).map fun v => (v, L)
  def evalCh (Γ : List String) (L : List Val) (flow : Val) : Ch1 → Option (Val × List Val)
    | .nil => some (flow, L)
    | .cons t r => (evalT Γ L flow t).bind fun a => evalCh (compileT Γ t).2 a.2 a.1 r
  /-- every field starts from `flow`; bindings made in a field persist -/
  def evalFs (Γ : List String) (L : List Val) (flow : Val) : Fs1 → Option (List Val × List Val)
    | .nil => some ([], L)
    | .cons c r =>
      (evalCh Γ L flow c).bind fun a =>
        (evalFs (compileCh Γ c).2 a.2 flow r).map fun b => (a.1 :: b.1, b.2)
  /-- the nil short-circuit: the remaining steps are skipped — and so are their Stores: after a nil step
  the locals are NOT aligned with the sequence's compile-time `Γ` any more (that is why every enclosing
  scope ends in a `Reset`) -/
  def evalSq (Γ : List String) (L : List Val) (flow : Val) : Sq1 → Option (Val × List Val)
    | .last c => evalCh Γ L flow c
    | .cons c r =>
      (evalCh Γ L flow c).bind fun a =>
        if a.1.isNil then some a else evalSq (compileCh Γ c).2 a.2 a.1 r
  /-- the branches in order, each condition from the block parameter `flow` with the locals `Lp`
  (= the locals before the block and the parameter): the first condition that is not nil commits; its
  consequence — if any — starts again from the parameter and sees the condition's bindings -/
  def evalBrs (Γp : List String) (Lp : List Val) (flow : Val) : Brs1 → Option Val
    | .nil => some Val.nil
    | .cons cond .none rest =>
      (evalSq Γp Lp flow cond).bind fun a =>
        if a.1.isNil then evalBrs Γp Lp flow rest else some a.1
    | .cons cond (.some cons) rest =>
      (evalSq Γp Lp flow cond).bind fun a =>
        if a.1.isNil then evalBrs Γp Lp flow rest
        else (evalSq (compileSq Γp cond).2 a.2 flow cons).map fun b => b.1
end

/-! ### Well-formedness: the program tables say what the term says -/

def wfSub (P : Prog) : Sub → Prop
  | .lit z i => P.constants[i]? = some (.int z)
  | _ => True

def wfSubs (P : Prog) : List Sub → Prop
  | [] => True
  | s :: r => wfSub P s ∧ wfSubs P r

def wfPat (P : Prog) : Pat1 → Prop
  | .top s => wfSub P s
  | .tup subs => wfSubs P subs

/-- `types::NIL = 0`, `types::OK = 1`, both field-less -/
def wfProg (P : Prog) : Prop := P.tuples[0]? = some 0 ∧ P.tuples[1]? = some 0

mutual
  def wfT (P : Prog) : T1 → Prop
    | .int z i => P.constants[i]? = some (.int z)
    | .ripple => True
    | .tup id fs => P.tuples[id]? = some fs.length ∧ wfFs P fs
    | .var _ => True
    | .mtch p => wfPat P p
    | .block bs => wfBrs P bs
  def wfCh (P : Prog) : Ch1 → Prop
    | .nil => True
    | .cons t r => wfT P t ∧ wfCh P r
  def wfFs (P : Prog) : Fs1 → Prop
    | .nil => True
    | .cons c r => wfCh P c ∧ wfFs P r
  def wfSq (P : Prog) : Sq1 → Prop
    | .last c => wfCh P c
    | .cons c r => wfCh P c ∧ wfSq P r
  def wfBrs (P : Prog) : Brs1 → Prop
    | .nil => True
    | .cons cond .none rest => wfSq P cond ∧ wfBrs P rest
    | .cons cond (.some cons) rest => wfSq P cond ∧ wfSq P cons ∧ wfBrs P rest
end

end QM.RefSem.C2
