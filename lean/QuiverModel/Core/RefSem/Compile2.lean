import QuiverModel.Core.RefSem.Compile1
/-
M-RefSem ↔ M-VM, fragment compiler with LOCALS, BINDINGS, SIMPLE MATCH PATTERNS AND BLOCKS (`compile2`),
C02 stretch goal part 4: the fragment of Compile1.lean (whose pattern level — `Sub`, `Pat1`, `slot`,
`compilePat`, `evalPat`, … — is reused unchanged) + BLOCKS with branches and `=>`.

compile_scoped_expression, for a block compiled with `n = local_count` slots in use:
    Store                         the flowing value becomes the block parameter, slot n
    branch₁ … branchₘ             each condition starts with Load(n); a later branch first pops the failed
                                  condition's nil;
      bodiless branch:  [Pop] Load(n) cond [Reset(n+1)] [Duplicate JumpIf(→PC)]
      with consequence: [Pop] Load(n) cond Duplicate Not JumpIf(→T) Pop Load(n) cons [Reset(n+1)] [Jump(→PC)]
                        T = next branch / PC, via the branch's cleanup block if the condition has bindings
    PC: Reset(n)                  the parameter clear — every path reaches it with the value on the stack and
                                  the locals of the block's start plus the parameter
    [Jump(over the cleanup blocks)]  [cleanup blocks: Reset(n+1), Jump(→ back to the next branch / PC)]
`Reset(n+1)` is emitted only where the compile-time local count exceeds n+1 (the branch has bindings).

The **alignment invariant** of Compile1 (run-time locals of the frame = compile-time slot list, in
length) holds along every chain; a sequence that short-circuits leaves it (the skipped steps' Stores are
skipped too) — which is exactly what the Reset discipline repairs: every exit of a branch goes through a
`Reset` back to `n+1` (or has provably stored nothing), and every exit of the block through `Reset(n)`.
-/
namespace QM.RefSem.C2
open QM.VM
open QM.RefSem.C1 (Sub Pat1 slot compilePat patBinds evalPat wfPat wfProg)

mutual
  inductive T2 where
    | int (z : Int) (cidx : Nat)
    | ripple
    | tup (id : Nat) (fields : Fs2)
    /-- read the variable `x` (it replaces the flowing value) -/
    | var (x : String)
    /-- `=p` -/
    | mtch (p : Pat1)
    /-- `{ | cond₁ => cons₁ | cond₂ | … }` -/
    | block (bs : Brs2)
  inductive Ch2 where
    | nil
    | cons (t : T2) (rest : Ch2)
  inductive Fs2 where
    | nil
    | cons (c : Ch2) (rest : Fs2)
  /-- `c₁, c₂, …` -/
  inductive Sq2 where
    | last (c : Ch2)
    | cons (c : Ch2) (rest : Sq2)
  inductive OSq2 where
    | none
    | some (s : Sq2)
  /-- the branches of a block: condition, optional consequence -/
  inductive Brs2 where
    | nil
    | cons (cond : Sq2) (cons : OSq2) (rest : Brs2)
end

def Brs2.isNil : Brs2 → Bool
  | .nil => true
  | .cons _ _ _ => false

def Fs2.length : Fs2 → Nat
  | .nil => 0
  | .cons _ r => r.length + 1

/-- `Reset(n + 1)` — drop a branch's bindings, keep the block parameter — emitted only if the branch
has (compile-time) bindings -/
def resetIf (len n : Nat) : List Instr := if len > n + 1 then [.reset (n + 1)] else []

mutual
  /-- code and the compile-time locals afterwards -/
  def compileT (Γ : List String) : T2 → List Instr × List String
    | .int _ i => ([.pop, .constant i], Γ)
    | .ripple => ([], Γ)
    | .tup id fs =>
      let r := compileFs Γ fs 0
      (r.1 ++ [.tuple id, .rotate 2, .pop], r.2)
    | .var x => ([.pop, .load ((slot Γ x).getD 0)], Γ)
    | .mtch p => (compilePat p, Γ ++ patBinds p)
    -- compile_scoped_expression: the parameter goes to slot `n = local_count`; branches; the parameter
    -- clear `Reset(n)`; then, if any branch needs one, a jump over the cleanup blocks and the cleanup
    -- blocks. Afterwards `local_count` is what it was.
    | .block bs =>
      let r := compileBrs (Γ ++ [""]) Γ.length bs 0 true
      ([.store] ++ (r.1 ++ ([.reset Γ.length] ++
        ((if r.2 = [] then [] else [.jump ((r.2.length : Nat) : Int)]) ++ r.2))), Γ)
  def compileCh (Γ : List String) : Ch2 → List Instr × List String
    | .nil => ([], Γ)
    | .cons t r =>
      let a := compileT Γ t
      let b := compileCh a.2 r
      (a.1 ++ b.1, b.2)
  def compileFs (Γ : List String) : Fs2 → Nat → List Instr × List String
    | .nil, _ => ([], Γ)
    | .cons c r, k =>
      let a := compileCh Γ c
      let b := compileFs a.2 r (k + 1)
      ([.pick k] ++ a.1 ++ b.1, b.2)
  def compileSq (Γ : List String) : Sq2 → List Instr × List String
    | .last c => compileCh Γ c
    | .cons c r =>
      let a := compileCh Γ c
      let b := compileSq a.2 r
      (a.1 ++ ([.duplicate, .not, .jumpIf (b.1.length : Int)] ++ b.1), b.2)
  /-- The branches from a given one on: (main code, cleanup blocks). `Γp` = the slot names with the
  block parameter (slot `n`) as last; `k` = number of cleanup blocks of earlier branches; `first` = no
  earlier branch (a later branch starts by popping the failed condition's nil). The main code of the
  branches ends exactly at the parameter clear (position `PC`); the cleanup blocks start at
  `PC + 2` (after `Reset(n)` and the jump over them), two instructions each.
    bodiless branch:  [Pop] Load(n) cond [Reset(n+1)] [Duplicate JumpIf(→PC)]
    with consequence: [Pop] Load(n) cond Duplicate Not JumpIf(→T) Pop Load(n) cons [Reset(n+1)] [Jump(→PC)]
       T = the next branch (the parameter clear for the last one) — via this branch's cleanup block
       `Reset(n+1), Jump(→ back to the next branch / PC)` if the condition has bindings -/
  def compileBrs (Γp : List String) (n : Nat) : Brs2 → Nat → Bool → List Instr × List Instr
    | .nil, _, _ => ([], [])
    | .cons cond .none rest, k, first =>
      let c := compileSq Γp cond
      let r := compileBrs Γp n rest k false
      ((if first then [] else [.pop]) ++ ([.load n] ++ (c.1 ++ (resetIf c.2.length n ++
        ((if rest.isNil then [] else [.duplicate, .jumpIf (r.1.length : Int)]) ++ r.1)))), r.2)
    | .cons cond (.some cons) rest, k, first =>
      let c := compileSq Γp cond
      let needs : Bool := decide (c.2.length > n + 1)
      let r := compileBrs Γp n rest (if needs then k + 1 else k) false
      let cc := compileSq c.2 cons
      let ej : List Instr := if rest.isNil then [] else [.jump (r.1.length : Int)]
      -- length of `Pop, Load(n), cons, [Reset(n+1)], [Jump]`
      let tailLen : Nat := 2 + cc.1.length + (resetIf cc.2.length n).length + ej.length
      let off : Nat := if needs then tailLen + r.1.length + 2 + 2 * k else tailLen
      ((if first then [] else [.pop]) ++ ([.load n] ++ (c.1 ++ ([.duplicate, .not, .jumpIf (off : Int)] ++
        ([.pop, .load n] ++ (cc.1 ++ (resetIf cc.2.length n ++ (ej ++ r.1))))))),
       (if needs then [.reset (n + 1), .jump (-((r.1.length + 2 * k + 4 : Nat) : Int))] else []) ++ r.2)
end

/-! ### Meaning -/

mutual
  def evalT (Γ : List String) (L : List Val) (flow : Val) : T2 → Option (Val × List Val)
    | .int z _ => some (.int z, L)
    | .ripple => some (flow, L)
    | .tup id fs => (evalFs Γ L flow fs).map fun r => (.tup id (ValList.ofList r.1), r.2)
    | .var x => (slot Γ x).bind fun i => (L[i]?).map fun v => (v, L)
    | .mtch p => (evalPat flow p).map fun r => (r.1, L ++ r.2)
    -- "Blocks create new scopes": the locals afterwards are the locals before
    | .block bs => (evalBrs (Γ ++ [""]) (L ++ [flow]) flow bs).map fun v => (v, L)
  def evalCh (Γ : List String) (L : List Val) (flow : Val) : Ch2 → Option (Val × List Val)
    | .nil => some (flow, L)
    | .cons t r => (evalT Γ L flow t).bind fun a => evalCh (compileT Γ t).2 a.2 a.1 r
  /-- every field starts from `flow`; bindings made in a field persist -/
  def evalFs (Γ : List String) (L : List Val) (flow : Val) : Fs2 → Option (List Val × List Val)
    | .nil => some ([], L)
    | .cons c r =>
      (evalCh Γ L flow c).bind fun a =>
        (evalFs (compileCh Γ c).2 a.2 flow r).map fun b => (a.1 :: b.1, b.2)
  /-- the nil short-circuit: the remaining steps are skipped — and so are their Stores: after a nil step
  the locals are NOT aligned with the sequence's compile-time `Γ` any more (that is why every enclosing
  scope ends in a `Reset`) -/
  def evalSq (Γ : List String) (L : List Val) (flow : Val) : Sq2 → Option (Val × List Val)
    | .last c => evalCh Γ L flow c
    | .cons c r =>
      (evalCh Γ L flow c).bind fun a =>
        if a.1.isNil then some a else evalSq (compileCh Γ c).2 a.2 a.1 r
  /-- the branches in order, each condition from the block parameter `flow` with the locals `Lp`
  (= the locals before the block and the parameter): the first condition that is not nil commits; its
  consequence — if any — starts again from the parameter and sees the condition's bindings -/
  def evalBrs (Γp : List String) (Lp : List Val) (flow : Val) : Brs2 → Option Val
    | .nil => some Val.nil
    | .cons cond .none rest =>
      (evalSq Γp Lp flow cond).bind fun a =>
        if a.1.isNil then evalBrs Γp Lp flow rest else some a.1
    | .cons cond (.some cons) rest =>
      (evalSq Γp Lp flow cond).bind fun a =>
        if a.1.isNil then evalBrs Γp Lp flow rest
        else (evalSq (compileSq Γp cond).2 a.2 flow cons).map fun b => b.1
end

/-! ### Well-formedness -/

mutual
  def wfT (P : Prog) : T2 → Prop
    | .int z i => P.constants[i]? = some (.int z)
    | .ripple => True
    | .tup id fs => P.tuples[id]? = some fs.length ∧ wfFs P fs
    | .var _ => True
    | .mtch p => wfPat P p
    | .block bs => bs.isNil = false ∧ wfBrs P bs
  def wfCh (P : Prog) : Ch2 → Prop
    | .nil => True
    | .cons t r => wfT P t ∧ wfCh P r
  def wfFs (P : Prog) : Fs2 → Prop
    | .nil => True
    | .cons c r => wfCh P c ∧ wfFs P r
  def wfSq (P : Prog) : Sq2 → Prop
    | .last c => wfCh P c
    | .cons c r => wfCh P c ∧ wfSq P r
  def wfBrs (P : Prog) : Brs2 → Prop
    | .nil => True
    | .cons cond .none rest => wfSq P cond ∧ wfBrs P rest
    | .cons cond (.some cons) rest => wfSq P cond ∧ wfSq P cons ∧ wfBrs P rest
end

end QM.RefSem.C2
