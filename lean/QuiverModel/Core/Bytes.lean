import QuiverModel.Core.Outcome
/-
M-Bytes — the rope `BinaryData {Owned, Zeroed, Slice, Concat, Tiled}` of quiver-core/src/binary.rs.

`usize` fields are `Nat`s; every `usize` operation that can overflow in the Rust code is modelled
explicitly: the unchecked `+`, `*`, `-` of the source are `uadd`/`umul`/`usub`, whose failure is the
outcome `panic` (debug profile: `overflow-checks = true`; the release profile wraps silently — the
totality theorems show the check never fires on well-formed ropes, so both profiles agree there).
`saturating_mul`, `checked_add` are modelled as what they are. Slice-index panics
(`&v[a..b]` with `b > v.len()`) are `panic` as well. Allocation failure is not modelled (every rope
stored in the executor heap has `len ≤ MAX_BINARY_SIZE = 16 MiB`, enforced by
`allocate_binary_data`, see `Core/Builtins/Binary.lean`).

The well-formedness invariant `WF` is *not* baked into the type: the functions below are defined on
all ropes, exactly like the Rust functions, and may answer `panic` on ill-formed ones. That the
smart constructors preserve `WF` and that no function panics on `WF` ropes are theorems
(`Lemmas/Bytes/*.lean`).
-/
namespace QM.Bytes

/-- `usize::MAX + 1` on the 64-bit targets the project builds for -/
scoped notation "USIZE_LIMIT" => (18446744073709551616 : Nat)
/-- `MAX_BINARY_SIZE` (value.rs / binary.rs): 16 MiB; re-checked against the source text by the
    regenerated module `Generated/BuiltinSigs.lean` -/
scoped notation "MAX_BINARY" => (16777216 : Nat)

/-- `a + b` on `usize` with overflow check -/
def uadd (a b : Nat) : Outcome Nat := if a + b < USIZE_LIMIT then .ok (a + b) else .panic
/-- `a * b` on `usize` with overflow check -/
def umul (a b : Nat) : Outcome Nat := if a * b < USIZE_LIMIT then .ok (a * b) else .panic
/-- `a - b` on `usize` with overflow check -/
def usub (a b : Nat) : Outcome Nat := if b ≤ a then .ok (a - b) else .panic
/-- `a.saturating_mul(b)` -/
def satMul (a b : Nat) : Nat := if a * b < USIZE_LIMIT then a * b else 18446744073709551615
/-- `a.saturating_add(b)` -/
def satAdd (a b : Nat) : Nat := if a + b < USIZE_LIMIT then a + b else 18446744073709551615

inductive Rope where
  | owned (bs : List UInt8)
  | zeroed (n : Nat)
  | slice (parent : Rope) (offset length : Nat)
  | concat (left right : Rope) (total : Nat)
  | tiled (unit : Rope) (count : Nat)
  deriving Inhabited, Repr, DecidableEq

namespace Rope

/-- `BinaryData::len` -/
def len : Rope → Nat
  | owned bs => bs.length
  | zeroed n => n
  | slice _ _ l => l
  | concat _ _ t => t
  | tiled u c => satMul u.len c

def isEmpty (r : Rope) : Bool := r.len == 0

/-- `BinaryData::concat`: `left.len() + right.len()` is an unchecked addition. -/
def mkConcat (l r : Rope) : Outcome Rope :=
  match uadd l.len r.len with
  | .ok t => .ok (concat l r t)
  | .err e => .err e
  | .panic => .panic

/-- `BinaryData::slice`: `None` when out of bounds (the addition is `checked_add`). -/
def mkSlice (p : Rope) (off l : Nat) : Option Rope :=
  if off > p.len then none
  else if ¬ (off + l < USIZE_LIMIT) then none      -- `offset.checked_add(length)?`
  else if off + l > p.len then none
  else if l = 0 then some (owned [])
  else if off = 0 ∧ l = p.len then some p
  else some (slice p off l)

/-- `BinaryData::tiled`: degenerate cases normalised. -/
def mkTiled (u : Rope) (count : Nat) : Rope :=
  if count = 0 ∨ u.len = 0 then owned []
  else if count = 1 then u
  else tiled u count

/-- `BinaryData::byte_at` -/
def byteAt : Rope → Nat → Outcome (Option UInt8)
  | owned bs, i => if i ≥ bs.length then .ok none else .ok bs[i]?
  | zeroed n, i => if i ≥ n then .ok none else .ok (some 0)
  | slice p off l, i =>
    if i ≥ l then .ok none
    else match uadd off i with               -- `offset + index`
      | .ok j => byteAt p j
      | .err e => .err e
      | .panic => .panic
  | concat l r t, i =>
    if i ≥ t then .ok none
    else if i < l.len then byteAt l i else byteAt r (i - l.len)
  | tiled u c, i =>
    if i ≥ satMul u.len c then .ok none
    else if u.len = 0 then .panic             -- `index % unit.len()`: division by zero
    else byteAt u (i % u.len)

/-- `count` copies of `ub` -/
def tile (ub : List UInt8) : Nat → List UInt8
  | 0 => []
  | c + 1 => ub ++ tile ub c

/-- `BinaryData::to_vec` (`write_to_vec`): left-to-right emission. `Slice` and `Tiled` flatten
    their parent / unit first; `&parent_vec[offset..offset + length]` panics when out of range,
    `unit_bytes.len() * count` is an unchecked multiplication. -/
def toVec : Rope → Outcome (List UInt8)
  | owned bs => .ok bs
  | zeroed n => .ok (List.replicate n 0)
  | slice p off l =>
    match toVec p with
    | .ok pv =>
      match uadd off l with
      | .ok e => if e ≤ pv.length then .ok ((pv.drop off).take l) else .panic
      | .err e => .err e
      | .panic => .panic
    | .err e => .err e
    | .panic => .panic
  | concat l r _ =>
    match toVec l with
    | .ok lv =>
      match toVec r with
      | .ok rv => .ok (lv ++ rv)
      | .err e => .err e
      | .panic => .panic
    | .err e => .err e
    | .panic => .panic
  | tiled u c =>
    match toVec u with
    | .ok uv =>
      match umul uv.length c with
      | .ok _ => .ok (tile uv c)
      | .err e => .err e
      | .panic => .panic
    | .err e => .err e
    | .panic => .panic

/-- position of the first `b` in `bs` (`iter().position(|&x| x == byte)`) -/
def firstIdx (b : UInt8) : List UInt8 → Option Nat
  | [] => none
  | x :: xs => if x = b then some 0 else (firstIdx b xs).map (· + 1)

/-- `Option<usize>::map(|i| i + k)` with the unchecked addition made explicit -/
def addIdx (k : Nat) : Outcome (Option Nat) → Outcome (Option Nat)
  | .ok (some i) => (uadd i k).map some
  | .ok none => .ok none
  | .err e => .err e
  | .panic => .panic

/-- `BinaryData::find_byte`: index of the first `byte` at or after `offset`, walking the rope. -/
def findByte (b : UInt8) : Rope → Nat → Outcome (Option Nat)
  | owned bs, off =>
    if off ≥ bs.length then .ok none
    else .ok ((firstIdx b (bs.drop off)).map (· + off))
  | zeroed n, off => .ok (if b = 0 ∧ off < n then some off else none)
  | slice p so l, off =>
    if off ≥ l then .ok none
    else match uadd so off with              -- `slice_offset + offset`
      | .ok j =>
        match findByte b p j with
        | .ok (some abs) =>
          match usub abs so with             -- `abs - slice_offset`
          | .ok rel => .ok (if rel < l then some rel else none)
          | .err e => .err e
          | .panic => .panic
        | .ok none => .ok none
        | .err e => .err e
        | .panic => .panic
      | .err e => .err e
      | .panic => .panic
  | concat l r _, off =>
    if off < l.len then
      match findByte b l off with
      | .ok (some i) => .ok (some i)
      | .ok none => addIdx l.len (findByte b r 0)
      | .err e => .err e
      | .panic => .panic
    else addIdx l.len (findByte b r (off - l.len))
  | tiled u c, off =>
    if u.len = 0 then .ok none
    else match umul u.len c with             -- `unit_len * count`
      | .ok total =>
        if off ≥ total then .ok none
        else
          let start := off / u.len
          match findByte b u (off % u.len) with
          | .ok (some pos) =>
            (umul start u.len).bind fun base => (uadd base pos).map some
          | .ok none =>
            if start + 1 < c then              -- cannot overflow: start < count
              match findByte b u 0 with
              | .ok (some pos) =>
                (umul (start + 1) u.len).bind fun base => (uadd base pos).map some
              | .ok none => .ok none
              | .err e => .err e
              | .panic => .panic
            else .ok none
          | .err e => .err e
          | .panic => .panic
      | .err e => .err e
      | .panic => .panic

/-- `BinaryIterator` collected: `byte_at(0), byte_at(1), …` until `None`. `fuel` bounds the number
    of items by `len` (the iterator cannot yield more: `byte_at(i)` is `None` for `i ≥ len`). -/
def iterFrom (r : Rope) : Nat → Nat → Outcome (List UInt8)
  | 0, _ => .ok []
  | fuel + 1, i =>
    match byteAt r i with
    | .ok (some b) =>
      match iterFrom r fuel (i + 1) with
      | .ok bs => .ok (b :: bs)
      | .err e => .err e
      | .panic => .panic
    | .ok none => .ok []
    | .err e => .err e
    | .panic => .panic

def iter (r : Rope) : Outcome (List UInt8) := iterFrom r r.len 0

/-- The content of a rope as a flat byte string — the reference semantics ("what binary is
    this?"), without any machine arithmetic. All observable behaviour of the builtins is stated
    in terms of it; `toVec r = ok r.bytes` on well-formed ropes (`Lemmas/Bytes`). -/
def bytes : Rope → List UInt8
  | owned bs => bs
  | zeroed n => List.replicate n 0
  | slice p off l => (p.bytes.drop off).take l
  | concat l r _ => l.bytes ++ r.bytes
  | tiled u c => tile u.bytes c

/-- Reference search on a flat byte string: index of the first `b` at or after `off`. -/
def findFrom (v : List UInt8) (b : UInt8) (off : Nat) : Option Nat :=
  if off ≥ v.length then none else (firstIdx b (v.drop off)).map (· + off)

/-- The representation invariant of ropes built by the smart constructors: lengths are cached
    correctly, windows are inside their parents, nothing exceeds `usize`. -/
def WF : Rope → Prop
  | owned bs => bs.length < USIZE_LIMIT
  | zeroed n => n < USIZE_LIMIT
  | slice p off l => WF p ∧ off + l ≤ p.len
  | concat l r t => WF l ∧ WF r ∧ t = l.len + r.len ∧ t < USIZE_LIMIT
  | tiled u c => WF u ∧ u.len * c < USIZE_LIMIT

instance decWF : (r : Rope) → Decidable r.WF
  | owned bs => inferInstanceAs (Decidable (bs.length < USIZE_LIMIT))
  | zeroed n => inferInstanceAs (Decidable (n < USIZE_LIMIT))
  | slice p off l =>
    have := decWF p
    inferInstanceAs (Decidable (WF p ∧ off + l ≤ p.len))
  | concat l r t =>
    have := decWF l
    have := decWF r
    inferInstanceAs (Decidable (WF l ∧ WF r ∧ t = l.len + r.len ∧ t < USIZE_LIMIT))
  | tiled u c =>
    have := decWF u
    inferInstanceAs (Decidable (WF u ∧ u.len * c < USIZE_LIMIT))

/-- A rope as stored in the executor heap: well-formed and within the size limit that
    `allocate_binary_data` enforces. -/
def Stored (r : Rope) : Prop := r.WF ∧ r.len ≤ MAX_BINARY

instance (r : Rope) : Decidable r.Stored := inferInstanceAs (Decidable (r.WF ∧ r.len ≤ MAX_BINARY))

end Rope

end QM.Bytes
