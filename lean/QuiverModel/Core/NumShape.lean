/-
Structural fingerprint of `std/num.qv` (types only here; the table the model was written against,
`QM.Num.modelShape`, is in `Core/NumShapeModel.lean`; the table regenerated from the live source on
every run is `QM.Generated.numShape`). Import-free.
-/
namespace QM.Num

/-- one top-level branch of a function body -/
structure BranchShape where
  /-- the leading pattern of the branch condition (`""` when the branch does not start with a match) -/
  pattern : String
  /-- does the branch have a `=>` consequence -/
  consequence : Bool
  /-- callees in source order: top-level definitions of the module, builtins, `^` tail calls -/
  calls : List String
  deriving DecidableEq, Repr

/-- one definition: a top-level binding or a field of the exported record -/
structure DefShape where
  name : String
  /-- parameter type as written (`""` for a non-function such as `&to_int`) -/
  param : String
  /-- steps before the dispatching block when the body is `step, …, { | b₁ | b₂ … }` (then
  `branches` are that block's branches), else `""` -/
  binds : String
  branches : List BranchShape
  /-- canonical rendering of the whole definition (comments, layout and `~>` removed) -/
  skeleton : String
  deriving DecidableEq, Repr

structure ModuleShape where
  aliases : List (String × String)
  defs : List DefShape
  exports : List DefShape
  /-- any other top-level step (none expected) -/
  other : List String
  deriving DecidableEq, Repr

end QM.Num
